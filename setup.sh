#!/bin/bash
# MANIFEST.setup_cmd: offline build of the harness crates from files on disk only.
set -e
export CARGO_NET_OFFLINE=true
cd /verif/harness
[ -f Cargo.lock ] || cp /repo/Cargo.lock Cargo.lock
cargo build --offline 2>&1 | tail -3
if [ -d /verif/harness-sched ]; then
  cd /verif/harness-sched
  [ -f Cargo.lock ] || cp /repo/Cargo.lock Cargo.lock
  cargo build --offline 2>&1 | tail -3
fi
# second build of the main crate: indicatif with the cargo feature improved_unicode (C14)
( cd /verif/harness && cargo build --offline --features improved_unicode --target-dir /verif/target-uni 2>&1 | tail -1 )
/verif/target/debug/vh selftest
# coverage-guided targets (thorough tier); best effort here, ./check thorough rebuilds them anyway
( cd /verif/harness && cargo +nightly fuzz build --fuzz-dir /verif/fuzz -s none 2>&1 | tail -1 ) || echo "fuzz targets not built now (the thorough tier builds them)"
