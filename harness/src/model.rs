//! Reference models shared by several properties.
use console::AnsiCodeIterator;
use serde::{Deserialize, Serialize};
use unicode_width::UnicodeWidthChar;

#[derive(Debug, Clone, Copy, PartialEq, Eq, Serialize, Deserialize)]
pub enum Align {
    Left,
    Center,
    Right,
}

impl Align {
    pub fn flag(self) -> &'static str {
        match self {
            Align::Left => "<",
            Align::Center => "^",
            Align::Right => ">",
        }
    }
}

/// One displayed unit of a string: an ANSI sequence (0 columns) or a character with its
/// trailing zero-width marks.
#[derive(Debug, Clone, PartialEq, Eq)]
pub struct Cell {
    pub text: String,
    pub cols: usize,
    pub ansi: bool,
}

pub fn cells(s: &str) -> Vec<Cell> {
    let mut out: Vec<Cell> = vec![];
    for (part, is_ansi) in AnsiCodeIterator::new(s) {
        if is_ansi {
            out.push(Cell { text: part.to_string(), cols: 0, ansi: true });
            continue;
        }
        for ch in part.chars() {
            let w = ch.width().unwrap_or(0);
            if w == 0 {
                if let Some(last) = out.last_mut().filter(|c| !c.ansi) {
                    last.text.push(ch);
                    continue;
                }
            }
            out.push(Cell { text: ch.to_string(), cols: w, ansi: false });
        }
    }
    out
}

pub fn cols(s: &str) -> usize {
    console::measure_text_width(s)
}

/// What a field of width `width` may render for `content` (C12 statement + DESIGN.md 2.3).
pub enum PadExpect {
    /// the acceptable outputs (centre alignment: the odd column may go to either side, the
    /// statement does not say which)
    Exact(Vec<String>),
    /// truncation: the visible text must be one of `visible` (the cells lying entirely inside the
    /// kept window; for centre alignment the window may sit at floor or ceil), ANSI sequences
    /// intact and taken from the content
    Truncated { visible: Vec<String> },
}

fn window_text(cs: &[Cell], start: usize, end: usize) -> String {
    let mut vis = String::new();
    let mut col = 0;
    for c in cs.iter().filter(|c| !c.ansi) {
        let next = col + c.cols;
        if col >= start && next <= end && c.cols > 0 {
            vis.push_str(&c.text);
        }
        col = next;
    }
    vis
}

pub fn pad_ref(content: &str, width: usize, align: Align, truncate: bool) -> PadExpect {
    let cs = cells(content);
    // (the width of the content as a whole: for sequences such as an emoji with a variation selector it is
    // not the sum over the code points; without such sequences the two agree)
    let total: usize = cols(content);
    if total <= width {
        let diff = width - total;
        let pads: Vec<(usize, usize)> = match align {
            Align::Left => vec![(0, diff)],
            Align::Right => vec![(diff, 0)],
            Align::Center => vec![(diff / 2, diff - diff / 2), (diff - diff / 2, diff / 2)],
        };
        return PadExpect::Exact(
            pads.into_iter()
                .map(|(l, r)| format!("{}{}{}", " ".repeat(l), content, " ".repeat(r)))
                .collect(),
        );
    }
    if !truncate {
        return PadExpect::Exact(vec![content.to_string()]);
    }
    let excess = total - width;
    let windows: Vec<(usize, usize)> = match align {
        Align::Left => vec![(0, width)],
        Align::Right => vec![(excess, total)],
        Align::Center => vec![
            (excess / 2, excess / 2 + width),
            (excess - excess / 2, excess - excess / 2 + width),
        ],
    };
    PadExpect::Truncated { visible: windows.into_iter().map(|(a, b)| window_text(&cs, a, b)).collect() }
}

/// Check an actual field rendering against the expectation. Err = human-readable reason.
pub fn check_pad(content: &str, width: usize, align: Align, truncate: bool, got: &str) -> Result<(), String> {
    match pad_ref(content, width, align, truncate) {
        PadExpect::Exact(want) => {
            if want.iter().any(|w| w == got) {
                Ok(())
            } else {
                Err(format!("field {{content {content:?}, width {width}, {align:?}, truncate {truncate}}} rendered {got:?}, expected {:?}", want[0]))
            }
        }
        PadExpect::Truncated { visible } => {
            let got_vis = console::strip_ansi_codes(got).to_string();
            let got_cols = cols(got);
            if !visible.contains(&got_vis) {
                return Err(format!("truncating field {{content {content:?}, width {width}, {align:?}}} rendered {got:?} (visible {got_vis:?}, {got_cols} columns), expected visible text {:?} ({} columns)", visible[0], cols(&visible[0])));
            }
            // escape sequences must be intact: a broken one would leak visible characters, which the
            // comparison above already rejects; they must come from the content, in order
            let mut src = AnsiCodeIterator::new(content).filter(|p| p.1).map(|p| p.0);
            for (seq, is_ansi) in AnsiCodeIterator::new(got) {
                if is_ansi && !src.any(|s| s == seq) {
                    return Err(format!("truncating field rendered {got:?}: escape sequence {seq:?} is not from the content {content:?}"));
                }
            }
            Ok(())
        }
    }
}

/// The first acceptable rendering (used to build reference lines).
pub fn pad_first(content: &str, width: usize, align: Align, truncate: bool) -> String {
    match pad_ref(content, width, align, truncate) {
        PadExpect::Exact(v) => v[0].clone(),
        PadExpect::Truncated { visible } => visible[0].clone(),
    }
}

/// Expand tabs the way indicatif documents: each TAB becomes `tab_width` spaces.
pub fn expand_tabs(s: &str, tab_width: usize) -> String {
    s.replace('\t', &" ".repeat(tab_width))
}
