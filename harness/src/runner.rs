//! proptest `TestRunner` wrapper: seeding, parallel workers, case counting, classification,
//! distinct-non-trivial hashing, shrinking, replay files, known-finding filter, evidence.
use std::collections::hash_map::DefaultHasher;
use std::collections::{BTreeMap, HashSet};
use std::hash::{Hash, Hasher};
use std::panic::{self, AssertUnwindSafe};
use std::sync::atomic::{AtomicBool, Ordering};
use std::sync::{Arc, Mutex};
use std::time::Instant;

use proptest::strategy::BoxedStrategy;
use proptest::test_runner::{Config, RngSeed, TestCaseError, TestError, TestRunner};
use serde::de::DeserializeOwned;
use serde::Serialize;
use serde_json::{json, Value};

pub const VERIF_DIR: &str = "/verif";

#[derive(Clone, Copy, Debug, PartialEq, Eq)]
pub enum Tier {
    Quick,
    Thorough,
}

impl Tier {
    pub fn name(self) -> &'static str {
        match self {
            Tier::Quick => "quick",
            Tier::Thorough => "thorough",
        }
    }
    /// pick by tier
    pub fn pick<T>(self, quick: T, thorough: T) -> T {
        match self {
            Tier::Quick => quick,
            Tier::Thorough => thorough,
        }
    }
}

/// What one executed case reports when the property held.
#[derive(Default, Debug, Clone)]
pub struct Verdict {
    pub labels: Vec<&'static str>,
    pub nontrivial: bool,
}

impl Verdict {
    pub fn label(&mut self, l: &'static str) {
        if !self.labels.contains(&l) {
            self.labels.push(l);
        }
    }
    pub fn label_if(&mut self, c: bool, l: &'static str) {
        if c {
            self.label(l)
        }
    }
}

/// A violation: `kind` is a stable short tag (used for known-finding matching), `msg` the details.
#[derive(Debug, Clone)]
pub struct Fail {
    pub kind: &'static str,
    pub msg: String,
}

impl Fail {
    pub fn new(kind: &'static str, msg: impl Into<String>) -> Self {
        Fail { kind, msg: msg.into() }
    }
}

pub type CaseResult = Result<Verdict, Fail>;

#[macro_export]
macro_rules! ensure {
    ($cond:expr, $kind:expr, $($arg:tt)*) => {
        if !($cond) {
            return Err($crate::runner::Fail::new($kind, format!($($arg)*)));
        }
    };
}

// ---------------------------------------------------------------------------------------------
// panic capture

thread_local! {
    static QUIET: std::cell::Cell<bool> = const { std::cell::Cell::new(false) };
    static LAST_PANIC: std::cell::RefCell<Option<String>> = const { std::cell::RefCell::new(None) };
}

pub fn install_panic_hook() {
    let default = panic::take_hook();
    panic::set_hook(Box::new(move |info| {
        let msg = if let Some(s) = info.payload().downcast_ref::<&str>() {
            s.to_string()
        } else if let Some(s) = info.payload().downcast_ref::<String>() {
            s.clone()
        } else {
            "<non-string panic>".to_string()
        };
        let loc = info
            .location()
            .map(|l| format!("{}:{}", l.file(), l.line()))
            .unwrap_or_default();
        let quiet = QUIET.try_with(|q| q.get()).unwrap_or(false);
        let _ = LAST_PANIC.try_with(|p| *p.borrow_mut() = Some(format!("{msg} @ {loc}")));
        if !quiet && std::env::var_os("VERIF_PANIC_VERBOSE").is_some() {
            default(info);
        }
    }));
}

/// Run `f`, turning an unwind into `Err(panic message @ location)`. Quiet.
pub fn catch<R>(f: impl FnOnce() -> R) -> Result<R, String> {
    let prev = QUIET.with(|q| q.replace(true));
    LAST_PANIC.with(|p| *p.borrow_mut() = None);
    let r = panic::catch_unwind(AssertUnwindSafe(f));
    QUIET.with(|q| q.set(prev));
    r.map_err(|_| {
        LAST_PANIC
            .with(|p| p.borrow_mut().take())
            .unwrap_or_else(|| "<panic>".into())
    })
}

/// Owns a value of the code under test and drops it under `catch`: a destructor that panics (for
/// example on a poisoned lock) while another panic is unwinding would otherwise abort the process.
pub struct Guarded<T>(Option<T>);

impl<T> Guarded<T> {
    pub fn new(v: T) -> Self {
        Guarded(Some(v))
    }
    /// drop now; Err(panic message) if the destructor unwound
    pub fn drop_now(mut self) -> Result<(), String> {
        match self.0.take() {
            Some(v) => catch(move || drop(v)),
            None => Ok(()),
        }
    }
}

impl<T> std::ops::Deref for Guarded<T> {
    type Target = T;
    fn deref(&self) -> &T {
        self.0.as_ref().expect("guarded value present")
    }
}

impl<T> Drop for Guarded<T> {
    fn drop(&mut self) {
        if let Some(v) = self.0.take() {
            let _ = catch(move || drop(v));
        }
    }
}

// ---------------------------------------------------------------------------------------------
// known findings

#[derive(Debug, Clone)]
pub struct KnownFinding {
    pub property: String,
    pub signature: String,
    pub kind: String,
    pub replay: String,
    pub what: String,
}

pub fn load_known(property: &str) -> Vec<KnownFinding> {
    let path = format!("{VERIF_DIR}/known_findings.json");
    let Ok(text) = std::fs::read_to_string(&path) else {
        return vec![];
    };
    let v: Value = match serde_json::from_str(&text) {
        Ok(v) => v,
        Err(e) => {
            eprintln!("HARNESS-PROBLEM: known_findings.json does not parse: {e}");
            std::process::exit(2);
        }
    };
    let mut out = vec![];
    for f in v["findings"].as_array().cloned().unwrap_or_default() {
        if f["status"] == "known" && f["property"] == property {
            out.push(KnownFinding {
                property: property.to_string(),
                signature: f["signature"].as_str().unwrap_or("").to_string(),
                kind: f["kind"].as_str().unwrap_or("").to_string(),
                replay: f["replay"].as_str().unwrap_or("").to_string(),
                what: f["what"].as_str().unwrap_or("").to_string(),
            });
        }
    }
    out
}

// ---------------------------------------------------------------------------------------------
// byte decoder for the libFuzzer targets

/// Fuzzer bytes -> structured choices (hand-written; an exhausted input yields zeros). proptest's
/// pass-through RNG cannot serve here: on a zero stream rand's rejection sampling never terminates
/// and every flat_map halves the stream.
pub struct FuzzInput<'a> {
    data: &'a [u8],
    pos: usize,
}

impl<'a> FuzzInput<'a> {
    pub fn new(data: &'a [u8]) -> Self {
        FuzzInput { data, pos: 0 }
    }
    pub fn empty(&self) -> bool {
        self.pos >= self.data.len()
    }
    pub fn u8(&mut self) -> u8 {
        let b = self.data.get(self.pos).copied().unwrap_or(0);
        self.pos += 1;
        b
    }
    pub fn u16(&mut self) -> u16 {
        u16::from_le_bytes([self.u8(), self.u8()])
    }
    pub fn u32(&mut self) -> u32 {
        u32::from_le_bytes([self.u8(), self.u8(), self.u8(), self.u8()])
    }
    pub fn u64(&mut self) -> u64 {
        (self.u32() as u64) << 32 | self.u32() as u64
    }
    pub fn bool(&mut self) -> bool {
        self.u8() & 1 == 1
    }
    /// 0..=max
    pub fn n(&mut self, max: usize) -> usize {
        if max == 0 {
            0
        } else if max < 256 {
            self.u8() as usize % (max + 1)
        } else {
            self.u32() as usize % (max + 1)
        }
    }
    pub fn range(&mut self, lo: u64, hi: u64) -> u64 {
        lo + self.u64() % (hi - lo + 1)
    }
    pub fn pick<T: Clone>(&mut self, xs: &[T]) -> T {
        xs[self.n(xs.len() - 1)].clone()
    }
    /// number biased to the u64 boundaries
    pub fn special_u64(&mut self) -> u64 {
        match self.n(5) {
            0 => self.n(10) as u64,
            1 => [1u64 << 24, (1 << 32) - 1, 1 << 32, (1 << 63) - 1, 1 << 63, u64::MAX - 1, u64::MAX][self.n(6)],
            2 => self.range(0, 1000),
            _ => self.u64(),
        }
    }
    /// a line of single-width text (plus zero-width SGR), width biased around multiples of `cols`
    pub fn line(&mut self, cols: usize) -> String {
        match self.n(9) {
            0 | 1 => String::new(),
            2 | 3 | 4 => {
                let k = self.n(3);
                let d = self.n(2) as i64 - 1;
                "x".repeat(((k * cols) as i64 + d).max(0) as usize)
            }
            5 => "\x1b[1m\x1b[0m".to_string(),
            _ => {
                let mut s = String::new();
                for _ in 0..self.n(3) {
                    match self.n(7) {
                        0 => s.push_str("\x1b[31m"),
                        1 => s.push_str("\x1b[0m"),
                        2 => s.push('\u{e9}'),
                        3 => s.push_str(&"\u{9032}".repeat(1 + self.n(cols / 2 + 1))),
                        _ => {
                            for _ in 0..=self.n(5) {
                                s.push(self.pick(&['a', 'b', 'Z', '0', ' ', '.', ':', '#', '=', '-']));
                            }
                        }
                    }
                }
                s
            }
        }
    }
    /// 1-3 lines
    pub fn text(&mut self, cols: usize) -> String {
        match self.n(8) {
            0 | 1 => {
                let n = 2 + self.n(1);
                (0..n).map(|_| self.line(cols)).collect::<Vec<_>>().join("\n")
            }
            2 => format!("{}\n", self.line(cols)),
            _ => self.line(cols),
        }
    }
    pub fn short(&mut self, cols: usize) -> String {
        match self.n(8) {
            0 | 1 => String::new(),
            2 | 3 => "m".repeat(cols.saturating_sub(6) + self.n(9)),
            4 => "\u{9032}".repeat(cols / 4 + self.n(cols / 2 + 1)),
            _ => (0..=self.n(4)).map(|_| self.pick(&['a', 'b', 'c', 'x', 'y'])).collect(),
        }
    }
}

// ---------------------------------------------------------------------------------------------
// parts

#[derive(Default, Debug, Clone)]
pub struct PartReport {
    pub name: String,
    pub evaluations: u64,
    pub distinct_nontrivial: u64,
    pub excluded_known: u64,
    pub labels: BTreeMap<String, u64>,
    pub samples: Vec<Value>,
    pub rule: String,
    pub exhaustive: bool,
    /// (replay path, message)
    pub violation: Option<(String, String)>,
    pub known_hits: Vec<String>,
    pub problems: Vec<String>,
    pub wall_s: f64,
}

pub trait Part: Send + Sync {
    fn name(&self) -> &str;
    fn run(&self, prop: &str, seed: u64, tier: Tier, known: &[KnownFinding]) -> PartReport;
    /// Re-execute one stored case (plain regression check, no proptest).
    fn replay(&self, case: &Value) -> Result<CaseResult, String>;
    /// Decode fuzzer bytes into a case (the bytes are the random stream of the part's strategy) and
    /// decide it; Some((case, message)) = violation outside the known findings.
    fn fuzz(&self, _data: &[u8], _known: &[KnownFinding]) -> Option<(Value, String)> {
        None
    }
    fn has_fuzz_decoder(&self) -> bool {
        false
    }
    /// the known-finding signature the stored case falls under, if any
    fn signature_of(&self, _case: &Value) -> Option<String> {
        None
    }
}

/// A generated-case part: strategy + pure run function.
pub struct Gen<C> {
    pub name: &'static str,
    pub rule: &'static str,
    pub strategy: fn(Tier) -> BoxedStrategy<C>,
    pub cases: fn(Tier) -> u32,
    pub run: fn(&C) -> CaseResult,
    /// signature of a known finding this *case* falls under (checked together with Fail.kind)
    pub signature: fn(&C) -> Option<&'static str>,
    /// labels that must be hit at least once, else the generator is considered vacuous (exit 2)
    pub essential: &'static [&'static str],
    pub workers: usize,
    /// byte decoder for the coverage-guided (libFuzzer) targets
    pub decode: Option<fn(&mut crate::runner::FuzzInput) -> C>,
}

pub fn no_signature<C>(_: &C) -> Option<&'static str> {
    None
}

fn mix(mut x: u64) -> u64 {
    x = x.wrapping_add(0x9E3779B97F4A7C15);
    x = (x ^ (x >> 30)).wrapping_mul(0xBF58476D1CE4E5B9);
    x = (x ^ (x >> 27)).wrapping_mul(0x94D049BB133111EB);
    x ^ (x >> 31)
}

fn tag(s: &str) -> u64 {
    let mut h = DefaultHasher::new();
    s.hash(&mut h);
    h.finish()
}

fn run_guarded<C>(run: fn(&C) -> CaseResult, c: &C) -> CaseResult {
    take_wide_gap();
    let r = match catch(|| run(c)) {
        Ok(r) => r,
        Err(p) => Err(Fail::new("panic", format!("unexpected panic: {p}"))),
    };
    if take_wide_gap() {
        // a double-width character met the last cell of a row: terminal-dependent, out of domain
        return Ok(Verdict { labels: vec!["discarded_wide_glyph_at_right_margin"], nontrivial: false });
    }
    r
}

fn is_known<C>(
    sig: fn(&C) -> Option<&'static str>,
    c: &C,
    fail: &Fail,
    known: &[KnownFinding],
) -> Option<String> {
    // a case may fall under several recorded situations: the signature is a '|'-separated list
    let s = sig(c)?;
    known
        .iter()
        .find(|k| s.split('|').any(|x| x == k.signature) && (k.kind.is_empty() || k.kind == fail.kind))
        .map(|k| k.signature.clone())
}

pub fn write_replay(prop: &str, part: &str, case: &Value, msg: &str) -> String {
    let mut h = DefaultHasher::new();
    case.to_string().hash(&mut h);
    part.hash(&mut h);
    let dir = format!("{VERIF_DIR}/replays/found");
    let _ = std::fs::create_dir_all(&dir);
    let path = format!("{dir}/{prop}-{part}-{:012x}.json", h.finish() & 0xffff_ffff_ffff);
    let v = json!({"property": prop, "part": part, "message": msg, "case": case});
    let _ = std::fs::write(&path, serde_json::to_string_pretty(&v).unwrap());
    path
}

impl<C> Part for Gen<C>
where
    C: std::fmt::Debug + Clone + Serialize + DeserializeOwned + Send + 'static,
{
    fn name(&self) -> &str {
        self.name
    }

    fn run(&self, prop: &str, seed: u64, tier: Tier, known: &[KnownFinding]) -> PartReport {
        let t0 = Instant::now();
        // the per-part counts are the base; the quick tier runs 6x the base (fixed work), VERIF_SCALE overrides
        let scale: u64 = std::env::var("VERIF_SCALE").ok().and_then(|s| s.parse().ok()).unwrap_or(match tier {
            Tier::Quick => 6,
            Tier::Thorough => 1,
        });
        let total = (self.cases)(tier) as u64 * scale.max(1);
        let workers = self.workers.max(1).min(total.max(1) as usize);
        let stop = Arc::new(AtomicBool::new(false));
        struct Shared {
            evaluations: u64,
            excluded_known: u64,
            labels: BTreeMap<String, u64>,
            hashes: HashSet<u64>,
            samples: Vec<Value>,
            known_hits: HashSet<String>,
        }
        let shared = Arc::new(Mutex::new(Shared {
            evaluations: 0,
            excluded_known: 0,
            labels: BTreeMap::new(),
            hashes: HashSet::new(),
            samples: vec![],
            known_hits: HashSet::new(),
        }));
        let failure: Arc<Mutex<Option<(Value, String)>>> = Arc::new(Mutex::new(None));
        let base = mix(seed ^ tag(prop) ^ tag(self.name).rotate_left(17));
        std::thread::scope(|scope| {
            for w in 0..workers {
                let stop = stop.clone();
                let shared = shared.clone();
                let failure = failure.clone();
                let n = total / workers as u64 + u64::from((w as u64) < total % workers as u64);
                let mk_strategy = self.strategy;
                let part_name = self.name;
                let run = self.run;
                let sig = self.signature;
                std::thread::Builder::new()
                    .stack_size(64 << 20)
                    .spawn_scoped(scope, move || {
                        if n == 0 {
                            return;
                        }
                        let cfg = Config {
                            cases: n as u32,
                            failure_persistence: None,
                            rng_seed: RngSeed::Fixed(mix(base ^ (w as u64 + 1))),
                            max_shrink_iters: 20_000,
                            // minimality only: a slow failing case (a 20 s 'not prompt') must not shrink for hours
                            max_shrink_time: 180_000,
                            max_global_rejects: 1_000_000,
                            verbose: 0,
                            ..Config::default()
                        };
                        let mut runner = TestRunner::new(cfg);
                        let strategy = mk_strategy(tier);
                        struct Local {
                            shrinking: bool,
                            evals: u64,
                            excl: u64,
                            labels: BTreeMap<&'static str, u64>,
                            hashes: HashSet<u64>,
                            samples: Vec<Value>,
                            known_hits: HashSet<String>,
                        }
                        let local = std::cell::RefCell::new(Local {
                            shrinking: false,
                            evals: 0,
                            excl: 0,
                            labels: BTreeMap::new(),
                            hashes: HashSet::new(),
                            samples: vec![],
                            known_hits: HashSet::new(),
                        });
                        // set by ./check when a run ended in a process abort: every worker leaves the case
                        // it is about to run in a file, so that the culprit can be replayed afterwards
                        let inflight = std::env::var("VERIF_INFLIGHT_DIR").ok().map(|d| format!("{d}/{prop}-{part_name}-w{w}.json"));
                        let res = runner.run(&strategy, |c: C| {
                            let mut l = local.borrow_mut();
                            if !l.shrinking && stop.load(Ordering::Relaxed) {
                                return Ok(()); // another worker failed: wind down
                            }
                            if let Some(path) = &inflight {
                                let v = json!({"property": prop, "part": part_name, "message": "[abort] the process aborted while this case was running (a panic inside a destructor during unwinding, or a fatal signal)", "case": serde_json::to_value(&c).unwrap_or(Value::Null)});
                                let _ = std::fs::write(path, v.to_string());
                            }
                            let r = run_guarded(run, &c);
                            match r {
                                Ok(v) => {
                                    if !l.shrinking {
                                        l.evals += 1;
                                        for lab in &v.labels {
                                            *l.labels.entry(lab).or_default() += 1;
                                        }
                                        if v.nontrivial {
                                            let mut h = DefaultHasher::new();
                                            format!("{c:?}").hash(&mut h);
                                            l.hashes.insert(h.finish());
                                        }
                                        if l.samples.len() < 2 && (v.nontrivial || l.evals > 20) {
                                            l.samples.push(serde_json::to_value(&c).unwrap_or(Value::Null));
                                        }
                                    }
                                    Ok(())
                                }
                                Err(f) => {
                                    if let Some(k) = is_known(sig, &c, &f, known) {
                                        if !l.shrinking {
                                            l.evals += 1;
                                            l.excl += 1;
                                            l.known_hits.insert(k);
                                        }
                                        return Ok(());
                                    }
                                    if !l.shrinking {
                                        l.evals += 1;
                                        l.shrinking = true;
                                        stop.store(true, Ordering::Relaxed);
                                    }
                                    Err(TestCaseError::fail(format!("[{}] {}", f.kind, f.msg)))
                                }
                            }
                        });
                        {
                            let l = local.into_inner();
                            let mut s = shared.lock().unwrap();
                            s.evaluations += l.evals;
                            s.excluded_known += l.excl;
                            for (lab, n) in l.labels {
                                *s.labels.entry(lab.to_string()).or_default() += n;
                            }
                            s.hashes.extend(l.hashes);
                            for smp in l.samples {
                                if s.samples.len() < 3 {
                                    s.samples.push(smp);
                                }
                            }
                            s.known_hits.extend(l.known_hits);
                        }
                        match res {
                            Ok(()) => {}
                            Err(TestError::Fail(reason, c)) => {
                                let v = serde_json::to_value(&c).unwrap_or(Value::Null);
                                let mut f = failure.lock().unwrap();
                                if f.is_none() {
                                    *f = Some((v, reason.message().to_string()));
                                }
                            }
                            Err(TestError::Abort(reason)) => {
                                let mut f = failure.lock().unwrap();
                                if f.is_none() {
                                    *f = Some((Value::Null, format!("ABORT: {}", reason.message())));
                                }
                            }
                        }
                    })
                    .unwrap();
            }
        });
        let s = Arc::try_unwrap(shared).ok().unwrap().into_inner().unwrap();
        let mut rep = PartReport {
            name: self.name.to_string(),
            evaluations: s.evaluations,
            distinct_nontrivial: s.hashes.len() as u64,
            excluded_known: s.excluded_known,
            labels: s.labels,
            samples: s.samples,
            rule: self.rule.to_string(),
            known_hits: s.known_hits.into_iter().collect(),
            ..Default::default()
        };
        if let Some((case, msg)) = failure.lock().unwrap().take() {
            if case.is_null() && msg.starts_with("ABORT") {
                rep.problems.push(format!("part {}: proptest aborted: {msg}", self.name));
            } else {
                let path = write_replay(prop, self.name, &case, &msg);
                rep.violation = Some((path, msg));
            }
        } else {
            for e in self.essential {
                if rep.labels.get(*e).copied().unwrap_or(0) == 0 {
                    rep.problems
                        .push(format!("part {}: essential label '{e}' never produced (vacuous generator)", self.name));
                }
            }
        }
        rep.wall_s = t0.elapsed().as_secs_f64();
        rep
    }

    fn replay(&self, case: &Value) -> Result<CaseResult, String> {
        let c: C = serde_json::from_value(case.clone()).map_err(|e| format!("cannot decode case: {e}"))?;
        Ok(run_guarded(self.run, &c))
    }

    fn fuzz(&self, data: &[u8], known: &[KnownFinding]) -> Option<(Value, String)> {
        let decode = self.decode?;
        let mut input = FuzzInput::new(data);
        let c = decode(&mut input);
        match run_guarded(self.run, &c) {
            Ok(_) => None,
            Err(f) => {
                if is_known(self.signature, &c, &f, known).is_some() {
                    return None;
                }
                Some((serde_json::to_value(&c).unwrap_or(Value::Null), format!("[{}] {}", f.kind, f.msg)))
            }
        }
    }

    fn has_fuzz_decoder(&self) -> bool {
        self.decode.is_some()
    }

    fn signature_of(&self, case: &Value) -> Option<String> {
        let c: C = serde_json::from_value(case.clone()).ok()?;
        (self.signature)(&c).map(|s| s.to_string())
    }
}

/// A bounded-exhaustive or otherwise hand-enumerated part.
pub struct Enumerated {
    pub name: &'static str,
    pub rule: &'static str,
    /// runs the whole enumeration; returns (evaluations, distinct nontrivial, labels, samples, first failure (case, fail))
    pub run: fn(Tier, u64) -> EnumReport,
    /// re-run one stored case
    pub replay: fn(&Value) -> Result<CaseResult, String>,
}

#[derive(Default)]
pub struct EnumReport {
    pub evaluations: u64,
    pub distinct_nontrivial: u64,
    pub labels: BTreeMap<String, u64>,
    pub samples: Vec<Value>,
    pub exhaustive: bool,
    pub failure: Option<(Value, Fail)>,
    pub problems: Vec<String>,
}

impl Part for Enumerated {
    fn name(&self) -> &str {
        self.name
    }
    fn run(&self, prop: &str, seed: u64, tier: Tier, _known: &[KnownFinding]) -> PartReport {
        let t0 = Instant::now();
        let r = match catch(|| (self.run)(tier, seed)) {
            Ok(r) => r,
            Err(p) => EnumReport {
                problems: vec![format!("part {} panicked outside a case: {p}", self.name)],
                ..Default::default()
            },
        };
        let mut rep = PartReport {
            name: self.name.to_string(),
            evaluations: r.evaluations,
            distinct_nontrivial: r.distinct_nontrivial,
            labels: r.labels,
            samples: r.samples,
            rule: self.rule.to_string(),
            exhaustive: r.exhaustive,
            problems: r.problems,
            ..Default::default()
        };
        if let Some((case, f)) = r.failure {
            let msg = format!("[{}] {}", f.kind, f.msg);
            let path = write_replay(prop, self.name, &case, &msg);
            rep.violation = Some((path, msg));
        }
        rep.wall_s = t0.elapsed().as_secs_f64();
        rep
    }
    fn replay(&self, case: &Value) -> Result<CaseResult, String> {
        match catch(|| (self.replay)(case)) {
            Ok(r) => r,
            Err(p) => Ok(Err(Fail::new("panic", format!("unexpected panic: {p}")))),
        }
    }
}

// ---------------------------------------------------------------------------------------------
// property driver

pub struct Property {
    pub id: &'static str,
    pub level: &'static str,
    pub assumptions: &'static [&'static str],
    pub parts: Vec<Box<dyn Part>>,
}

pub fn default_workers() -> usize {
    std::env::var("VERIF_WORKERS")
        .ok()
        .and_then(|s| s.parse().ok())
        .unwrap_or_else(|| std::thread::available_parallelism().map(|n| n.get()).unwrap_or(4).min(16))
}

fn replay_file(prop: &Property, path: &str) -> Result<(String, CaseResult), String> {
    let text = std::fs::read_to_string(path).map_err(|e| format!("cannot read {path}: {e}"))?;
    let v: Value = serde_json::from_str(&text).map_err(|e| format!("cannot parse {path}: {e}"))?;
    let part_name = v["part"].as_str().unwrap_or("");
    let part = prop
        .parts
        .iter()
        .find(|p| p.name() == part_name)
        .ok_or_else(|| format!("{path}: no part '{part_name}' in property {}", prop.id))?;
    let r = part.replay(&v["case"])?;
    Ok((part_name.to_string(), r))
}

/// `./check <ID> --replay <file>`
pub fn run_replay(prop: &Property, path: &str) -> i32 {
    match replay_file(prop, path) {
        Err(e) => {
            println!("HARNESS-PROBLEM: {e}");
            2
        }
        Ok((part, Ok(v))) => {
            println!("replay {path}: part {part}: property held (labels {:?})", v.labels);
            0
        }
        Ok((part, Err(f))) => {
            println!("replay {path}: part {part}: [{}] {}", f.kind, f.msg);
            // tell whether this is one of the recorded findings (the replay still exits 1: it fails)
            if let Ok(text) = std::fs::read_to_string(path) {
                if let Ok(v) = serde_json::from_str::<Value>(&text) {
                    if let Some(p) = prop.parts.iter().find(|p| p.name() == part) {
                        if let Some(sig) = p.signature_of(&v["case"]) {
                            let known = load_known(prop.id);
                            if let Some(k) = known.iter().find(|k| sig.split('|').any(|x| x == k.signature) && (k.kind.is_empty() || k.kind == f.kind)) {
                                println!("(falls under the recorded finding [{}]: {})", k.signature, k.what);
                            } else {
                                println!("(case signature {sig}, no recorded finding with failure kind {})", f.kind);
                            }
                        }
                    }
                }
            }
            println!("VIOLATION property={} replay={}", prop.id, path);
            1
        }
    }
}

pub fn run_property(prop: &Property, tier: Tier, seed: u64) -> i32 {
    let t0 = Instant::now();
    let known = load_known(prop.id);
    let mut reports: Vec<PartReport> = vec![];
    let mut exit = 0;
    let mut violations = 0;
    let mut known_lines: Vec<String> = vec![];

    // 1. regression tier: committed replays of this property
    let mut regression = 0u64;
    let mut names: Vec<String> = std::fs::read_dir(format!("{VERIF_DIR}/replays"))
        .map(|d| {
            d.filter_map(|e| e.ok())
                .map(|e| e.file_name().to_string_lossy().to_string())
                .filter(|n| n.starts_with(&format!("{}-", prop.id)) && n.ends_with(".json"))
                .collect()
        })
        .unwrap_or_default();
    names.sort();
    for n in names {
        let rel = format!("replays/{n}");
        let path = format!("{VERIF_DIR}/{rel}");
        // a property served by two engines: replays of the other engine's parts are not ours
        if let Ok(text) = std::fs::read_to_string(&path) {
            if let Ok(v) = serde_json::from_str::<Value>(&text) {
                let part = v["part"].as_str().unwrap_or("");
                if !prop.parts.iter().any(|p| p.name() == part) && std::env::var_os("VERIF_EVIDENCE_NAME").is_some() | std::env::var_os("VERIF_EVIDENCE_MERGE").is_some() {
                    continue;
                }
            }
        }
        regression += 1;
        match replay_file(prop, &path) {
            Err(e) => {
                println!("HARNESS-PROBLEM: {e}");
                exit = exit.max(2);
            }
            Ok((_, Ok(_))) => {}
            Ok((_, Err(f))) => {
                if let Some(k) = known
                    .iter()
                    .find(|k| k.replay == rel && (k.kind.is_empty() || k.kind == f.kind))
                {
                    known_lines.push(format!("KNOWN-FINDING: property={} {} [{}]", prop.id, k.what, k.signature));
                } else {
                    println!("regression {rel}: [{}] {}", f.kind, f.msg);
                    println!("VIOLATION property={} replay={}", prop.id, path);
                    violations += 1;
                    exit = exit.max(1);
                }
            }
        }
    }

    // 2. generated search
    for part in &prop.parts {
        let rep = part.run(prop.id, seed, tier, &known);
        println!(
            "{} part {:<14} evals={:<8} nontrivial={:<8} excluded_known={} wall={:.1}s",
            prop.id, rep.name, rep.evaluations, rep.distinct_nontrivial, rep.excluded_known, rep.wall_s
        );
        if std::env::var_os("VERIF_LABELS").is_some() {
            println!("    labels: {:?}", rep.labels);
        }
        for p in &rep.problems {
            println!("HARNESS-PROBLEM: {p}");
            exit = exit.max(2);
        }
        if let Some((path, msg)) = &rep.violation {
            println!("{} part {}: {}", prop.id, rep.name, msg);
            println!("VIOLATION property={} replay={}", prop.id, path);
            violations += 1;
            exit = 1;
        }
        reports.push(rep);
    }
    known_lines.sort();
    known_lines.dedup();
    for l in &known_lines {
        println!("{l}");
    }

    // 3. evidence
    let mut labels = serde_json::Map::new();
    let mut samples = vec![];
    let mut evaluations = regression;
    let mut distinct = 0;
    let mut excluded = 0;
    let mut rules = vec![];
    let mut parts_json = vec![];
    let mut exhaustive_parts = vec![];
    for r in &reports {
        evaluations += r.evaluations;
        distinct += r.distinct_nontrivial;
        excluded += r.excluded_known;
        for (l, n) in &r.labels {
            labels.insert(format!("{}.{}", r.name, l), json!(n));
        }
        for s in r.samples.iter().take(2) {
            samples.push(json!({"part": r.name, "case": s}));
        }
        rules.push(format!("[{}] {}", r.name, r.rule));
        if r.exhaustive {
            exhaustive_parts.push(r.name.clone());
        }
        parts_json.push(json!({
            "part": r.name, "evaluations": r.evaluations, "distinct_nontrivial": r.distinct_nontrivial,
            "excluded_known": r.excluded_known, "exhaustive": r.exhaustive, "wall_s": r.wall_s,
        }));
    }
    // fold in the partial evidence of another engine, if asked to
    if let Ok(other) = std::env::var("VERIF_EVIDENCE_MERGE") {
        if let Ok(text) = std::fs::read_to_string(format!("{VERIF_DIR}/evidence/{other}.json")) {
            if let Ok(o) = serde_json::from_str::<Value>(&text) {
                evaluations += o["coverage"]["evaluations"].as_u64().unwrap_or(0);
                distinct += o["coverage"]["distinct_nontrivial"].as_u64().unwrap_or(0);
                if let Some(ps) = o["coverage"]["parts"].as_array() {
                    parts_json.extend(ps.iter().cloned());
                }
                if let Some(ss) = o["coverage"]["samples"].as_array() {
                    samples.extend(ss.iter().cloned());
                }
                if let Some(ls) = o["coverage"]["labels"].as_object() {
                    for (k, v) in ls {
                        labels.insert(k.clone(), v.clone());
                    }
                }
                if let Some(r) = o["coverage"]["rule"].as_str() {
                    rules.push(r.to_string());
                }
                violations += o["violations"].as_i64().unwrap_or(0);
            }
            let _ = std::fs::remove_file(format!("{VERIF_DIR}/evidence/{other}.json"));
        }
    }
    let ev = json!({
        "property_id": prop.id,
        "tier": tier.name(),
        "seed": seed,
        "level": prop.level,
        "coverage": {
            "evaluations": evaluations,
            "distinct_nontrivial": distinct,
            "rule": rules.join(" | "),
            "samples": samples,
            "labels": labels,
            "parts": parts_json,
            "excluded_known": excluded,
            "regression_replays": regression,
            "exhaustive": false,
            "exhaustive_parts": exhaustive_parts,
            "known_findings_reported": known_lines,
        },
        "assumptions": prop.assumptions,
        "wall_s": t0.elapsed().as_secs_f64(),
        "violations": violations,
    });
    let dir = format!("{VERIF_DIR}/evidence");
    let _ = std::fs::create_dir_all(&dir);
    // a property served by two engines (C08) writes partial evidence files that the last engine merges
    let name = std::env::var("VERIF_EVIDENCE_NAME").unwrap_or_else(|_| prop.id.to_string());
    let path = format!("{dir}/{name}.json");
    if let Err(e) = std::fs::write(&path, serde_json::to_string_pretty(&ev).unwrap()) {
        println!("HARNESS-PROBLEM: cannot write evidence {path}: {e}");
        exit = exit.max(2);
    }
    println!(
        "{} {}: evaluations={} distinct_nontrivial={} violations={} wall={:.1}s exit={}",
        prop.id,
        tier.name(),
        evaluations,
        distinct,
        violations,
        t0.elapsed().as_secs_f64(),
        exit
    );
    exit
}

/// Watchdog: a hang is reported as exit 2 (inconclusive), never as a violation.
pub fn start_watchdog(secs: u64) {
    std::thread::spawn(move || {
        std::thread::sleep(std::time::Duration::from_secs(secs));
        println!("HARNESS-PROBLEM: watchdog fired after {secs}s (inconclusive, not a violation)");
        std::process::exit(2);
    });
}

/// `&'static str` for a signature assembled at run time (a handful of distinct values per run).
pub fn intern(s: String) -> &'static str {
    use std::collections::HashMap;
    use std::sync::{Mutex, OnceLock};
    static POOL: OnceLock<Mutex<HashMap<String, &'static str>>> = OnceLock::new();
    let mut pool = POOL.get_or_init(Default::default).lock().unwrap();
    if let Some(v) = pool.get(&s) {
        return v;
    }
    let v: &'static str = Box::leak(s.clone().into_boxed_str());
    pool.insert(s, v);
    v
}

thread_local! {
    static WIDE_GAP: std::cell::Cell<bool> = const { std::cell::Cell::new(false) };
}

/// The reference wrapping met a double-width character that did not fit the last cell of a row.
pub fn note_wide_gap() {
    WIDE_GAP.with(|g| g.set(true));
}

/// Did that happen on this thread since the last call? Where such a character goes is
/// terminal-dependent and indicatif documents no accounting for it: those cases are out of domain.
pub fn take_wide_gap() -> bool {
    WIDE_GAP.with(|w| w.replace(false))
}
