//! Recording / fault-injecting `TermLike` over the harness's own grid emulator (DESIGN.md 1.2).
use std::io;
use std::sync::{Arc, Mutex};

use indicatif::TermLike;
use unicode_width::UnicodeWidthChar;

/// One character cell. `None` = never written / erased (reads as a space).
#[derive(Clone, Debug, PartialEq, Eq)]
enum Cell {
    Blank,
    Ch(String),
    /// second half of a double-width character
    Cont,
}

/// A small terminal emulator: printable cells with xterm-style deferred auto-wrap, CR, LF with
/// scrolling into an unbounded scroll-back, CUU/CUD/CUF/CUB, EL, SGR ignored.
#[derive(Clone, Debug)]
pub struct Grid {
    pub rows: usize,
    pub cols: usize,
    lines: Vec<Vec<Cell>>,
    /// absolute index of the first screen row
    pub top: usize,
    /// absolute cursor row
    pub r: usize,
    pub c: usize,
    /// a character was written in the last column; the next printable wraps first
    pub pending: bool,
    /// highest absolute row the cursor ever visited
    pub max_r: usize,
}

impl Grid {
    pub fn new(rows: usize, cols: usize) -> Self {
        assert!(rows >= 1 && cols >= 1);
        Grid {
            rows,
            cols,
            lines: vec![],
            top: 0,
            r: 0,
            c: 0,
            pending: false,
            max_r: 0,
        }
    }

    fn ensure(&mut self, r: usize) {
        while self.lines.len() <= r {
            self.lines.push(vec![Cell::Blank; self.cols]);
        }
    }

    fn line_feed(&mut self) {
        if self.r == self.top + self.rows - 1 {
            self.top += 1;
        }
        self.r += 1;
        self.max_r = self.max_r.max(self.r);
        self.ensure(self.r);
    }

    fn put(&mut self, ch: char) {
        let w = ch.width().unwrap_or(0);
        if w == 0 {
            // combining mark: attach to the previous cell
            self.ensure(self.r);
            let col = if self.pending || self.c == 0 { self.c } else { self.c - 1 };
            let mut col = col;
            while col > 0 && self.lines[self.r][col] == Cell::Cont {
                col -= 1;
            }
            if let Cell::Ch(s) = &mut self.lines[self.r][col] {
                s.push(ch);
            }
            return;
        }
        if self.pending {
            self.line_feed();
            self.c = 0;
            self.pending = false;
        }
        let mut w = w;
        if w == 2 && self.c + 1 >= self.cols {
            crate::runner::note_wide_gap();
            if self.cols >= 2 {
                // a wide character that does not fit wraps early
                self.line_feed();
                self.c = 0;
            } else {
                w = 1;
            }
        }
        self.ensure(self.r);
        let (r, c) = (self.r, self.c);
        // overwriting half of a wide char blanks the other half
        if self.lines[r][c] == Cell::Cont && c > 0 {
            self.lines[r][c - 1] = Cell::Blank;
        }
        if c + w < self.cols && self.lines[r][c + w] == Cell::Cont {
            self.lines[r][c + w] = Cell::Blank;
        }
        self.lines[r][c] = Cell::Ch(ch.to_string());
        if w == 2 {
            self.lines[r][c + 1] = Cell::Cont;
        }
        self.c += w;
        if self.c >= self.cols {
            self.c = self.cols - 1;
            self.pending = true;
        }
    }

    /// Interpret a byte stream as a tty with ONLCR would (`\n` = CR LF).
    pub fn feed(&mut self, s: &str) {
        let mut it = s.chars().peekable();
        while let Some(ch) = it.next() {
            match ch {
                '\r' => {
                    self.c = 0;
                    self.pending = false;
                }
                '\n' => {
                    self.c = 0;
                    self.pending = false;
                    self.line_feed();
                }
                '\x1b' => {
                    if it.peek() == Some(&'[') {
                        it.next();
                        let mut params = String::new();
                        let mut fin = None;
                        for c in it.by_ref() {
                            if ('\x40'..='\x7e').contains(&c) {
                                fin = Some(c);
                                break;
                            }
                            params.push(c);
                        }
                        if let Some(f) = fin {
                            self.csi(&params, f);
                        }
                    } else {
                        // two-character escape: swallow the next char
                        it.next();
                    }
                }
                '\x08' => {
                    if self.c > 0 {
                        self.c -= 1;
                    }
                    self.pending = false;
                }
                c if (c as u32) < 0x20 || c == '\x7f' => {}
                c => self.put(c),
            }
        }
    }

    fn csi(&mut self, params: &str, fin: char) {
        let n = params
            .split(';')
            .next()
            .and_then(|p| p.parse::<usize>().ok());
        match fin {
            'A' => {
                let n = n.unwrap_or(1).max(1);
                self.r = self.r.saturating_sub(n).max(self.top);
                self.pending = false;
            }
            'B' => {
                let n = n.unwrap_or(1).max(1);
                self.r = (self.r + n).min(self.top + self.rows - 1);
                self.max_r = self.max_r.max(self.r);
                self.ensure(self.r);
                self.pending = false;
            }
            'C' => {
                let n = n.unwrap_or(1).max(1);
                self.c = (self.c + n).min(self.cols - 1);
                self.pending = false;
            }
            'D' => {
                let n = n.unwrap_or(1).max(1);
                self.c = self.c.saturating_sub(n);
                self.pending = false;
            }
            'K' => {
                self.ensure(self.r);
                let r = self.r;
                match n.unwrap_or(0) {
                    0 => {
                        for c in self.c..self.cols {
                            self.lines[r][c] = Cell::Blank;
                        }
                    }
                    1 => {
                        for c in 0..=self.c {
                            self.lines[r][c] = Cell::Blank;
                        }
                    }
                    _ => {
                        for c in 0..self.cols {
                            self.lines[r][c] = Cell::Blank;
                        }
                    }
                }
            }
            _ => {} // SGR and everything else ignored
        }
    }

    fn row_text(&self, r: usize) -> String {
        let mut s = String::new();
        if let Some(line) = self.lines.get(r) {
            for cell in line {
                match cell {
                    Cell::Blank => s.push(' '),
                    Cell::Ch(t) => s.push_str(t),
                    Cell::Cont => {}
                }
            }
        }
        let t = s.trim_end_matches(' ').len();
        s.truncate(t);
        s
    }

    /// All rows (scroll-back + screen), right-trimmed; trailing blank rows dropped.
    pub fn all_rows(&self) -> Vec<String> {
        let mut v: Vec<String> = (0..self.lines.len()).map(|r| self.row_text(r)).collect();
        while v.last().map_or(false, |s| s.is_empty()) {
            v.pop();
        }
        v
    }

    /// Number of rows that have scrolled out of the screen.
    pub fn scrollback_len(&self) -> usize {
        self.top
    }

    /// Where would a printable character written now land? (absolute row, column)
    pub fn probe(&self) -> (usize, usize) {
        if self.pending {
            (self.r + 1, 0)
        } else {
            (self.r, self.c)
        }
    }
}

#[derive(Clone, Debug)]
pub enum Call {
    Up(usize),
    Down(usize),
    Right(usize),
    Left(usize),
    WriteLine(String),
    WriteStr(String),
    ClearLine,
    Flush,
}

#[derive(Clone, Copy, Debug, PartialEq, Eq)]
pub enum FaultMode {
    /// only the k-th call fails
    Once,
    /// the k-th and all later calls fail
    AllLater,
    /// every second call from the k-th on fails
    EverySecond,
    /// only `flush` fails - everything written before it has reached the screen: the k-th flush (`at`
    /// counts flushes here) and the n-1 flushes after it
    Flushes(u8),
    /// the k-th call and the one after it fail, everything later works
    Pair,
}

#[derive(Clone, Copy, Debug)]
pub struct FaultPlan {
    pub at: usize,
    pub mode: FaultMode,
    pub kind: io::ErrorKind,
    /// when set, the error is built from this raw OS error code (as a real terminal device reports it)
    /// instead of from `kind`
    pub os_code: Option<i32>,
    /// when set (and no OS code is), the error consists of `kind` alone: it carries no payload
    pub bare: bool,
}

/// State of the screen at a flush.
#[derive(Clone, Debug)]
pub struct Frame {
    pub rows: Vec<String>,
    pub probe: (usize, usize),
    pub scrollback: usize,
    pub vtime_ns: i64,
    /// number of fallible terminal calls made so far (index of the flush call + 1)
    pub ncalls: usize,
}

#[derive(Debug)]
pub struct Inner {
    pub grid: Grid,
    /// fallible terminal calls so far (moves, writes, clear, flush)
    pub ncalls: usize,
    pub nflush: usize,
    /// flush calls so far, failed ones included
    pub flush_attempts: usize,
    pub nqueries: usize,
    pub log_calls: bool,
    pub calls: Vec<Call>,
    pub snapshots: bool,
    pub frames: Vec<Frame>,
    pub fault: Option<FaultPlan>,
    pub faults_fired: usize,
    pub max_up: usize,
    /// a TAB character was passed to write_str/write_line
    pub tab_seen: bool,
    /// `write_str` texts since the last flush (the content of the frame being painted)
    pub cur_writes: Vec<String>,
    /// number of `write_line` calls since the last flush
    pub cur_nl: usize,
    /// `write_str` texts / `write_line` count of the last completed (flushed) draw
    pub last_writes: Vec<String>,
    pub last_nl: usize,
    pub flush_times: Vec<i64>,
    pub record_flush_times: bool,
    /// feed the grid emulator (off for pure text capture on very wide terminals)
    pub emulate: bool,
    /// the width reported to the code under test when it differs from the grid (0-column terminals)
    pub report_cols: Option<u16>,
    /// the height reported to the code under test when it is smaller than the grid (a terminal that
    /// was made smaller: what is drawn must fit the reported height, nothing scrolls unexpectedly)
    pub report_rows: Option<u16>,
}

#[derive(Clone, Debug)]
pub struct VTerm(pub Arc<Mutex<Inner>>);

impl VTerm {
    pub fn new(rows: usize, cols: usize) -> Self {
        VTerm(Arc::new(Mutex::new(Inner {
            grid: Grid::new(rows, cols),
            ncalls: 0,
            nflush: 0,
            flush_attempts: 0,
            nqueries: 0,
            log_calls: false,
            calls: vec![],
            snapshots: false,
            frames: vec![],
            fault: None,
            faults_fired: 0,
            max_up: 0,
            tab_seen: false,
            cur_writes: vec![],
            cur_nl: 0,
            last_writes: vec![],
            last_nl: 0,
            flush_times: vec![],
            record_flush_times: false,
            emulate: true,
            report_cols: None,
            report_rows: None,
        })))
    }

    /// Text capture only: no grid emulation (any size is cheap).
    pub fn raw(rows: usize, cols: usize) -> Self {
        let v = Self::new(rows, cols.max(1));
        v.lock().emulate = false;
        if cols == 0 {
            // a terminal that reports zero columns (nothing is emulated in raw mode)
            v.lock().report_cols = Some(0);
        }
        v
    }

    pub fn with_snapshots(self) -> Self {
        self.lock().snapshots = true;
        self
    }

    pub fn with_call_log(self) -> Self {
        self.lock().log_calls = true;
        self
    }

    pub fn lock(&self) -> std::sync::MutexGuard<'_, Inner> {
        self.0.lock().unwrap_or_else(|e| e.into_inner())
    }

    pub fn boxed(&self) -> Box<dyn TermLike> {
        Box::new(self.clone())
    }

    pub fn ncalls(&self) -> usize {
        self.lock().ncalls
    }

    pub fn nflush(&self) -> usize {
        self.lock().nflush
    }

    pub fn rows(&self) -> Vec<String> {
        self.lock().grid.all_rows()
    }

    /// The lines of the frame painted by the last flushed draw (top alignment, no shift rows):
    /// `draw_to_term` writes each line with one `write_str`, separates lines with
    /// `write_line("")` and ends with one filler `write_str`. A repaired tree may write one
    /// extra single space in front of a zero-width first line; it is recognised by count.
    pub fn last_frame_lines(&self) -> Result<Vec<String>, String> {
        let g = self.lock();
        let w = &g.last_writes;
        if w.is_empty() && g.last_nl == 0 {
            return Ok(vec![]);
        }
        let n = g.last_nl + 1;
        if w.len() == n + 1 {
            Ok(w[..n].to_vec())
        } else if w.len() == n + 2 && w[0] == " " {
            Ok(w[1..n + 1].to_vec())
        } else {
            Err(format!("unexpected write pattern: {} write_line, writes {:?}", g.last_nl, w))
        }
    }

    /// writes made since the last flush: on a buffering terminal they have not reached the screen yet
    pub fn unflushed(&self) -> usize {
        let g = self.lock();
        g.cur_writes.iter().filter(|w| !w.is_empty()).count() + g.cur_nl
    }

    pub fn take_frames(&self) -> Vec<Frame> {
        std::mem::take(&mut self.lock().frames)
    }

    pub fn take_calls(&self) -> Vec<Call> {
        std::mem::take(&mut self.lock().calls)
    }

    pub fn set_fault(&self, f: Option<FaultPlan>) {
        self.lock().fault = f;
    }

    /// "Ordinary output" written by user code (e.g. inside `suspend`): whole lines.
    pub fn user_print_line(&self, s: &str) {
        let mut g = self.lock();
        g.grid.feed(s);
        g.grid.feed("\n");
    }

    fn op(&self, call: Call) -> io::Result<()> {
        let mut g = self.lock();
        let idx = g.ncalls;
        g.ncalls += 1;
        let flush_idx = g.flush_attempts;
        if matches!(call, Call::Flush) {
            g.flush_attempts += 1;
        }
        if let Some(f) = g.fault {
            let fire = match f.mode {
                FaultMode::Flushes(n) => matches!(call, Call::Flush) && flush_idx >= f.at && flush_idx < f.at + n as usize,
                FaultMode::Once => idx == f.at,
                FaultMode::Pair => idx == f.at || idx == f.at.saturating_add(1),
                FaultMode::AllLater => idx >= f.at,
                FaultMode::EverySecond => idx >= f.at && (idx - f.at) % 2 == 0,
            };
            if fire {
                g.faults_fired += 1;
                return Err(match f.os_code {
                    Some(code) => io::Error::from_raw_os_error(code),
                    None if f.bare => io::Error::from(f.kind),
                    None => io::Error::new(f.kind, "injected terminal fault"),
                });
            }
        }
        if !g.emulate {
            match &call {
                Call::WriteStr(s) => {
                    if s.contains('\t') {
                        g.tab_seen = true;
                    }
                    g.cur_writes.push(s.clone());
                }
                Call::WriteLine(s) => {
                    if s.contains('\t') {
                        g.tab_seen = true;
                    }
                    g.cur_nl += 1;
                    if !s.is_empty() {
                        g.cur_writes.push(s.clone());
                    }
                }
                Call::Flush => {
                    g.nflush += 1;
                    let w = std::mem::take(&mut g.cur_writes);
                    g.last_writes = w;
                    g.last_nl = std::mem::take(&mut g.cur_nl);
                }
                Call::Up(n) => g.max_up = g.max_up.max(*n),
                _ => {}
            }
            if g.log_calls {
                g.calls.push(call);
            }
            return Ok(());
        }
        match &call {
            Call::Up(n) => {
                g.max_up = g.max_up.max(*n);
                if *n > 0 {
                    g.grid.feed(&format!("\x1b[{}A", n));
                }
            }
            Call::Down(n) => {
                if *n > 0 {
                    g.grid.feed(&format!("\x1b[{}B", n));
                }
            }
            Call::Right(n) => {
                if *n > 0 {
                    g.grid.feed(&format!("\x1b[{}C", n));
                }
            }
            Call::Left(n) => {
                if *n > 0 {
                    g.grid.feed(&format!("\x1b[{}D", n));
                }
            }
            Call::WriteLine(s) => {
                if s.contains('\t') {
                    g.tab_seen = true;
                }
                g.grid.feed(s);
                g.grid.feed("\n");
                g.cur_nl += 1;
                if !s.is_empty() {
                    g.cur_writes.push(s.clone());
                }
            }
            Call::WriteStr(s) => {
                if s.contains('\t') {
                    g.tab_seen = true;
                }
                g.grid.feed(s);
                g.cur_writes.push(s.clone());
            }
            Call::ClearLine => g.grid.feed("\r\x1b[2K"),
            Call::Flush => {
                g.nflush += 1;
                let w = std::mem::take(&mut g.cur_writes);
                g.last_writes = w;
                g.last_nl = std::mem::take(&mut g.cur_nl);
                if g.record_flush_times {
                    g.flush_times.push(crate::clock::now_ns());
                }
                if g.snapshots {
                    let fr = Frame {
                        rows: g.grid.all_rows(),
                        probe: g.grid.probe(),
                        scrollback: g.grid.scrollback_len(),
                        vtime_ns: crate::clock::now_ns(),
                        ncalls: g.ncalls,
                    };
                    g.frames.push(fr);
                }
            }
        }
        if g.log_calls {
            g.calls.push(call);
        }
        Ok(())
    }
}

impl TermLike for VTerm {
    fn width(&self) -> u16 {
        let mut g = self.lock();
        g.nqueries += 1;
        g.report_cols.unwrap_or(g.grid.cols as u16)
    }
    fn height(&self) -> u16 {
        let mut g = self.lock();
        g.nqueries += 1;
        g.report_rows.unwrap_or(g.grid.rows as u16)
    }
    fn move_cursor_up(&self, n: usize) -> io::Result<()> {
        self.op(Call::Up(n))
    }
    fn move_cursor_down(&self, n: usize) -> io::Result<()> {
        self.op(Call::Down(n))
    }
    fn move_cursor_right(&self, n: usize) -> io::Result<()> {
        self.op(Call::Right(n))
    }
    fn move_cursor_left(&self, n: usize) -> io::Result<()> {
        self.op(Call::Left(n))
    }
    fn write_line(&self, s: &str) -> io::Result<()> {
        self.op(Call::WriteLine(s.to_string()))
    }
    fn write_str(&self, s: &str) -> io::Result<()> {
        self.op(Call::WriteStr(s.to_string()))
    }
    fn clear_line(&self) -> io::Result<()> {
        self.op(Call::ClearLine)
    }
    fn flush(&self) -> io::Result<()> {
        self.op(Call::Flush)
    }
}

/// Reference wrapping: the rows a line of text occupies on a terminal `cols` wide (zero-width SGR
/// sequences dropped; a double-width character that does not fit the rest of a row wraps early, as
/// on a real terminal - such cases are flagged, see `runner::take_wide_gap`).
pub fn wrap_rows(line: &str, cols: usize) -> Vec<String> {
    let stripped = console::strip_ansi_codes(line);
    let mut rows: Vec<String> = vec![];
    let mut cur = String::new();
    let mut used = 0usize;
    for ch in stripped.chars() {
        let w = ch.width().unwrap_or(0);
        if w > cols && cols > 0 {
            crate::runner::note_wide_gap();
        }
        if w > 0 && used + w > cols && used > 0 {
            if used < cols {
                crate::runner::note_wide_gap();
            }
            rows.push(std::mem::take(&mut cur));
            used = 0;
        }
        cur.push(ch);
        used += w;
        if used >= cols {
            rows.push(std::mem::take(&mut cur));
            used = 0;
        }
    }
    if !cur.is_empty() || rows.is_empty() {
        rows.push(cur);
    }
    rows.into_iter().map(|r| r.trim_end_matches(' ').to_string()).collect()
}

pub fn self_test() -> Result<(), String> {
    // deferred wrap
    let mut g = Grid::new(3, 4);
    g.feed("abcd");
    if !(g.pending && g.r == 0 && g.c == 3) {
        return Err("deferred wrap state wrong".into());
    }
    if g.probe() != (1, 0) {
        return Err("probe wrong".into());
    }
    g.feed("e");
    if g.all_rows() != vec!["abcd", "e"] {
        return Err(format!("wrap wrong: {:?}", g.all_rows()));
    }
    g.feed("\nx\ny\nz");
    if g.all_rows() != vec!["abcd", "e", "x", "y", "z"] || g.top != 2 {
        return Err(format!("scroll wrong: {:?} top {}", g.all_rows(), g.top));
    }
    g.feed("\x1b[5A");
    if g.r != 2 {
        return Err("CUU must stop at the top of the screen".into());
    }
    g.feed("\r\x1b[2K");
    if g.all_rows() != vec!["abcd", "e", "", "y", "z"] {
        return Err(format!("EL wrong: {:?}", g.all_rows()));
    }
    let mut g = Grid::new(1, 1);
    g.feed("ab");
    if g.all_rows() != vec!["a", "b"] {
        return Err(format!("1x1 wrong: {:?}", g.all_rows()));
    }
    let mut g = Grid::new(2, 4);
    g.feed("a\x1b[31mb\x1b[0m世c");
    if g.all_rows() != vec!["ab世", "c"] {
        return Err(format!("wide/SGR wrong: {:?}", g.all_rows()));
    }
    if wrap_rows("abcdefgh", 4) != vec!["abcd", "efgh"] || wrap_rows("", 4) != vec![""] {
        return Err("wrap_rows wrong".into());
    }
    Ok(())
}

/// Cross-check of the grid emulator against the `vt100` crate (the emulator behind indicatif's
/// own `InMemoryTerm`) on pseudo-random streams of the byte sequences a draw emits, for terminals
/// with at least 2 rows (vt100 0.15 panics when a line wraps on a 1-row screen). Compares the
/// visible screens; a disagreement is a harness problem, never a violation.
pub fn cross_check(seed: u64, streams: usize) -> Result<usize, String> {
    let mut x = seed.wrapping_mul(0x9E3779B97F4A7C15) | 1;
    let mut next = |m: usize| -> usize {
        x ^= x << 13;
        x ^= x >> 7;
        x ^= x << 17;
        (x >> 11) as usize % m.max(1)
    };
    let mut compared = 0;
    for _ in 0..streams {
        let rows = 2 + next(10);
        let cols = 2 + next(30);
        let mut g = Grid::new(rows, cols);
        let mut p = vt100::Parser::new(rows as u16, cols as u16, 0);
        let mut fed = String::new();
        for _ in 0..(5 + next(60)) {
            let chunk = match next(12) {
                0 | 1 | 2 | 3 => (0..1 + next(cols + 3)).map(|_| (b'a' + next(26) as u8) as char).collect::<String>(),
                4 => "\r\n".to_string(),
                5 => "\r\n".to_string(),
                // cursor moves as a draw issues them: at column 0 / followed by a carriage return (terminals
                // differ in whether a vertical move keeps a pending wrap; indicatif never depends on it)
                6 => format!("\x1b[{}A\r", 1 + next(rows + 1)),
                7 => format!("\r\x1b[{}B", 1 + next(rows)),
                8 => "\r\x1b[2K".to_string(),
                9 => " ".repeat(next(cols + 1)),
                10 => "\x1b[31mz\x1b[0m".to_string(),
                _ if cols >= 4 => "\u{e9}\u{4e16}".to_string(),
                _ => "\u{e9}".to_string(),
            };
            // the emulator treats a bare \n as CR LF (ONLCR); vt100 gets it spelled out
            g.feed(&chunk);
            p.process(chunk.as_bytes());
            fed.push_str(&chunk);
            let ours: Vec<String> = (0..rows).map(|r| g.row_text(g.top + r)).collect();
            let theirs: Vec<String> = p.screen().rows(0, cols as u16).map(|r| r.trim_end().to_string()).collect();
            if ours != theirs {
                return Err(format!("emulators disagree on a {rows}x{cols} screen after {fed:?}: ours {ours:?}, vt100 {theirs:?}"));
            }
            compared += 1;
        }
    }
    Ok(compared)
}
