//! MultiProgress history machinery shared by C02, C03, C04, C19: operation alphabet, generator,
//! abstract list model, tolerant screen matcher and the lock-step interpreter.
use std::time::Duration;

use indicatif::{MultiProgress, MultiProgressAlignment, ProgressBar, ProgressDrawTarget, ProgressFinish};
use proptest::prelude::*;
use serde::{Deserialize, Serialize};

use crate::clock;
use crate::hist::*;
use crate::runner::*;
use crate::vterm::{Frame, VTerm};

#[derive(Debug, Clone, Serialize, Deserialize, PartialEq)]
pub struct BarSpec {
    /// second template line "  {msg}" present
    pub two_lines: bool,
    pub len: Option<u64>,
    /// 0 AndLeave, 1 WithMessage, 2 AndClear (default), 3 Abandon, 4 AbandonWithMessage
    pub on_finish: u8,
    /// initial message
    pub msg: String,
    /// the first template line ends in a custom key that writes a line break and "nl<tag>": one more line,
    /// produced by the key and not by the template or the message
    #[serde(default)]
    pub key_nl: bool,
    /// the template starts with a line of blanks, this many times the terminal width long (0: no such line)
    #[serde(default)]
    pub blank_first: u8,
}

#[derive(Debug, Clone, Serialize, Deserialize, PartialEq)]
pub enum MOp {
    Add(BarSpec),
    Insert(u8, BarSpec),
    InsertFromBack(u8, BarSpec),
    InsertBefore(u16, BarSpec),
    InsertAfter(u16, BarSpec),
    Remove(u16),
    Tick(u16),
    Inc(u16, u64),
    SetMessage(u16, String),
    Finish(u16),
    FinishWithMessage(u16, String),
    FinishAndClear(u16),
    Abandon(u16),
    Drop(u16),
    MpPrintln(String),
    BarPrintln(u16, String),
    MpClear,
    MpSuspend(Vec<String>),
    BarSuspend(u16, Vec<String>),
    SetAlignment(bool),
    SetTabWidth(u16, u8),
    /// pb.set_draw_target(hidden()): the bar leaves the MultiProgress through `disconnect`
    Detach(u16),
    /// advance the virtual clock by this many ms (used by the rate-limited configurations)
    Wait(u32),
    /// the terminal now reports this many rows (1..=the rows it was created with; C19 only)
    Resize(u8),
    /// a bar the program still holds is given to the same MultiProgress again (handle, way 0 add /
    /// 1 insert_before / 2 insert_after, anchor): for a member this has no effect (as documented), a
    /// removed bar becomes a member again
    Readd(u16, u8, u16),
    /// ProgressBar::println from a destructor that runs while the calling thread unwinds from a panic
    /// (a guard that logs the failure of its task); the panic is caught and the program carries on
    BarPrintlnUnwinding(u16, String),
    /// mp.clear() followed by mp.set_draw_target(a new target on the same terminal, same refresh rate): the
    /// region is erased, what was printed stays, the next draws paint the members again
    Retarget,
    /// mp.clear() followed by mp.set_draw_target(hidden()): from here on nothing can be painted; the bars keep
    /// working and their renderings are cached
    HideMp,
    /// mp.set_draw_target(a fresh target on the same terminal): the next draw paints the members as they are now
    ShowMp,
    /// the last handle of an unfinished member (finish behaviour AndClear) is dropped while its thread unwinds
    /// from a panic (a worker that fails while it owns its bar): nothing is painted then, but the bar is
    /// finished and cleared all the same - its rows go with the next draw
    DropUnwinding(u16),
}

#[derive(Debug, Clone, Serialize, Deserialize)]
pub struct MultiCase {
    pub rows: u8,
    /// (u16: C19 also uses terminals wider than 255 columns)
    pub cols: u16,
    /// refresh rate of the MultiProgress target (None = unlimited)
    pub hz: Option<u8>,
    /// ms the virtual clock advances before every op (0 = frozen clock: limiters stay exhausted)
    pub step_ms: u32,
    pub ops: Vec<MOp>,
    /// drop all remaining handles (in this order of selection) and the MultiProgress at the end
    pub final_drops: Vec<u16>,
}

pub fn finish_of(k: u8) -> ProgressFinish {
    match k % 5 {
        0 => ProgressFinish::AndLeave,
        1 => ProgressFinish::WithMessage("fin".into()),
        2 => ProgressFinish::AndClear,
        3 => ProgressFinish::Abandon,
        _ => ProgressFinish::AbandonWithMessage("abn".into()),
    }
}

fn tpl_for(tag: usize, two: bool, key_nl: bool, blanks: usize) -> STpl {
    let mut lines = vec![vec![SPart::Lit(format!("B{tag}:")), SPart::Pos, SPart::Lit(" ".into()), SPart::Msg]];
    if blanks > 0 {
        lines.insert(0, vec![SPart::Lit(" ".repeat(blanks))]);
    }
    if key_nl {
        let at = lines.len() - 1;
        // (every third such bar gets a blank row between the two: the key writes two line breaks)
        lines[at].push(SPart::KeyNl(if tag % 3 == 1 { format!("\nnl{tag}") } else { format!("nl{tag}") }));
    }
    if two {
        lines.push(vec![SPart::Lit(format!(" b{tag} ")), SPart::Prefix, SPart::Lit(".".into())]);
    }
    STpl { lines }
}

// ------------------------------------------------------------------------------------------
// model

#[derive(Debug, Clone)]
pub struct Entry {
    pub tag: usize,
    pub st: BarState,
    pub on_finish: u8,
    /// rendering cached at this bar's last draw attempt
    pub drawn: Option<Vec<String>>,
    /// last handle dropped, still listed
    pub zombie: bool,
    /// println/clear/suspend/remove happened since this bar finished: its block may be gone
    pub intervened: bool,
    /// its lines were within the painted part of the frame at the last paint
    pub on_screen: bool,
}

#[derive(Debug, Clone)]
pub struct Block {
    pub lines: Vec<String>,
    /// number of log lines that existed when the block became static
    pub after_log: usize,
    pub mandatory: bool,
}

#[derive(Debug, Clone, Default)]
pub struct Model {
    pub entries: Vec<Entry>,
    /// bars removed from the MultiProgress whose handle is still alive (hidden)
    pub detached: Vec<Entry>,
    pub log: Vec<String>,
    pub blocks: Vec<Block>,
    pub bottom: bool,
    /// bottom alignment was switched on at some point: shift gaps may remain anywhere below older output
    pub bottom_ever: bool,
    /// since then something printed text, cleared, suspended or dropped a handle: the recorded finding
    /// F-C02a applies and screens are only compared modulo blank rows
    pub bottom_loose: bool,
    /// a draw under bottom alignment shrank the frame to nothing (label; the case of the repaired F-C02d)
    pub bottom_emptied: bool,
    pub max_frame_h: usize,
    pub next_tag: usize,
    /// C19: (rows, cols) when frames are cut to the terminal height - a dropped bar that was not
    /// painted (it did not fit) leaves no static block
    pub fit: Option<(usize, usize)>,
}

impl Model {
    pub fn frame(&self) -> Vec<String> {
        self.entries.iter().filter_map(|e| e.drawn.clone()).flatten().collect()
    }

    /// Leading dropped bars leave the managed list at a paint: a visible one stays as a static block.
    /// A paint happened: which members' lines are within the part of the frame that fits?
    fn mark_on_screen(&mut self) {
        let mut used = 0usize;
        let mut cut = false;
        for e in &mut self.entries {
            let Some(lines) = &e.drawn else { continue };
            match self.fit {
                None => e.on_screen = true,
                Some((rows, cols)) => {
                    // the frame is cut at the first line that does not fit
                    let mut all = true;
                    for l in lines {
                        let h = height_of(std::slice::from_ref(l), cols);
                        if cut || used + h > rows {
                            cut = true;
                            all = false;
                        } else {
                            used += h;
                        }
                    }
                    e.on_screen = all;
                }
            }
        }
    }

    fn reap(&mut self, text_paint: bool) {
        while self.entries.first().map_or(false, |e| e.zombie) {
            let e = self.entries.remove(0);
            if let Some(lines) = e.drawn.filter(|l| !l.is_empty() && e.on_screen) {
                self.blocks.push(Block { lines, after_log: self.log.len(), mandatory: !text_paint && !e.intervened });
            }
        }
    }

    /// println / clear / suspend / remove: retained renderings are no longer guaranteed
    fn blocks_optional(&mut self) {
        for b in &mut self.blocks {
            b.mandatory = false;
        }
        for e in &mut self.entries {
            if e.st.finished() {
                e.intervened = true;
            }
        }
    }

    /// Does the screen `got` equal: the printed lines in order, interleaved with the retained
    /// blocks (a mandatory block exactly where it became static; an optional one there or below
    /// later log lines, or absent), followed by the live frame?
    pub fn match_screen(&self, got: &[String], frame: &[String], cols: usize) -> Result<(), String> {
        // once bottom alignment was used, blank shift rows may sit anywhere between older and newer
        // output: compare modulo blank rows then
        let squeeze = |v: Vec<String>| -> Vec<String> {
            if self.bottom_ever && self.bottom_loose {
                v.into_iter().filter(|r| !r.is_empty()).collect()
            } else {
                v
            }
        };
        let got = squeeze(trim_trailing_blank(got.to_vec()));
        let frame_rows = squeeze(trim_trailing_blank(rows_of(frame, cols)));
        let log_rows: Vec<Vec<String>> = self.log.iter().map(|l| squeeze(rows_of(std::slice::from_ref(l), cols))).collect();
        let block_rows: Vec<Vec<String>> = self.blocks.iter().map(|b| squeeze(rows_of(&b.lines, cols))).collect();
        fn starts(got: &[String], gi: usize, part: &[String]) -> bool {
            got.len() >= gi + part.len() && got[gi..gi + part.len()] == *part
        }
        struct M<'a> {
            got: &'a [String],
            frame: &'a [String],
            log: &'a [Vec<String>],
            blocks: &'a [Block],
            brows: &'a [Vec<String>],
            trailing_blank_ok: bool,
            /// bottom alignment (strict form): up to this many blank shift rows directly above the frame
            max_blank: usize,
        }
        impl M<'_> {
            fn go(&self, gi: usize, li: usize, bi: usize) -> bool {
                let n = self.log.len();
                if bi < self.blocks.len() {
                    let b = &self.blocks[bi];
                    if b.after_log <= li {
                        // place it here
                        if starts(self.got, gi, &self.brows[bi]) && self.go(gi + self.brows[bi].len(), li, bi + 1) {
                            return true;
                        }
                        if !b.mandatory {
                            // absent, or (no guarantee is left for it) only its leading rows remain
                            if self.go(gi, li, bi + 1) {
                                return true;
                            }
                            for k in 1..self.brows[bi].len() {
                                if starts(self.got, gi, &self.brows[bi][..k]) && self.go(gi + k, li, bi + 1) {
                                    return true;
                                }
                            }
                        } else if b.after_log == li {
                            return false; // a mandatory block must sit exactly here
                        }
                    }
                }
                if li < n {
                    // a mandatory block due at this position must not be skipped over
                    if bi < self.blocks.len() && self.blocks[bi].mandatory && self.blocks[bi].after_log == li {
                        return false;
                    }
                    if starts(self.got, gi, &self.log[li]) && self.go(gi + self.log[li].len(), li + 1, bi) {
                        return true;
                    }
                    return false;
                }
                if bi < self.blocks.len() {
                    return false;
                }
                // the rest must be the frame (a frame ending in blank rows compares trimmed)
                let mut rest = &self.got[gi.min(self.got.len())..];
                for _ in 0..=self.max_blank {
                    if rest == self.frame || (self.trailing_blank_ok && trim_trailing_blank(rest.to_vec()) == self.frame) {
                        return true;
                    }
                    match rest.split_first() {
                        Some((first, tail)) if first.is_empty() && !self.frame.is_empty() => rest = tail,
                        _ => break,
                    }
                }
                false
            }
        }
        // rows of `got` were trimmed at the end; a log line / block that is blank at the very end of
        // the screen is then missing from `got`: pad virtually by allowing blank parts to match past the end
        let mut padded = got.clone();
        let total_parts: usize = log_rows.iter().map(|r| r.len()).sum::<usize>() + block_rows.iter().map(|r| r.len()).sum::<usize>() + frame_rows.len();
        while padded.len() < total_parts {
            padded.push(String::new());
        }
        let max_blank = if self.bottom_ever && !self.bottom_loose { self.max_frame_h.saturating_sub(frame_rows.len()) } else { 0 };
        let m = M { got: &padded, frame: &frame_rows, log: &log_rows, blocks: &self.blocks, brows: &block_rows, trailing_blank_ok: true, max_blank };
        if m.go(0, 0, 0) {
            return Ok(());
        }
        Err(format!(
            "terminal shows {got:?}; expected printed lines {:?}, retained blocks {:?} (lines, mandatory), live frame {frame:?}",
            self.log,
            self.blocks.iter().map(|b| (&b.lines, b.mandatory)).collect::<Vec<_>>(),
        ))
    }
}

// ------------------------------------------------------------------------------------------
// interpreter

/// Custom template key that prints nothing and counts the tick notifications of its bar: the model
/// observes (rather than predicts) whether `inc` was let through by the bar's own position throttle.
#[derive(Clone)]
pub struct TickSpy(pub std::sync::Arc<std::sync::atomic::AtomicU64>);

impl indicatif::style::ProgressTracker for TickSpy {
    fn clone_box(&self) -> Box<dyn indicatif::style::ProgressTracker> {
        Box::new(self.clone())
    }
    fn tick(&mut self, _: &indicatif::ProgressState, _: std::time::Instant) {
        self.0.fetch_add(1, std::sync::atomic::Ordering::Relaxed);
    }
    fn reset(&mut self, _: &indicatif::ProgressState, _: std::time::Instant) {}
    fn write(&self, _: &indicatif::ProgressState, _: &mut dyn std::fmt::Write) {}
}

pub struct Live {
    pub tag: usize,
    pub pb: ProgressBar,
    /// tick notifications seen by the bar's style
    pub ticks: std::sync::Arc<std::sync::atomic::AtomicU64>,
    /// true while a member of the MultiProgress
    pub member: bool,
}

pub struct Interp {
    pub vt: VTerm,
    pub mp: Option<MultiProgress>,
    pub handles: Vec<Live>,
    pub model: Model,
    pub cols: usize,
    pub rows: usize,
    /// a member with painted rows was removed and nothing was painted since
    /// C19: the live frame is cut to the leading bar lines that fit the terminal height
    pub cut_to_height: bool,
    pub stale_since_remove: bool,
    /// a visibly finished head bar was dropped (retained) while the screen was stale like that
    pub stale_reap_seen: bool,
    /// a suspend closure wrote an empty first line while no bar row was on screen (C01 finding F-C01b)
    pub empty_suspend_line_seen: bool,
    /// a draw under bottom alignment painted an empty frame over a non-empty region (the case of the repaired F-C02d)
    pub bottom_empty_frame_seen: bool,
    /// the target has a refresh rate: draw attempts may be refused
    pub limited: bool,
    /// a line printed through a member while its thread was unwinding has not been painted yet (nothing
    /// is painted during a panic): the next draw of the MultiProgress paints it, forced
    pub pending_text: bool,
    /// number of log lines that existed before the pending ones
    pub pending_from: usize,
    /// refresh rate the target was created with
    pub hz: Option<u8>,
    /// the MultiProgress currently has a hidden target
    pub hidden: bool,
}

/// What happened in one op, for the property-specific checks.
pub struct Outcome {
    pub frames: Vec<Frame>,
    /// (frame, number of log lines) expected at flush k; later flushes show the current model
    pub phase_frames: Vec<(Vec<String>, usize)>,
    pub skipped: bool,
    pub note: &'static str,
    /// result of an io::Result-returning call (mp.println, mp.clear)
    pub io_result: Option<Result<(), String>>,
    /// static blocks created by this op (their bars were still part of the frame when it was painted)
    pub reaped_now: usize,
    /// the live frame as it was painted: before bars dropped earlier left the list in this op
    pub pre_reap_frame: Option<Vec<String>>,
    pub blocks_before: usize,
}

impl Drop for Interp {
    fn drop(&mut self) {
        // a panicking destructor of the code under test must not take the process down
        let _ = self.teardown();
    }
}

impl Interp {
    /// Drop every remaining handle and the MultiProgress, each under catch_unwind.
    pub fn teardown(&mut self) -> Result<(), Fail> {
        let mut first = None;
        for h in self.handles.drain(..) {
            let tag = h.tag;
            if let Err(p) = catch(move || drop(h)) {
                first.get_or_insert(format!("dropping bar B{tag} panicked: {p}"));
            }
        }
        if let Some(mp) = self.mp.take() {
            if let Err(p) = catch(move || drop(mp)) {
                first.get_or_insert(format!("dropping the MultiProgress panicked: {p}"));
            }
        }
        match first {
            Some(m) => Err(Fail::new("panic", m)),
            None => Ok(()),
        }
    }

    pub fn new(c: &MultiCase) -> Self {
        let (rows, cols) = (c.rows.max(1) as usize, c.cols.max(1) as usize);
        let vt = VTerm::new(rows, cols).with_snapshots();
        let target = match c.hz {
            Some(hz) => ProgressDrawTarget::term_like_with_hz(vt.boxed(), hz.max(1)),
            None => ProgressDrawTarget::term_like(vt.boxed()),
        };
        let mp = MultiProgress::with_draw_target(target);
        Interp { vt, mp: Some(mp), handles: vec![], model: Model::default(), cols, rows, cut_to_height: false, stale_since_remove: false, stale_reap_seen: false, empty_suspend_line_seen: false, bottom_empty_frame_seen: false, limited: c.hz.is_some(), pending_text: false, pending_from: 0, hz: c.hz, hidden: false }
    }

    fn entry_mut(&mut self, tag: usize) -> Option<&mut Entry> {
        self.model.entries.iter_mut().chain(self.model.detached.iter_mut()).find(|e| e.tag == tag)
    }

    fn new_bar(&mut self, spec: &BarSpec) -> (ProgressBar, Entry, std::sync::Arc<std::sync::atomic::AtomicU64>) {
        let tag = self.model.next_tag;
        self.model.next_tag += 1;
        let tpl = tpl_for(tag, spec.two_lines, spec.key_nl, spec.blank_first as usize * self.cols);
        let ticks = std::sync::Arc::new(std::sync::atomic::AtomicU64::new(0));
        let pb = ProgressBar::with_draw_target(spec.len, ProgressDrawTarget::hidden())
            .with_style(tpl.style().with_key("verif_tick_spy", TickSpy(ticks.clone())))
            .with_finish(finish_of(spec.on_finish))
            .with_message(spec.msg.clone())
            .with_prefix(format!("p{tag}"));
        let mut st = BarState::new(spec.len, tpl);
        st.msg = spec.msg.clone();
        st.prefix = format!("p{tag}");
        (pb, Entry { tag, st, on_finish: spec.on_finish % 5, drawn: None, zombie: false, intervened: false, on_screen: false }, ticks)
    }

    /// a draw attempt of bar `tag`: its cached rendering is refreshed
    fn redraw(&mut self, tag: usize) {
        let hidden = self.hidden;
        if let Some(e) = self.model.entries.iter_mut().find(|e| e.tag == tag) {
            // (a draw attempt on a hidden MultiProgress has no width to format for: the cached rendering is emptied)
            e.drawn = Some(if hidden { vec![] } else { e.st.frame() });
        }
    }

    /// Execute one op on the real objects and on the model.
    pub fn step(&mut self, op: &MOp) -> Result<Outcome, Fail> {
        let mp = self.mp.clone().expect("mp alive");
        let n = self.handles.len();
        let mut out = Outcome { frames: vec![], phase_frames: vec![], skipped: false, note: "", io_result: None, reaped_now: 0, pre_reap_frame: None, blocks_before: self.model.blocks.len() };
        let blocks_before = self.model.blocks.len();
        let sel = |s: u16| pick(s, n);
        macro_rules! need_handle {
            ($s:expr) => {{
                if n == 0 {
                    out.skipped = true;
                    return Ok(out);
                }
                sel($s)
            }};
        }
        if self.model.bottom_ever && matches!(op, MOp::Drop(_) | MOp::DropUnwinding(_) | MOp::MpClear | MOp::MpSuspend(_) | MOp::BarSuspend(..) | MOp::MpPrintln(_) | MOp::BarPrintln(..) | MOp::BarPrintlnUnwinding(..)) {
            self.model.bottom_loose = true;
        }
        if self.hidden && matches!(op, MOp::MpPrintln(_) | MOp::BarPrintln(..) | MOp::BarPrintlnUnwinding(..) | MOp::MpSuspend(_) | MOp::BarSuspend(..) | MOp::MpClear | MOp::Retarget | MOp::HideMp | MOp::SetAlignment(_) | MOp::Resize(_)) {
            // (text printed through a hidden target, and what a suspend closure writes meanwhile, is outside
            // the statements; the other calls have nothing to act on)
            out.skipped = true;
            return Ok(out);
        }
        if !self.hidden && matches!(op, MOp::ShowMp) {
            out.skipped = true;
            return Ok(out);
        }
        if self.pending_text && matches!(op, MOp::MpClear | MOp::MpSuspend(_) | MOp::BarSuspend(..) | MOp::HideMp) {
            // (clear paints no text and a suspend closure writes before the redraw: where the pending line
            // goes relative to them is not specified - not issued while a line is pending)
            out.skipped = true;
            return Ok(out);
        }
        let has_zombie = self.model.entries.iter().any(|e| e.zombie);
        let log_before = self.model.log.clone();
        let mut text_paint = false;
        let mut paint = true; // does the op reach MultiState::draw?
        let mut reap_now = true;
        match op {
            MOp::Wait(ms) => {
                clock::advance(Duration::from_millis(*ms as u64));
                paint = false;
            }
            MOp::Add(spec) | MOp::Insert(_, spec) | MOp::InsertFromBack(_, spec) | MOp::InsertBefore(_, spec) | MOp::InsertAfter(_, spec) => {
                if self.handles.len() >= 8 {
                    out.skipped = true;
                    return Ok(out);
                }
                let (pb, entry, ticks) = self.new_bar(spec);
                let members: Vec<usize> = self.handles.iter().enumerate().filter(|(_, h)| h.member).map(|(i, _)| i).collect();
                let len = self.model.entries.len();
                // positional inserts only while no dropped-but-listed bar exists (DESIGN.md 2.2)
                let (pb, at) = match op {
                    MOp::Insert(i, _) if !has_zombie => (mp.insert(*i as usize, pb), (*i as usize).min(len)),
                    MOp::InsertFromBack(i, _) if !has_zombie => (mp.insert_from_back(*i as usize, pb), len.saturating_sub(*i as usize)),
                    MOp::InsertBefore(s, _) | MOp::InsertAfter(s, _) if !members.is_empty() => {
                        let h = &self.handles[members[pick(*s, members.len())]];
                        let pos = self.model.entries.iter().position(|e| e.tag == h.tag).expect("member in model");
                        if matches!(op, MOp::InsertBefore(..)) {
                            (mp.insert_before(&h.pb, pb), pos)
                        } else {
                            (mp.insert_after(&h.pb, pb), pos + 1)
                        }
                    }
                    _ => (mp.add(pb), len),
                };
                out.note = match op {
                    MOp::Add(_) => "add",
                    MOp::Insert(..) => "insert",
                    MOp::InsertFromBack(..) => "insert_from_back",
                    MOp::InsertBefore(..) => "insert_before",
                    _ => "insert_after",
                };
                self.handles.push(Live { tag: entry.tag, pb, member: true, ticks });
                self.model.entries.insert(at, entry);
                paint = false;
            }
            MOp::Remove(s) => {
                let i = need_handle!(*s);
                let h = &mut self.handles[i];
                mp.remove(&h.pb);
                if h.member {
                    h.member = false;
                    let tag = h.tag;
                    if let Some(p) = self.model.entries.iter().position(|e| e.tag == tag) {
                        let e = self.model.entries.remove(p);
                        if e.drawn.as_ref().map_or(false, |l| !l.is_empty()) {
                            self.stale_since_remove = true;
                        }
                        self.model.detached.push(e);
                    }
                    self.model.blocks_optional();
                }
                paint = false;
            }
            MOp::Tick(s) => {
                let i = need_handle!(*s);
                self.handles[i].pb.tick();
                let tag = self.handles[i].tag;
                paint = self.handles[i].member;
                self.redraw(tag);
            }
            MOp::Inc(s, d) => {
                let i = need_handle!(*s);
                let before = self.handles[i].ticks.load(std::sync::atomic::Ordering::Relaxed);
                self.handles[i].pb.inc(*d);
                let ticked = self.handles[i].ticks.load(std::sync::atomic::Ordering::Relaxed) != before;
                let tag = self.handles[i].tag;
                if let Some(e) = self.entry_mut(tag) {
                    e.st.pos = e.st.pos.wrapping_add(*d);
                }
                // more than ten position changes within a millisecond: the bar's own throttle (C05) lets
                // the change through without a redraw attempt; the rendering shown stays the older one
                if ticked {
                    paint = self.handles[i].member;
                    self.redraw(tag);
                } else {
                    paint = false;
                    out.note = "inc_throttled";
                }
            }
            MOp::SetMessage(s, m) => {
                let i = need_handle!(*s);
                self.handles[i].pb.set_message(m.clone());
                let tag = self.handles[i].tag;
                if let Some(e) = self.entry_mut(tag) {
                    e.st.msg = m.clone();
                }
                paint = self.handles[i].member;
                self.redraw(tag);
            }
            MOp::Finish(s) | MOp::FinishWithMessage(s, _) | MOp::FinishAndClear(s) | MOp::Abandon(s) => {
                let i = need_handle!(*s);
                let pb = &self.handles[i].pb;
                match op {
                    MOp::Finish(_) => pb.finish(),
                    MOp::FinishWithMessage(_, m) => pb.finish_with_message(m.clone()),
                    MOp::FinishAndClear(_) => pb.finish_and_clear(),
                    _ => pb.abandon(),
                }
                let tag = self.handles[i].tag;
                if let Some(e) = self.entry_mut(tag) {
                    if !matches!(op, MOp::Abandon(_)) {
                        if let Some(l) = e.st.len {
                            e.st.pos = l;
                        }
                    }
                    if let MOp::FinishWithMessage(_, m) = op {
                        e.st.msg = m.clone();
                    }
                    e.st.status = if matches!(op, MOp::FinishAndClear(_)) { Status::DoneHidden } else { Status::DoneVisible };
                }
                paint = self.handles[i].member;
                self.redraw(tag);
            }
            MOp::Drop(s) => {
                let i = need_handle!(*s);
                let h = self.handles.remove(i);
                let tag = h.tag;
                let member = h.member;
                let was_finished = self.entry_mut(tag).map_or(true, |e| e.st.finished());
                drop(h);
                if let Some(e) = self.entry_mut(tag) {
                    if !e.st.finished() {
                        // the last handle of an unfinished bar: finish per its ProgressFinish
                        match e.on_finish {
                            0 | 1 | 2 => {
                                if let Some(l) = e.st.len {
                                    e.st.pos = l;
                                }
                                if e.on_finish == 1 {
                                    e.st.msg = "fin".into();
                                }
                                e.st.status = if e.on_finish == 2 { Status::DoneHidden } else { Status::DoneVisible };
                            }
                            3 => e.st.status = Status::DoneVisible,
                            _ => {
                                e.st.msg = "abn".into();
                                e.st.status = Status::DoneVisible;
                            }
                        }
                    }
                }
                if member {
                    if !was_finished && !self.hidden {
                        // 1. the final draw is painted while the bar is still a live member
                        self.redraw(tag);
                        out.pre_reap_frame = Some(self.model.frame());
                        self.model.mark_on_screen();
                        self.model.reap(false);
                    } else {
                        if !was_finished {
                            // (hidden: the final rendering is cached, nothing is painted)
                            self.redraw(tag);
                        }
                        paint = false; // dropping a finished bar draws nothing
                    }
                    reap_now = false;
                    // 2. then it is marked as dropped; at the head it leaves the list right away
                    //    (only that one; dropped bars behind it follow at the next paint)
                    if let Some(e) = self.model.entries.iter_mut().find(|e| e.tag == tag) {
                        e.zombie = true;
                    }
                    if self.model.entries.first().map_or(false, |e| e.tag == tag) {
                        let e = self.model.entries.remove(0);
                        if self.stale_since_remove && !paint && e.drawn.as_ref().map_or(false, |l| !l.is_empty()) {
                            self.stale_reap_seen = true;
                        }
                        if let Some(lines) = e.drawn.filter(|l| !l.is_empty() && e.on_screen) {
                            self.model.blocks.push(Block { lines, after_log: self.model.log.len(), mandatory: !e.intervened });
                            out.note = "head_zombie_reaped";
                        }
                    } else {
                        out.note = "non_head_zombie";
                    }
                } else {
                    self.model.detached.retain(|e| e.tag != tag);
                    paint = false;
                }
            }
            MOp::MpPrintln(t) => {
                out.io_result = Some(mp.println(t).map_err(|e| e.to_string()));
                self.model.log.extend(println_lines(t));
                text_paint = true;
            }
            MOp::BarPrintln(s, t) => {
                let i = need_handle!(*s);
                self.handles[i].pb.println(t);
                if self.handles[i].member {
                    let tag = self.handles[i].tag;
                    self.redraw(tag);
                    self.model.log.extend(println_lines(t));
                    text_paint = true;
                    out.note = "bar_println";
                } else {
                    paint = false;
                }
            }
            MOp::MpClear => {
                out.io_result = Some(mp.clear().map_err(|e| e.to_string()));
                self.model.blocks_optional();
                reap_now = false; // clear() erases the region; it is not a draw of the bar list
                for e in &mut self.model.entries {
                    e.on_screen = false;
                }
                out.phase_frames.push((vec![], self.model.log.len()));
            }
            MOp::DropUnwinding(s) => {
                let i = need_handle!(*s);
                let tag = self.handles[i].tag;
                let ok = self.handles[i].member && !self.hidden && self.model.entries.iter().any(|e| e.tag == tag && e.on_finish == 2 && !e.st.finished());
                if !ok {
                    out.skipped = true;
                    return Ok(out);
                }
                let h = self.handles.remove(i);
                let r = catch(move || {
                    let _owned = h;
                    panic!("scripted task failure");
                });
                debug_assert!(r.is_err());
                if let Some(e) = self.model.entries.iter_mut().find(|e| e.tag == tag) {
                    // (its rows stay on the terminal until the next repaint, like those of a removed bar: the
                    // recorded finding F-C02b applies to what is retained before that repaint)
                    if e.on_screen && e.drawn.as_ref().map_or(false, |l| !l.is_empty()) {
                        self.stale_since_remove = true;
                    }
                    if let Some(l) = e.st.len {
                        e.st.pos = l;
                    }
                    e.st.status = Status::DoneHidden;
                    e.drawn = Some(vec![]);
                    e.zombie = true;
                }
                if self.model.entries.first().map_or(false, |e| e.tag == tag) {
                    self.model.entries.remove(0);
                }
                paint = false;
                reap_now = false;
                out.note = "dropped_while_unwinding";
            }
            MOp::HideMp => {
                if self.model.bottom_ever {
                    out.skipped = true;
                    return Ok(out);
                }
                out.io_result = Some(mp.clear().map_err(|e| e.to_string()));
                mp.set_draw_target(ProgressDrawTarget::hidden());
                self.hidden = true;
                self.model.blocks_optional();
                reap_now = false;
                for e in &mut self.model.entries {
                    e.on_screen = false;
                }
                out.phase_frames.push((vec![], self.model.log.len()));
                out.note = "multi_progress_hidden";
            }
            MOp::ShowMp => {
                let target = match self.hz {
                    Some(hz) => ProgressDrawTarget::term_like_with_hz(self.vt.boxed(), hz.max(1)),
                    None => ProgressDrawTarget::term_like(self.vt.boxed()),
                };
                mp.set_draw_target(target);
                self.hidden = false;
                paint = false;
                out.note = "multi_progress_shown_again";
            }
            MOp::Retarget => {
                if self.model.bottom_ever {
                    // (where a new target starts relative to the shift rows of the old one is not specified)
                    out.skipped = true;
                    return Ok(out);
                }
                out.io_result = Some(mp.clear().map_err(|e| e.to_string()));
                let target = match self.hz {
                    Some(hz) => ProgressDrawTarget::term_like_with_hz(self.vt.boxed(), hz.max(1)),
                    None => ProgressDrawTarget::term_like(self.vt.boxed()),
                };
                mp.set_draw_target(target);
                self.model.blocks_optional();
                reap_now = false;
                for e in &mut self.model.entries {
                    e.on_screen = false;
                }
                out.phase_frames.push((vec![], if self.pending_text { self.pending_from } else { self.model.log.len() }));
                out.note = "retarget";
            }
            MOp::MpSuspend(lines) | MOp::BarSuspend(_, lines) => {
                // (rate-limited target: which bar rows are really on screen is not tracked - any such suspend counts)
                if lines.first().map_or(false, |l| console::measure_text_width(l) == 0) && (self.limited || self.model.frame().iter().all(|l| l.is_empty())) && !self.model.log.is_empty() {
                    self.empty_suspend_line_seen = true;
                }
                let vt = self.vt.clone();
                let f = || {
                    for l in lines {
                        vt.user_print_line(l);
                    }
                };
                match op {
                    MOp::BarSuspend(s, _) => {
                        let i = need_handle!(*s);
                        if !self.handles[i].member {
                            // a removed bar is hidden: its suspend would write ordinary output while the
                            // MultiProgress frame is on screen, which no statement covers - not generated
                            out.skipped = true;
                            return Ok(out);
                        } else {
                            self.handles[i].pb.suspend(f);
                        }
                    }
                    _ => mp.suspend(f),
                }
                if paint {
                    self.model.blocks_optional();
                    out.phase_frames.push((vec![], log_before.len()));
                    self.model.log.extend(lines.iter().cloned());
                }
            }
            MOp::SetTabWidth(s, w) => {
                let i = need_handle!(*s);
                self.handles[i].pb.set_tab_width(*w as usize);
                let tag = self.handles[i].tag;
                if let Some(e) = self.entry_mut(tag) {
                    e.st.tab_width = *w as usize;
                }
                paint = self.handles[i].member;
                self.redraw(tag);
            }
            MOp::Detach(s) => {
                let i = need_handle!(*s);
                self.handles[i].pb.set_draw_target(ProgressDrawTarget::hidden());
                if self.handles[i].member {
                    // the slot stays listed (empty) - the bar itself is hidden from now on
                    self.handles[i].member = false;
                    let tag = self.handles[i].tag;
                    if let Some(p) = self.model.entries.iter().position(|e| e.tag == tag) {
                        let mut ghost = self.model.entries[p].clone();
                        self.model.entries[p].drawn = Some(vec![]);
                        self.model.entries[p].tag = usize::MAX - tag;
                        ghost.drawn = None;
                        self.model.detached.push(ghost);
                    }
                    out.note = "detach";
                } else {
                    paint = false;
                }
            }
            MOp::BarPrintlnUnwinding(s, t) => {
                let i = need_handle!(*s);
                struct LogOnDrop(ProgressBar, String);
                impl Drop for LogOnDrop {
                    fn drop(&mut self) {
                        self.0.println(&self.1);
                    }
                }
                let guard = LogOnDrop(self.handles[i].pb.clone(), t.clone());
                let r = catch(move || {
                    let _guard = guard;
                    panic!("scripted task failure");
                });
                debug_assert!(r.is_err());
                if self.handles[i].member {
                    let tag = self.handles[i].tag;
                    self.redraw(tag);
                    if !self.pending_text {
                        self.pending_from = self.model.log.len();
                    }
                    self.model.log.extend(println_lines(t));
                    self.pending_text = true;
                    out.note = "bar_println_while_unwinding";
                }
                paint = false;
            }
            MOp::Readd(s, how, anchor) => {
                let i = need_handle!(*s);
                let members: Vec<usize> = self.handles.iter().enumerate().filter(|(_, h)| h.member).map(|(i, _)| i).collect();
                let tag = self.handles[i].tag;
                let was_member = self.handles[i].member;
                let len = self.model.entries.len();
                let clone = self.handles[i].pb.clone();
                let (back, at) = match how % 3 {
                    1 | 2 if !members.is_empty() => {
                        let h = &self.handles[members[pick(*anchor, members.len())]];
                        let pos = self.model.entries.iter().position(|e| e.tag == h.tag).expect("member in model");
                        if how % 3 == 1 {
                            (mp.insert_before(&h.pb, clone), pos)
                        } else {
                            (mp.insert_after(&h.pb, clone), pos + 1)
                        }
                    }
                    _ => (mp.add(clone), len),
                };
                drop(back);
                if was_member {
                    // "Adding a progress bar that is already a member of the MultiProgress will have no effect."
                    out.note = "member_added_again";
                } else {
                    let p = self.model.detached.iter().position(|e| e.tag == tag).expect("handle in model");
                    let mut entry = self.model.detached.remove(p);
                    entry.drawn = None;
                    entry.on_screen = false;
                    self.model.entries.insert(at, entry);
                    self.handles[i].member = true;
                    out.note = "removed_bar_added_again";
                }
                paint = false;
            }
            MOp::Resize(r) => {
                let grid_rows = self.vt.lock().grid.rows;
                let r = (*r as usize).clamp(1, grid_rows);
                self.vt.lock().report_rows = Some(r as u16);
                self.rows = r;
                if let Some(f) = &mut self.model.fit {
                    f.0 = r;
                }
                paint = false;
                out.note = "resize";
            }
            MOp::SetAlignment(b) => {
                mp.set_alignment(if *b { MultiProgressAlignment::Bottom } else { MultiProgressAlignment::Top });
                self.model.bottom = *b;
                self.model.bottom_ever |= *b;
                paint = false;
            }
        }
        out.frames = self.vt.take_frames();
        // suspend hides the region, runs the closure and repaints: the repaint is not an ordinary request
        // (also on a rate-limited target whose burst is used up, the bars are back when suspend returns; not
        // judged while the terminal is made to fail)
        if matches!(op, MOp::MpSuspend(_) | MOp::BarSuspend(..)) && paint && !self.model.bottom_ever && self.model.frame().iter().any(|l| !l.is_empty()) && out.frames.len() < 2 && { let g = self.vt.lock(); g.fault.is_none() && g.snapshots } {
            return Err(Fail::new(
                "suspend_not_repainted",
                format!("{op:?} flushed {} frame(s): the region was not painted again after the closure (frame expected: {:?})", out.frames.len(), self.model.frame()),
            ));
        }
        if self.hidden && !matches!(op, MOp::HideMp) {
            // nothing is painted and no dropped bar leaves the list at a paint; renderings are still cached
            paint = false;
        }
        if self.pending_text && paint && !matches!(op, MOp::BarPrintlnUnwinding(..) | MOp::Retarget) {
            // the pending line makes this draw a forced text draw
            text_paint = true;
            self.pending_text = false;
            if self.model.bottom_ever {
                self.model.bottom_loose = true;
            }
        }
        // on a rate-limited target an ordinary draw attempt that the limiter refuses returns before
        // MultiState::draw reaps anything or paints
        if self.limited && out.frames.is_empty() && !text_paint {
            paint = false;
        }
        if paint {
            if text_paint {
                self.model.blocks_optional();
            }
            if reap_now {
                out.pre_reap_frame = Some(self.model.frame());
                self.model.mark_on_screen();
                self.model.reap(text_paint);
            }
        }
        out.reaped_now = self.model.blocks.len().saturating_sub(blocks_before);
        if self.model.bottom_ever && out.reaped_now > 0 {
            // a reap while bottom alignment is (or was) on: F-C02a (a) applies from here on
            self.model.bottom_loose = true;
        }
        if std::env::var_os("VERIF_TRACE").is_some() {
            eprintln!("TRACE {op:?}: calls {:?}", self.vt.take_calls());
            for f in &out.frames {
                eprintln!("TRACE   screen {:?} cursor {:?}", f.rows, f.probe);
            }
        }
        if !out.frames.is_empty() {
            self.stale_since_remove = false;
            let h = height_of(&self.model.frame(), self.cols);
            // the painted region still holds the bars that left the list in this very draw
            let painted = out.pre_reap_frame.as_ref().map_or(0, |f| height_of(f, self.cols));
            self.model.max_frame_h = self.model.max_frame_h.max(painted);
            if self.model.bottom && h == 0 && self.model.max_frame_h > 0 {
                self.bottom_empty_frame_seen = true;
                self.model.bottom_emptied = true;
            }
            self.model.max_frame_h = self.model.max_frame_h.max(h);
        }
        Ok(out)
    }

    /// Full screen oracle for the flushes of one op (unlimited targets: every draw attempt paints).
    pub fn check_frames(&self, out: &Outcome, ctx: &str) -> Result<(), Fail> {
        for (k, fr) in out.frames.iter().enumerate() {
            let (frame, log_len) = match out.phase_frames.get(k) {
                Some((f, l)) => (f.clone(), *l),
                None => (self.model.frame(), self.model.log.len()),
            };
            // what was painted is the frame before dropped bars left the list in this op
            let use_pre = out.phase_frames.get(k).is_none() && out.pre_reap_frame.is_some();
            let frame = if use_pre { out.pre_reap_frame.clone().unwrap() } else { frame };
            let frame = if self.cut_to_height { fit_prefix(&frame, self.rows, self.cols) } else { frame };
            let mut m = self.model.clone();
            if use_pre {
                m.blocks.truncate(out.blocks_before);
            }
            m.log.truncate(log_len);
            for b in &mut m.blocks {
                b.after_log = b.after_log.min(log_len);
            }
            m.match_screen(&fr.rows, &frame, self.cols).map_err(|e| {
                let kind = if m.bottom_ever && m.bottom_loose { "screen_bottom" } else { "screen" };
                Fail::new(kind, format!("{ctx}, draw {} of {}: {e}", k + 1, out.frames.len()))
            })?;
        }
        Ok(())
    }
}

/// The leading lines whose wrapped rows fit into `rows` (C19: "only the leading bars that fit").
pub fn fit_prefix(lines: &[String], rows: usize, cols: usize) -> Vec<String> {
    let mut h = 0;
    let mut out = vec![];
    for l in lines {
        let lh = height_of(std::slice::from_ref(l), cols);
        if h + lh > rows {
            break;
        }
        h += lh;
        out.push(l.clone());
    }
    out
}

// ------------------------------------------------------------------------------------------
// generators

pub fn spec_strategy(cols: usize) -> BoxedStrategy<BarSpec> {
    (proptest::bool::weighted(0.3), proptest::option::weighted(0.8, 1u64..50), prop_oneof![3 => Just(2u8), 2 => Just(0u8), 1 => 1u8..5], short_text(cols))
        .prop_map(|(two_lines, len, on_finish, msg)| BarSpec { two_lines, len, on_finish, msg, key_nl: false, blank_first: 0 })
        .boxed()
}

/// short single-line text, occasionally long enough to wrap once
pub fn short_text(cols: usize) -> BoxedStrategy<String> {
    let long = (cols.saturating_sub(6)..cols + 4).prop_map(|n| "m".repeat(n));
    let wide = (cols / 2..cols).prop_map(|n| "\u{9032}".repeat(n.saturating_sub(3).max(1)));
    prop_oneof![6 => Just(String::new()), 15 => "[a-z]{1,5}", 6 => long, 1 => wide].boxed()
}

pub fn mop_strategy(cols: usize, with_wait: bool) -> BoxedStrategy<MOp> {
    let sp = move || spec_strategy(cols);
    let s = || any::<u16>();
    let log = prop_oneof![4 => "[a-z ]{1,6}", 1 => Just(String::new()), 1 => (cols..2 * cols + 2).prop_map(|n| "l".repeat(n)), 1 => "[a-z]{1,3}\n[a-z]{1,3}", 1 => (cols / 2 + 1..cols + 2).prop_map(move |n| if cols % 2 == 0 { "\u{6357}".repeat(n) } else { "l".repeat(n) })];
    let log2 = log.clone();
    let base = prop_oneof![
        5 => sp().prop_map(MOp::Add),
        1 => (0u8..6, sp()).prop_map(|(i, b)| MOp::Insert(i, b)),
        1 => (0u8..6, sp()).prop_map(|(i, b)| MOp::InsertFromBack(i, b)),
        1 => (s(), sp()).prop_map(|(i, b)| MOp::InsertBefore(i, b)),
        1 => (s(), sp()).prop_map(|(i, b)| MOp::InsertAfter(i, b)),
        2 => s().prop_map(MOp::Remove),
        6 => s().prop_map(MOp::Tick),
        4 => (s(), 1u64..4).prop_map(|(i, d)| MOp::Inc(i, d)),
        4 => (s(), short_text(cols)).prop_map(|(i, m)| MOp::SetMessage(i, m)),
        2 => s().prop_map(MOp::Finish),
        1 => (s(), short_text(cols)).prop_map(|(i, m)| MOp::FinishWithMessage(i, m)),
        1 => s().prop_map(MOp::FinishAndClear),
        1 => s().prop_map(MOp::Abandon),
        5 => s().prop_map(MOp::Drop),
        4 => log.prop_map(MOp::MpPrintln),
        2 => (s(), log2).prop_map(|(i, t)| MOp::BarPrintln(i, t)),
        1 => Just(MOp::MpClear),
        1 => proptest::collection::vec("[a-z]{0,5}", 0..3).prop_map(MOp::MpSuspend),
        1 => (s(), proptest::collection::vec("[a-z]{0,5}", 0..3)).prop_map(|(i, l)| MOp::BarSuspend(i, l)),
        1 => any::<bool>().prop_map(MOp::SetAlignment),
        1 => (s(), 0u8..12).prop_map(|(i, w)| MOp::SetTabWidth(i, w)),
        1 => (s(), 0u8..3, s()).prop_map(|(i, h, a)| MOp::Readd(i, h, a)),
        1 => Just(MOp::HideMp),
        2 => Just(MOp::ShowMp),
        1 => s().prop_map(MOp::DropUnwinding),
    ];
    if with_wait {
        prop_oneof![24 => base, 2 => prop_oneof![Just(0u32), 1u32..50, 50u32..3000].prop_map(MOp::Wait), 1 => (s(), "[a-z]{1,4}").prop_map(|(i, t)| MOp::BarPrintlnUnwinding(i, t)), 1 => Just(MOp::Retarget)].boxed()
    } else {
        base.boxed()
    }
}

// ------------------------------------------------------------------------------------------
// byte decoders for the fuzz targets

pub fn decode_spec(u: &mut FuzzInput, cols: usize, single_line: bool) -> BarSpec {
    BarSpec {
        two_lines: !single_line && u.n(3) == 0,
        len: if u.n(4) == 0 { None } else { Some(1 + u.n(48) as u64) },
        on_finish: [2u8, 2, 2, 0, 0, 1, 3, 4][u.n(7)],
        msg: u.short(cols),
        key_nl: false,
        blank_first: 0,
    }
}

pub fn decode_mop(u: &mut FuzzInput, cols: usize, flavour: u8) -> MOp {
    // flavour 0: full alphabet, 1: C04 (no println/clear/suspend/remove/positional), 2: C19 (single-line, no suspend)
    let s = |u: &mut FuzzInput| u.u16();
    let log = |u: &mut FuzzInput| match u.n(6) {
        0 => String::new(),
        1 => "l".repeat(cols + u.n(cols + 1)),
        2 => format!("{}\n{}", u.short(cols), u.short(cols)),
        _ => u.short(cols),
    };
    loop {
        let op = match u.n(41) {
            41 => MOp::Readd(s(u), u.n(2) as u8, s(u)),
            0..=4 => MOp::Add(decode_spec(u, cols, flavour == 2)),
            5 => MOp::Insert(u.n(5) as u8, decode_spec(u, cols, flavour == 2)),
            6 => MOp::InsertFromBack(u.n(5) as u8, decode_spec(u, cols, flavour == 2)),
            7 => MOp::InsertBefore(s(u), decode_spec(u, cols, flavour == 2)),
            8 => MOp::InsertAfter(s(u), decode_spec(u, cols, flavour == 2)),
            9 | 10 => MOp::Remove(s(u)),
            11..=16 => MOp::Tick(s(u)),
            17..=19 => MOp::Inc(s(u), 1 + u.n(2) as u64),
            20..=23 => MOp::SetMessage(s(u), u.short(cols)),
            24 | 25 => MOp::Finish(s(u)),
            26 => MOp::FinishWithMessage(s(u), u.short(cols)),
            27 => MOp::FinishAndClear(s(u)),
            28 => MOp::Abandon(s(u)),
            29..=32 => MOp::Drop(s(u)),
            33..=35 => MOp::MpPrintln(log(u)),
            36 => MOp::BarPrintln(s(u), log(u)),
            37 => MOp::MpClear,
            38 => MOp::MpSuspend((0..u.n(2)).map(|_| u.short(cols)).collect()),
            39 => MOp::BarSuspend(s(u), (0..u.n(2)).map(|_| u.short(cols)).collect()),
            _ => MOp::SetAlignment(u.bool()),
        };
        let ok = match flavour {
            1 | 2 if matches!(op, MOp::Readd(..)) => false,
            1 => !matches!(op, MOp::Remove(_) | MOp::Insert(..) | MOp::InsertFromBack(..) | MOp::MpPrintln(_) | MOp::BarPrintln(..) | MOp::MpClear | MOp::MpSuspend(_) | MOp::BarSuspend(..) | MOp::SetAlignment(_)),
            2 => !matches!(op, MOp::MpSuspend(_) | MOp::BarSuspend(..) | MOp::SetAlignment(_) | MOp::BarPrintln(..) | MOp::Insert(..) | MOp::InsertFromBack(..) | MOp::InsertBefore(..) | MOp::InsertAfter(..)),
            _ => true,
        };
        if ok || u.empty() {
            return if ok { op } else { MOp::Tick(0) };
        }
    }
}

pub fn decode_multi(u: &mut FuzzInput, flavour: u8) -> MultiCase {
    let (rows, cols) = match flavour {
        2 => (1 + u.n(11) as u8, 1 + u.n(39) as u8),
        _ => (80, 12 + u.n(28) as u8),
    };
    let hz = if flavour == 0 || flavour == 2 || u.n(3) == 0 { None } else { Some([1u8, 20, 255][u.n(2)]) };
    let step_ms = if hz.is_some() { [0u32, 0, 1, 200][u.n(3)] } else { 2 };
    let mut ops = vec![];
    if hz.is_some() {
        ops.push(MOp::Add(BarSpec { two_lines: false, len: Some(9), on_finish: 0, msg: String::new(), key_nl: false, blank_first: 0 }));
        ops.extend(std::iter::repeat(MOp::Tick(0)).take(22));
    }
    while !u.empty() && ops.len() < 60 {
        ops.push(decode_mop(u, cols as usize, flavour));
    }
    let final_drops = (0..8).map(|i| (i as u16).wrapping_mul(8191)).collect();
    MultiCase { rows, cols: cols as u16, hz, step_ms, ops, final_drops }
}
