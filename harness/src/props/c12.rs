//! C12 Field width, alignment and truncation contract.
use indicatif::{ProgressState, ProgressStyle};
use proptest::prelude::*;
use serde::{Deserialize, Serialize};

use crate::ensure;
use crate::model::{self, Align};
use crate::render::{render, BarSetup, RenderErr};
use crate::runner::*;

#[derive(Debug, Clone, Serialize, Deserialize)]
pub enum Chunk {
    Ascii(String),
    /// multi-byte characters that take one column each
    Narrow(String),
    /// double-width characters
    Wide(String),
    /// text wrapped in an SGR colour sequence and a reset
    Sgr(u8, String),
    /// a sequence of code points whose width belongs to the sequence, not to its parts: a heart with the
    /// emoji variation selector (two columns), a family joined by zero-width joiners (two columns)
    Seq(String),
}

pub fn content_of(chunks: &[Chunk]) -> String {
    let mut s = String::new();
    for c in chunks {
        match c {
            Chunk::Ascii(t) | Chunk::Narrow(t) | Chunk::Wide(t) | Chunk::Seq(t) => s.push_str(t),
            Chunk::Sgr(n, t) => {
                s.push_str(&format!("\x1b[{}m", 30 + n % 8));
                s.push_str(t);
                s.push_str("\x1b[0m");
            }
        }
    }
    s
}

pub fn chunk_strategy() -> BoxedStrategy<Chunk> {
    prop_oneof![
        4 => "[a-zA-Z0-9 _.-]{1,6}".prop_map(Chunk::Ascii),
        2 => "[\u{e9}\u{f1}\u{fc}\u{20ac}\u{2190}\u{3b1}\u{1d400}]{1,4}".prop_map(Chunk::Narrow),
        2 => "[\u{4e16}\u{754c}\u{1F600}\u{ff21}]{1,3}".prop_map(Chunk::Wide),
        2 => (0u8..8, "[a-z\u{e9}]{0,5}").prop_map(|(n, t)| Chunk::Sgr(n, t)),
    ]
    .boxed()
}

#[derive(Debug, Clone, Copy, Serialize, Deserialize, PartialEq)]
pub enum Via {
    Msg,
    Prefix,
    Custom,
    /// a custom key registered under the name of a built-in one (`eta`): it takes its place, and its
    /// output is a field content like any other
    CustomNamedEta,
}

#[derive(Debug, Clone, Serialize, Deserialize)]
pub struct PadCase {
    chunks: Vec<Chunk>,
    width: u32,
    align: Option<Align>,
    truncate: bool,
    via: Via,
    /// another field in front of the one under test: `{pos:W[!][.bold]}` (width, truncating, styled);
    /// what it is configured with must not leak into the next field
    #[serde(default)]
    before: Option<(u8, bool, bool)>,
    /// the field under test is `{bar:..W}` instead: progress characters of 1 (false) or 2 (true)
    /// columns each, position `.1` of 100
    #[serde(default)]
    bar: Option<(bool, u8)>,
    /// a TAB is inserted into the content at this character index and the bar has this tab width: the field is
    /// measured, padded and cut with the TAB already expanded (contents without SGR only)
    #[serde(default)]
    tab: Option<(u8, u8)>,
}

/// `{bar:W}` is a field like any other: it occupies exactly W columns, and what the W/c cells of c
/// columns leave over is padding placed by the alignment
fn run_bar_field(c: &PadCase, wide: bool, pos: u8) -> CaseResult {
    let chars = if wide { "\u{ff03}\u{ff1e}\u{ff0d}" } else { "#>-" };
    let cw = if wide { 2 } else { 1 };
    let width = (c.width % 400) as usize;
    let template = format!("[{{bar:{}{}{}}}]", c.align.map(|a| a.flag()).unwrap_or(""), width, if c.truncate { "!" } else { "" });
    let style = catch(|| ProgressStyle::with_template(&template).map(|s| s.progress_chars(chars)))
        .map_err(|p| Fail::new("panic", format!("with_template({template:?}) panicked: {p}")))?
        .map_err(|e| Fail::new("rejected", format!("with_template({template:?}) rejected: {e}")))?;
    let setup = BarSetup { len: Some(100), pos: pos as u64 % 101, cols: u16::MAX, rows: u16::MAX, ..Default::default() };
    let lines = match render(style, &setup) {
        Ok(l) => l,
        Err(RenderErr::Panic(p)) => return Err(Fail::new("panic", format!("rendering {template:?} panicked: {p}"))),
        Err(RenderErr::Pattern(p)) => return Err(Fail::new("harness", p)),
    };
    ensure!(lines.len() == 1, "lines", "template {template:?}: expected one line, got {lines:?}");
    let inner = lines[0].strip_prefix('[').and_then(|l| l.strip_suffix(']')).ok_or_else(|| Fail::new("brackets", format!("template {template:?}: line {:?} lost the surrounding literal brackets", lines[0])))?;
    let body = inner.trim_matches(' ');
    ensure!(body.chars().all(|ch| chars.contains(ch)), "bar_field", "{template:?} with progress chars {chars:?}: field {inner:?} contains something else than progress characters and padding");
    ensure!(model::cols(body) == width / cw * cw, "bar_field", "{template:?} with progress chars {chars:?}: the bar {body:?} takes {} columns, expected {} cells of {cw}", model::cols(body), width / cw);
    model::check_pad(body, width, c.align.unwrap_or(Align::Left), false, inner).map_err(|m| Fail::new("bar_field", format!("{template:?} with progress chars {chars:?}: {m}")))?;
    let mut v = Verdict::default();
    v.nontrivial = wide && width % 2 == 1;
    v.label("bar_key_as_field");
    v.label_if(wide && width % 2 == 1, "bar_cells_leave_a_column_over");
    Ok(v)
}

fn classify(v: &mut Verdict, chunks: &[Chunk], content_cols: usize, width: usize, truncate: bool) {
    let fancy = chunks.iter().any(|c| !matches!(c, Chunk::Ascii(_)));
    let truncating = truncate && width < content_cols;
    v.nontrivial = fancy && (truncating || width >= content_cols);
    v.label_if(truncating, "truncation_path");
    v.label_if(truncating && fancy, "truncation_non_ascii_or_sgr");
    v.label_if(width >= content_cols, "padding_path");
    v.label_if(!truncate && width < content_cols, "overflow_unshortened");
    v.label_if(chunks.iter().any(|c| matches!(c, Chunk::Wide(_))), "double_width");
    v.label_if(chunks.iter().any(|c| matches!(c, Chunk::Sgr(..))), "sgr");
}

fn run_pad(c: &PadCase) -> CaseResult {
    if let Some((wide, pos)) = c.bar {
        return run_bar_field(c, wide, pos);
    }
    let raw = content_of(&c.chunks);
    // (what the field receives, and what it has to show)
    let (given, content, tab_width) = match c.tab {
        Some((at, tw)) if !raw.contains('\u{1b}') => {
            let i = raw.char_indices().map(|(i, _)| i).chain([raw.len()]).nth(at as usize % (raw.chars().count() + 1)).unwrap();
            let g = format!("{}\t{}", &raw[..i], &raw[i..]);
            let e = model::expand_tabs(&g, tw as usize % 13);
            (g, e, Some(tw as usize % 13))
        }
        _ => (raw.clone(), raw.clone(), None),
    };
    let key = match c.via {
        Via::Msg => "msg",
        Via::Prefix => "prefix",
        Via::Custom => "ck",
        Via::CustomNamedEta => "eta",
    };
    let first = match c.before {
        Some((w, t, st)) => format!("{{pos:{}{}{}}}", w % 12, if t { "!" } else { "" }, if st { ".bold" } else { "" }),
        None => String::new(),
    };
    let template = format!(
        "{first}[{{{key}:{}{}{}}}]",
        c.align.map(|a| a.flag()).unwrap_or(""),
        c.width,
        if c.truncate { "!" } else { "" }
    );
    let style = catch(|| ProgressStyle::with_template(&template))
        .map_err(|p| Fail::new("panic", format!("with_template({template:?}) panicked: {p}")))?
        .map_err(|e| Fail::new("rejected", format!("with_template({template:?}) rejected: {e}")))?;
    let content2 = given.clone();
    let content3 = given.clone();
    let style = style
        .with_key("ck", move |_: &ProgressState, w: &mut dyn std::fmt::Write| {
            let _ = w.write_str(&content2);
        })
        .with_key(if c.via == Via::CustomNamedEta { "eta" } else { "ck_unused" }, move |_: &ProgressState, w: &mut dyn std::fmt::Write| {
            let _ = w.write_str(&content3);
        });
    let setup = BarSetup { msg: given.clone(), prefix: given.clone(), cols: u16::MAX, rows: u16::MAX, tab_width, ..Default::default() };
    let lines = match render(style, &setup) {
        Ok(l) => l,
        Err(RenderErr::Panic(p)) => return Err(Fail::new("panic", format!("rendering {template:?} with content {content:?} panicked: {p}"))),
        Err(RenderErr::Pattern(p)) => return Err(Fail::new("harness", p)),
    };
    ensure!(lines.len() == 1, "lines", "template {template:?} content {content:?}: expected one line, got {lines:?}");
    let line = &lines[0];
    let inner = line
        .find('[')
        .filter(|i| c.before.is_some() || *i == 0)
        .map(|i| &line[i + 1..])
        .and_then(|l| l.strip_suffix(']'))
        .ok_or_else(|| Fail::new("brackets", format!("template {template:?}: line {line:?} lost the surrounding literal brackets")))?;
    let align = c.align.unwrap_or(Align::Left);
    let content_cols = model::cols(&content);
    if c.chunks.iter().any(|k| matches!(k, Chunk::Seq(_))) && c.truncate && (c.width as usize) < content_cols {
        // (where a cut falls inside such a sequence is not defined: only contents that fit are judged)
        let mut v = Verdict::default();
        v.label("sequence_content_truncated_not_judged");
        return Ok(v);
    }
    let kind = if c.truncate && (c.width as usize) < content_cols { "truncate" } else { "pad" };
    model::check_pad(&content, c.width as usize, align, c.truncate, inner).map_err(|m| Fail::new(kind, format!("{template:?}: {m}")))?;
    let mut v = Verdict::default();
    classify(&mut v, &c.chunks, content_cols, c.width as usize, c.truncate);
    v.label_if(c.before.is_some(), "second_field_of_the_template");
    v.label_if(tab_width.is_some(), "content_with_a_tab");
    v.label_if(tab_width.is_some() && c.via == Via::Custom, "custom_key_writes_a_tab");
    v.label_if(c.via == Via::CustomNamedEta, "custom_key_under_a_built_in_name");
    v.label_if(c.chunks.iter().any(|k| matches!(k, Chunk::Seq(_))), "width_that_belongs_to_a_sequence");
    Ok(v)
}

fn pad_strategy() -> BoxedStrategy<PadCase> {
    let seq = prop_oneof![Just("\u{2764}\u{fe0f}"), Just("\u{1f468}\u{200d}\u{1f469}\u{200d}\u{1f467}"), Just("\u{2600}\u{fe0f}"), Just("\u{1f3f3}\u{fe0f}\u{200d}\u{1f308}")].prop_map(|t| Chunk::Seq(t.to_string()));
    // (one field content in eight holds such a sequence)
    (proptest::collection::vec(chunk_strategy(), 0..5), any::<u16>(), 0u8..10, -3i32..=3, proptest::option::weighted(0.12, (seq, any::<u8>())))
        .prop_map(|(mut chunks, big, sel, delta, seq)| {
            if let Some((q, at)) = seq {
                let i = at as usize % (chunks.len() + 1);
                chunks.insert(i, q);
            }
            (chunks, big, sel, delta)
        })
        .prop_flat_map(|(chunks, big, sel, delta)| {
            let cols = model::cols(&content_of(&chunks)) as i32;
            let width = match sel {
                0..=4 => (cols + delta).max(0) as u32,  // around the content width
                5..=7 => (big % 40) as u32,             // small
                8 => big as u32,                        // anything up to u16::MAX
                _ => [0u32, 1, 255, 256, 65535][(big % 5) as usize],
            };
            (
                Just(chunks),
                Just(width),
                proptest::option::weighted(0.8, prop_oneof![Just(Align::Left), Just(Align::Center), Just(Align::Right)]),
                any::<bool>(),
                prop_oneof![3 => Just(Via::Msg), 1 => Just(Via::Prefix), 2 => Just(Via::Custom), 1 => Just(Via::CustomNamedEta)],
                proptest::option::weighted(0.3, (any::<u8>(), any::<bool>(), any::<bool>())),
                proptest::option::weighted(0.12, (any::<bool>(), any::<u8>())),
                proptest::option::weighted(0.2, (any::<u8>(), 0u8..13)),
            )
        })
        .prop_map(|(chunks, width, align, truncate, via, before, bar, tab)| PadCase { chunks, width, align, truncate, via, before, bar, tab })
        .boxed()
}

// ------------------------------------------------------------------------------------------
// wide_msg

#[derive(Debug, Clone, Serialize, Deserialize)]
pub struct WideCase {
    chunks: Vec<Chunk>,
    term: u16,
    left: String,
    right: String,
    align: Option<Align>,
    /// a template line in front of the tested one: 0 `{wide_bar}|`, 1 a `{wide_msg}` with another
    /// alignment, 2 plain text - what is wide on one line must not govern the next
    #[serde(default)]
    line_before: Option<u8>,
    /// the message gets a TAB at this character index and is drawn once at tab width `.1` before the
    /// width is changed to `.2` and the tested frame is drawn
    #[serde(default)]
    tab: Option<(u8, u8, u8)>,
    /// the bar is a member of a MultiProgress / an earlier frame was drawn while the terminal reported this
    /// other width (the tested frame must be laid out for the width reported now)
    #[serde(default)]
    in_multi: bool,
    #[serde(default)]
    resized_from: Option<u16>,
    /// the line starts with `{pos:65535}x`: what stands besides the wide element is wider than 65535 columns
    /// (terminals of at least 150 columns only, so that the line still fits the emulated height)
    #[serde(default)]
    huge_before: bool,
    /// the message is this content repeated until it is longer than 65535 characters
    #[serde(default)]
    very_long: bool,
}

fn run_wide(c: &WideCase) -> CaseResult {
    let raw = content_of(&c.chunks);
    let very_long = c.very_long && !raw.is_empty() && !raw.contains('\u{1b}') && c.tab.is_none();
    let raw = if very_long { raw.repeat(66_000 / raw.chars().count() + 1) } else { raw };
    // (a TAB only between plain characters: chunk boundaries may be inside an SGR sequence)
    let (msg, content) = match c.tab {
        Some((at, _, w2)) if !raw.contains('\u{1b}') => {
            let i = raw.char_indices().map(|(i, _)| i).chain([raw.len()]).nth(at as usize % (raw.chars().count() + 1)).unwrap();
            let m = format!("{}\t{}", &raw[..i], &raw[i..]);
            let e = model::expand_tabs(&m, w2 as usize % 17);
            (m, e)
        }
        _ => (raw.clone(), raw.clone()),
    };
    let tabbed = msg != content || msg.contains('\t');
    let first = match c.line_before {
        Some(0) => "{wide_bar}|\n".to_string(),
        Some(1) => format!("{{wide_msg:{}}}|\n", if c.align == Some(Align::Right) { "<" } else { ">" }),
        Some(_) => "plain text\n".to_string(),
        None => String::new(),
    };
    let huge = c.huge_before && c.term >= 150 && c.resized_from.is_none();
    let c = &WideCase { left: if huge { format!("{:<65535}x{}", 7, c.left) } else { c.left.clone() }, ..c.clone() };
    let template = format!(
        "{first}{}{}{{wide_msg{}}}{}",
        if huge { "{pos:65535}x" } else { "" },
        if huge { &c.left[65536..] } else { c.left.as_str() },
        c.align.map(|a| format!(":{}", a.flag())).unwrap_or_default(),
        c.right
    );
    let style = catch(|| ProgressStyle::with_template(&template))
        .map_err(|p| Fail::new("panic", format!("with_template({template:?}) panicked: {p}")))?
        .map_err(|e| Fail::new("rejected", format!("with_template({template:?}) rejected: {e}")))?;
    let mut setup = BarSetup { msg: msg.clone(), cols: c.term, rows: 500, in_multi: c.in_multi, resized_from: c.resized_from, ..Default::default() };
    if let (true, Some((_, w1, w2))) = (tabbed, c.tab) {
        setup.tab_width = Some(w1 as usize % 17);
        setup.retab = Some(w2 as usize % 17);
    }
    let lines = match render(style, &setup) {
        Ok(l) => l,
        Err(RenderErr::Panic(p)) => return Err(Fail::new("panic", format!("rendering {template:?} msg {content:?} on {} columns panicked: {p}", c.term))),
        Err(RenderErr::Pattern(p)) => return Err(Fail::new("harness", p)),
    };
    let rest = model::cols(&c.left) + model::cols(&c.right);
    let width = (c.term as usize).saturating_sub(rest);
    let skip = usize::from(c.line_before.is_some());
    let line = lines.get(skip).cloned().unwrap_or_default();
    ensure!(lines.len() <= 1 + skip, "lines", "template {template:?}: expected {} line(s), got {lines:?}", 1 + skip);
    let inner = line
        .strip_prefix(c.left.as_str())
        .and_then(|l| l.strip_suffix(c.right.as_str()))
        .ok_or_else(|| Fail::new("literals", format!("template {template:?} msg {content:?} on {} columns: line {line:?} lost the literal text around wide_msg", c.term)))?;
    let align = c.align.unwrap_or(Align::Left);
    let content_cols = model::cols(&content);
    let res = model::check_pad(&content, width, align, true, inner);
    let res = match res {
        // at the end of the line the field's trailing padding may be trimmed
        Err(_) if c.right.is_empty() => {
            let mut ok = false;
            if let model::PadExpect::Exact(alts) = model::pad_ref(&content, width, align, true) {
                ok = alts.iter().any(|a| a.trim_end() == inner);
            } else if let model::PadExpect::Truncated { visible } = model::pad_ref(&content, width, align, true) {
                ok = visible.iter().any(|a| a.trim_end() == console::strip_ansi_codes(inner).trim_end());
            }
            if ok {
                Ok(())
            } else {
                res
            }
        }
        r => r,
    };
    let kind = if width < content_cols { "wide_truncate" } else { "wide_pad" };
    res.map_err(|m| Fail::new(kind, format!("{template:?} on {} columns (field width {width}): {m}", c.term)))?;
    if rest <= c.term as usize {
        ensure!(model::cols(&line) <= c.term as usize, "wide_overflow", "{template:?} msg {content:?}: line {line:?} is wider than the {}-column terminal", c.term);
    }
    let mut v = Verdict::default();
    classify(&mut v, &c.chunks, content_cols, width, true);
    v.label_if(rest > c.term as usize, "rest_does_not_fit");
    v.label_if(c.right.is_empty(), "wide_msg_last");
    v.label_if(c.line_before.is_some(), "second_line_of_a_template_with_another_wide_element");
    v.label_if(tabbed, "tab_width_changed_between_two_draws");
    v.label_if(c.in_multi && c.resized_from.map_or(false, |w| w != c.term), "member_of_a_multi_progress_after_the_terminal_was_resized");
    v.label_if(huge, "rest_of_the_line_wider_than_65535_columns");
    v.label_if(very_long, "message_longer_than_65535_characters");
    Ok(v)
}

fn wide_strategy() -> BoxedStrategy<WideCase> {
    (
        proptest::collection::vec(chunk_strategy(), 0..6),
        prop_oneof![3 => 1u16..40, 1 => 40u16..200],
        "[a-z:\\[\\] \u{e9}\u{4e16}]{0,6}",
        prop_oneof![3 => "[a-z:|\\]\u{e9}\u{4e16}]{1,4}", 1 => Just(String::new())],
        proptest::option::weighted(0.4, prop_oneof![Just(Align::Left), Just(Align::Center), Just(Align::Right)]),
        proptest::option::weighted(0.3, 0u8..3),
        proptest::option::weighted(0.25, (any::<u8>(), 0u8..17, 0u8..17)),
        proptest::bool::weighted(0.3),
        proptest::option::weighted(0.3, 1u16..200),
    )
        .prop_map(|(chunks, term, left, right, align, line_before, tab, in_multi, resized_from)| WideCase { huge_before: term >= 150 && term % 2 == 0, very_long: term % 16 == 5, chunks, term, left, right, align, line_before, tab, in_multi, resized_from })
        .boxed()
}

fn decode_chunks(u: &mut FuzzInput) -> Vec<Chunk> {
    (0..u.n(4))
        .map(|_| match u.n(9) {
            0..=3 => Chunk::Ascii((0..=u.n(5)).map(|_| u.pick(&['a', 'B', '0', ' ', '_', '.', '-'])).collect()),
            4 | 5 => Chunk::Narrow((0..=u.n(3)).map(|_| u.pick(&['\u{e9}', '\u{f1}', '\u{20ac}', '\u{2190}', '\u{1d400}'])).collect()),
            6 | 7 => Chunk::Wide((0..=u.n(2)).map(|_| u.pick(&['\u{4e16}', '\u{754c}', '\u{1F600}', '\u{ff21}'])).collect()),
            _ => Chunk::Sgr(u.n(7) as u8, (0..u.n(5)).map(|_| u.pick(&['a', 'z', '\u{e9}'])).collect()),
        })
        .collect()
}

fn decode_pad(u: &mut FuzzInput) -> PadCase {
    let chunks = decode_chunks(u);
    let cols = model::cols(&content_of(&chunks)) as i64;
    let width = match u.n(9) {
        0..=4 => (cols + u.n(6) as i64 - 3).max(0) as u32,
        5..=7 => u.n(39) as u32,
        8 => u.u16() as u32,
        _ => [0u32, 1, 255, 256, 65535][u.n(4)],
    };
    PadCase { chunks, width, align: [None, Some(Align::Left), Some(Align::Center), Some(Align::Right)][u.n(3)], truncate: u.bool(), via: [Via::Msg, Via::Prefix, Via::Custom, Via::CustomNamedEta][u.n(3)], before: if u.n(3) == 0 { Some((u.u8(), u.bool(), u.bool())) } else { None }, bar: if u.n(7) == 0 { Some((u.bool(), u.u8())) } else { None }, tab: if u.n(5) == 0 { Some((u.u8(), u.n(12) as u8)) } else { None } }
}

fn decode_wide(u: &mut FuzzInput) -> WideCase {
    let lit = |u: &mut FuzzInput, max: usize| -> String { (0..u.n(max)).map(|_| u.pick(&['a', ':', '[', ']', ' ', '\u{e9}', '\u{4e16}'])).collect() };
    WideCase { chunks: decode_chunks(u), term: 1 + u.n(99) as u16, left: lit(u, 6), right: lit(u, 4), align: [None, None, Some(Align::Left), Some(Align::Center), Some(Align::Right)][u.n(4)], line_before: if u.n(3) == 0 { Some(u.n(2) as u8) } else { None }, tab: if u.n(3) == 0 { Some((u.u8(), u.n(16) as u8, u.n(16) as u8)) } else { None }, in_multi: u.n(3) == 0, resized_from: if u.n(3) == 0 { Some(1 + u.n(150) as u16) } else { None }, huge_before: false, very_long: false }
}

pub fn property() -> Property {
    let w = default_workers();
    Property {
        id: "C12",
        level: "exploration",
        assumptions: &[
            "when a double-width character straddles the cut no string has exactly W columns: the cells lying entirely inside the window are required (DESIGN.md 2.3)",
            "centre alignment: the odd column / the window may sit on either side",
            "escape sequences kept by a truncation are not prescribed, only that they are intact, from the content and in order",
            "wide_msg at the very end of a line may trim its trailing padding (documented behaviour of the crate: no trailing whitespace)",
            "contents without combining marks (the statement counts columns; where a zero-column mark goes when its letter is cut is not specified) or newlines; a TAB only in contents without SGR sequences",
        ],
        parts: vec![
            Box::new(Gen::<PadCase> {
                name: "field",
                rule: "content = 0-4 chunks (ASCII, multi-byte single-width, double-width, SGR-wrapped) through {msg}/{prefix}/a custom key with width around the content width / small / any u16, every alignment, '!' on/off, or the {bar:W} key with 1- or 2-column progress characters (W columns exactly, cells of whole characters, the rest placed by the alignment); compared cell-wise with the reference field; non-trivial = non-ASCII or SGR content on the padding or truncation path",
                strategy: |_| pad_strategy(),
                cases: |t| t.pick(36_000, 2_000_000),
                run: run_pad,
                signature: no_signature,
                essential: &["truncation_path", "truncation_non_ascii_or_sgr", "padding_path", "overflow_unshortened", "double_width", "sgr", "second_field_of_the_template", "bar_key_as_field", "bar_cells_leave_a_column_over", "content_with_a_tab", "custom_key_writes_a_tab", "custom_key_under_a_built_in_name", "width_that_belongs_to_a_sequence"],
                workers: w,
                decode: Some(decode_pad),
            }),
            Box::new(Gen::<WideCase> {
                name: "wide_msg",
                rule: "literal{wide_msg[:align]}literal on terminals 1..200 columns with the same contents: wide_msg must equal a truncating field of width terminal - rest and the line must not exceed the terminal when the rest fits",
                strategy: |_| wide_strategy(),
                cases: |t| t.pick(24_000, 1_200_000),
                run: run_wide,
                signature: no_signature,
                essential: &["truncation_path", "truncation_non_ascii_or_sgr", "padding_path", "rest_does_not_fit", "wide_msg_last", "member_of_a_multi_progress_after_the_terminal_was_resized", "rest_of_the_line_wider_than_65535_columns", "message_longer_than_65535_characters"],
                workers: w,
                decode: Some(decode_wide),
            }),
        ],
    }
}
