//! C01 Single-bar redraw integrity: terminal = printed lines + current frame.
use std::time::Duration;

use indicatif::{ProgressBar, ProgressDrawTarget};
use proptest::prelude::*;
use serde::{Deserialize, Serialize};

use crate::clock;
use crate::ensure;
use crate::hist::*;
use crate::runner::*;
use crate::vterm::{Frame, VTerm};

#[derive(Debug, Clone, Serialize, Deserialize)]
pub enum BOp {
    Tick,
    Inc(u64),
    SetPos(u64),
    SetMessage(String),
    SetPrefix(String),
    SetStyle(STpl),
    SetLength(u64),
    Println(String),
    Suspend(Vec<String>),
    Reset,
    Finish,
    FinishWithMessage(String),
    FinishAndClear,
    Abandon,
    AbandonWithMessage(String),
    SetTabWidth(u8),
    /// the style is taken from the bar, given another template and installed again:
    /// pb.set_style(pb.style().template(..))
    Restyle(STpl),
}

#[derive(Debug, Clone, Serialize, Deserialize)]
pub struct BarCase {
    pub rows: u8,
    pub cols: u8,
    pub len: Option<u64>,
    pub tpl: STpl,
    pub ops: Vec<BOp>,
    /// additional columns (terminals wider than 256 columns: cols + wide)
    #[serde(default)]
    pub wide: u16,
}

/// new logical state after `op` (log lines appended to `log`)
pub fn apply_model(st: &BarState, op: &BOp) -> BarState {
    let mut s = st.clone();
    match op {
        BOp::Tick => s.ticks += 1,
        BOp::Println(_) | BOp::Suspend(_) => {}
        BOp::SetTabWidth(w) => s.tab_width = *w as usize,
        BOp::Restyle(t) => s.tpl = t.clone(),
        // (a position update ticks the spinner unless the bar's own 1 ms throttle drops it: templates with a
        // spinner are only generated where the clock advances 2 ms per operation)
        BOp::Inc(d) => {
            s.pos = s.pos.wrapping_add(*d);
            s.ticks += 1;
        }
        BOp::SetPos(p) => {
            s.pos = *p;
            s.ticks += 1;
        }
        BOp::SetMessage(m) => s.msg = m.clone(),
        BOp::SetPrefix(m) => s.prefix = m.clone(),
        BOp::SetStyle(t) => s.tpl = t.clone(),
        BOp::SetLength(l) => s.len = Some(*l),
        BOp::Reset => {
            s.pos = 0;
            s.status = Status::InProgress;
        }
        BOp::Finish | BOp::FinishWithMessage(_) | BOp::FinishAndClear => {
            if let Some(l) = s.len {
                s.pos = l;
            }
            s.status = if matches!(op, BOp::FinishAndClear) { Status::DoneHidden } else { Status::DoneVisible };
            if let BOp::FinishWithMessage(m) = op {
                s.msg = m.clone();
            }
        }
        BOp::Abandon => s.status = Status::DoneVisible,
        BOp::AbandonWithMessage(m) => {
            s.status = Status::DoneVisible;
            s.msg = m.clone();
        }
    }
    s
}

pub fn exec(pb: &ProgressBar, vt: &VTerm, op: &BOp) {
    match op {
        BOp::Tick => pb.tick(),
        BOp::Inc(d) => pb.inc(*d),
        BOp::SetPos(p) => pb.set_position(*p),
        BOp::SetMessage(m) => pb.set_message(m.clone()),
        BOp::SetPrefix(m) => pb.set_prefix(m.clone()),
        BOp::SetStyle(t) => pb.set_style(t.style()),
        BOp::SetLength(l) => pb.set_length(*l),
        BOp::Println(t) => pb.println(t),
        BOp::Suspend(lines) => pb.suspend(|| {
            for l in lines {
                vt.user_print_line(l);
            }
        }),
        BOp::Reset => pb.reset(),
        BOp::Finish => pb.finish(),
        BOp::FinishWithMessage(m) => pb.finish_with_message(m.clone()),
        BOp::FinishAndClear => pb.finish_and_clear(),
        BOp::Abandon => pb.abandon(),
        BOp::AbandonWithMessage(m) => pb.abandon_with_message(m.clone()),
        BOp::SetTabWidth(w) => pb.set_tab_width(*w as usize),
        BOp::Restyle(t) => pb.set_style(pb.style().template(&t.template()).expect("simple template must parse")),
    }
}

/// Compare one observed screen with `log ++ frame`; also the cursor clause.
pub fn check_screen(fr_rows: &[String], probe: Option<(usize, usize)>, log: &[String], frame: &[String], cols: usize, ctx: &str) -> Result<(), Fail> {
    let mut want = rows_of(log, cols);
    let log_rows = want.len();
    want.extend(rows_of(frame, cols));
    let total = want.len();
    let want_t = trim_trailing_blank(want.clone());
    let got_t = trim_trailing_blank(fr_rows.to_vec());
    if got_t != want_t {
        // classify: is a log line missing / damaged, or is it the frame part?
        let log_part_ok = got_t.len() >= log_rows && got_t[..log_rows] == want[..log_rows];
        let kind = if !log_part_ok { "log_damaged" } else { "frame_wrong" };
        return Err(Fail::new(kind, format!("{ctx}: terminal shows {got_t:?}, expected printed lines {:?} followed by frame {:?} (as rows: {want_t:?})", log, frame)));
    }
    if let Some((r, c)) = probe {
        if !(c == 0 && r == total) {
            return Err(Fail::new("cursor", format!("{ctx}: ordinary output written now would start at row {r}, column {c}; expected a fresh line at row {total} (printed lines {log:?}, frame {frame:?})")));
        }
    }
    Ok(())
}

pub fn run_bar(c: &BarCase) -> CaseResult {
    let _clk = clock::Armed::new();
    let (rows, cols) = (c.rows.max(1) as usize, c.cols.max(1) as usize + c.wide as usize);
    let vt = VTerm::new(rows, cols).with_snapshots();
    let mut st = BarState::new(c.len, c.tpl.clone());
    let mut v = Verdict::default();
    if height_of(&st.frame(), cols) > rows {
        v.label("initial_frame_too_tall");
        return Ok(v);
    }
    let pb = ProgressBar::with_draw_target(c.len, ProgressDrawTarget::term_like(vt.boxed()));
    pb.set_style(c.tpl.style());
    let mut log: Vec<String> = vec![];
    let mut painted: Vec<String> = vec![];
    let mut heights: Vec<usize> = vec![];
    let mut skipped = 0;
    let mut println_while_empty = false;
    for (i, op) in c.ops.iter().enumerate() {
        let next = apply_model(&st, op);
        if height_of(&next.frame(), cols) > rows {
            skipped += 1;
            continue; // precondition of the statement: the frame fits the terminal height
        }
        clock::advance(Duration::from_millis(2));
        let log_before = log.clone();
        catch(|| exec(&pb, &vt, op)).map_err(|p| Fail::new("panic", format!("op #{i} {op:?} panicked: {p}")))?;
        st = next;
        match op {
            BOp::Println(t) => log.extend(println_lines(t)),
            BOp::Suspend(l) => log.extend(l.iter().cloned()),
            _ => {}
        }
        let frames: Vec<Frame> = vt.take_frames();
        let ctx = |k: usize| format!("op #{i} {op:?}, draw {k} of {} ({}x{} terminal, ops {:?})", frames.len(), rows, cols, &c.ops[..=i]);
        for (k, fr) in frames.iter().enumerate() {
            let (l, f): (&[String], Vec<String>) = if matches!(op, BOp::Suspend(_)) && k == 0 && frames.len() >= 2 {
                (&log_before, vec![])
            } else {
                (&log, st.frame())
            };
            check_screen(&fr.rows, Some(fr.probe), l, &f, cols, &ctx(k + 1))?;
            painted = f;
        }
        if !frames.is_empty() {
            let h = height_of(&painted, cols);
            if heights.last() != Some(&h) {
                heights.push(h);
            }
            if matches!(op, BOp::Println(_) | BOp::Suspend(_)) && painted.is_empty() {
                println_while_empty = true;
            }
            v.label_if(painted.iter().any(|l| console::measure_text_width(l) > cols), "wrap");
            v.label_if(painted.iter().any(|l| l.len() > 65_535), "line_of_more_than_65535_columns_that_fits");
            v.label_if(painted.iter().any(|l| { let w = console::measure_text_width(l); w > 0 && w % cols == 0 }), "exact_multiple_of_width");
            v.label_if(painted.first().map_or(false, |l| console::measure_text_width(l) == 0) && painted.len() >= 2, "empty_first_line_frame");
            v.label_if(painted.is_empty(), "clear");
        }
        // after the op: nothing but the printed lines and the last painted frame
        check_screen(&vt.rows(), None, &log, &painted, cols, &format!("after op #{i} {op:?} ({}x{} terminal, ops {:?})", rows, cols, &c.ops[..=i]))?;
        v.label_if(matches!(op, BOp::Reset) && frames.len() > 0, "reset");
    }
    let shrink = heights.windows(2).any(|w| w[1] < w[0]);
    let grow = heights.windows(2).any(|w| w[1] > w[0]);
    v.nontrivial = (shrink || grow) || (println_while_empty && !painted.is_empty());
    v.label_if(shrink, "shrink");
    v.label_if(grow, "grow");
    v.label_if(println_while_empty, "text_only_draw");
    v.label_if(println_while_empty && !painted.is_empty(), "frame_after_text_only_draw");
    v.label_if(skipped > 0, "ops_skipped_frame_too_tall");
    v.label_if(log.iter().any(|l| console::measure_text_width(l) > cols), "log_wraps");
    v.label_if(cols > 256, "terminal_wider_than_256_columns");
    Ok(v)
}

/// Known finding F-C01b (model-only pass over the case): the closure of `suspend` writes an
/// empty (zero-width) first line while the cursor is still parked at the right edge of the last
/// log line (the last draw was a text-only `println` with no frame line). The line feed then
/// does not produce a blank row: the empty line is swallowed.
pub fn signature(c: &BarCase) -> Option<&'static str> {
    let (rows, cols) = (c.rows.max(1) as usize, c.cols.max(1) as usize + c.wide as usize);
    let mut st = BarState::new(c.len, c.tpl.clone());
    if height_of(&st.frame(), cols) > rows {
        return None;
    }
    let mut parked_after_text = false;
    for op in &c.ops {
        let next = apply_model(&st, op);
        if height_of(&next.frame(), cols) > rows {
            continue;
        }
        st = next;
        match op {
            BOp::SetStyle(_) | BOp::Restyle(_) => {}
            BOp::Println(_) => parked_after_text = st.frame().is_empty(),
            BOp::Suspend(lines) => {
                if parked_after_text && lines.first().map_or(false, |l| console::measure_text_width(l) == 0) {
                    return Some("ordinary_empty_line_after_text_only_draw");
                }
                if !lines.is_empty() || !st.frame().is_empty() {
                    parked_after_text = false;
                }
            }
            // any other draw moves the cursor off the log line only if it paints a bar line
            _ => {
                if !st.frame().is_empty() {
                    parked_after_text = false;
                }
            }
        }
    }
    None
}

pub fn bop_strategy(cols: usize) -> BoxedStrategy<BOp> {
    prop_oneof![
        3 => Just(BOp::Tick),
        2 => (0u64..5).prop_map(BOp::Inc),
        1 => prop_oneof![0u64..100, Just(99999u64)].prop_map(BOp::SetPos),
        // (one message / prefix in eight carries a TAB)
        5 => (multi_text(cols), 0u8..8).prop_map(|(t, k)| BOp::SetMessage(if k == 0 { format!("m\t{t}") } else { t })),
        2 => (prop_oneof![3 => line_text(cols), 1 => multi_text(cols)], 0u8..8).prop_map(|(t, k)| BOp::SetPrefix(if k == 0 { format!("\t{t}") } else { t })),
        2 => stpl_strategy().prop_map(BOp::SetStyle),
        1 => stpl_strategy().prop_map(BOp::Restyle),
        1 => (0u64..1000).prop_map(BOp::SetLength),
        // (log text may come with CRLF line ends: println splits it like str::lines)
        4 => (multi_text(cols), 0u8..6).prop_map(|(t, k)| BOp::Println(if k == 0 { t.replace('\n', "\r\n") } else { t })),
        2 => proptest::collection::vec(line_text(cols), 0..3).prop_map(BOp::Suspend),
        2 => Just(BOp::Reset),
        1 => Just(BOp::Finish),
        1 => multi_text(cols).prop_map(BOp::FinishWithMessage),
        2 => Just(BOp::FinishAndClear),
        1 => Just(BOp::Abandon),
        1 => multi_text(cols).prop_map(BOp::AbandonWithMessage),
        1 => (0u8..12).prop_map(BOp::SetTabWidth),
    ]
    .boxed()
}

pub fn case_strategy(tier: Tier) -> BoxedStrategy<BarCase> {
    let n = tier.pick(24, 40);
    let max_cols = tier.pick(40u8, 200);
    (1u8..=12, prop_oneof![1 => 1u8..4, 4 => 4u8..=max_cols])
        .prop_flat_map(move |(rows, cols)| {
            (
                Just(rows),
                Just(cols),
                proptest::option::weighted(0.8, 0u64..100),
                stpl_strategy(),
                proptest::collection::vec(bop_strategy(cols as usize), 0..n),
                // one terminal in twelve is wider than 256 columns
                prop_oneof![11 => Just(0u16), 1 => 256u16..300],
            )
        })
        .prop_map(|(rows, cols, len, tpl, ops, wide)| BarCase { rows, cols, len, tpl, ops, wide })
        .boxed()
}

pub fn decode_bop(u: &mut FuzzInput, cols: usize) -> BOp {
    match u.n(24) {
        0 | 1 | 2 => BOp::Tick,
        3 | 4 => BOp::Inc(u.n(4) as u64),
        5 => BOp::SetPos(u.n(100) as u64),
        6 | 7 | 8 | 9 => BOp::SetMessage(u.text(cols)),
        10 | 11 => BOp::SetPrefix(if u.n(3) == 0 { u.text(cols) } else { u.line(cols) }),
        12 | 13 => BOp::SetStyle(decode_stpl(u)),
        14 => BOp::SetLength(u.n(1000) as u64),
        15 | 16 | 17 => BOp::Println(u.text(cols)),
        18 => BOp::Suspend((0..u.n(2)).map(|_| u.line(cols)).collect()),
        19 => BOp::Reset,
        20 => BOp::Finish,
        21 => BOp::FinishWithMessage(u.text(cols)),
        22 => BOp::FinishAndClear,
        23 => BOp::Abandon,
        _ => BOp::SetTabWidth(u.n(11) as u8),
    }
}

pub fn decode_case(u: &mut FuzzInput) -> BarCase {
    let rows = 1 + u.n(11) as u8;
    let cols = 1 + u.n(39) as u8;
    let len = if u.n(4) == 0 { None } else { Some(u.n(99) as u64) };
    let tpl = decode_stpl(u);
    let mut ops = vec![];
    while !u.empty() && ops.len() < 40 {
        ops.push(decode_bop(u, cols as usize));
    }
    BarCase { rows, cols, len, tpl, ops, wide: 0 }
}

// ------------------------------------------------------------------------------------------
// rate-limited targets: forced operations must still leave exactly log ++ frame

#[derive(Debug, Clone, Serialize, Deserialize)]
pub struct LimitedCase {
    bar: BarCase,
    hz: u8,
    /// ticks at the creation instant (exhaust the 20-frame burst)
    burn: u8,
    step_ms: u32,
}

fn run_limited(c: &LimitedCase) -> CaseResult {
    let _clk = clock::Armed::new();
    let b = &c.bar;
    let (rows, cols) = (b.rows.max(1) as usize, b.cols.max(1) as usize + b.wide as usize);
    let vt = VTerm::new(rows, cols).with_snapshots();
    let mut st = BarState::new(b.len, b.tpl.clone());
    let mut v = Verdict::default();
    if height_of(&st.frame(), cols) > rows {
        return Ok(v);
    }
    let pb = Guarded::new(ProgressBar::with_draw_target(b.len, ProgressDrawTarget::term_like_with_hz(vt.boxed(), c.hz.max(1))));
    pb.set_style(b.tpl.style());
    for _ in 0..c.burn {
        pb.tick();
    }
    vt.take_frames();
    let mut log: Vec<String> = vec![];
    let (mut skipped, mut forced_after_skip) = (false, false);
    for (i, op) in b.ops.iter().enumerate() {
        let next = apply_model(&st, op);
        if height_of(&next.frame(), cols) > rows {
            continue;
        }
        clock::advance(Duration::from_millis(c.step_ms as u64));
        let log_before = log.clone();
        catch(|| exec(&pb, &vt, op)).map_err(|p| Fail::new("panic", format!("op #{i} {op:?} panicked: {p}")))?;
        st = next;
        match op {
            BOp::Println(t) => log.extend(println_lines(t)),
            BOp::Suspend(l) => log.extend(l.iter().cloned()),
            _ => {}
        }
        let frames = vt.take_frames();
        let forced = matches!(op, BOp::Println(_) | BOp::Suspend(_) | BOp::Finish | BOp::FinishWithMessage(_) | BOp::FinishAndClear | BOp::Abandon | BOp::AbandonWithMessage(_) | BOp::SetTabWidth(_));
        let ctx = format!("op #{i} {op:?} on a {} Hz target after {} burn ticks, step {} ms ({}x{} terminal, ops {:?})", c.hz, c.burn, c.step_ms, rows, cols, &b.ops[..=i]);
        if forced {
            ensure!(!frames.is_empty(), "forced_draw_skipped", "{ctx}: the call painted nothing");
            if matches!(op, BOp::Suspend(_)) {
                ensure!(frames.len() >= 2, "suspend_clear_skipped", "{ctx}: suspend must clear the frame before the closure runs and redraw afterwards; {} frame(s) were painted", frames.len());
                check_screen(&frames[0].rows, None, &log_before, &[], cols, &format!("{ctx}, cleared screen before the closure"))?;
            }
            check_screen(&vt.rows(), Some(vt.lock().grid.probe()), &log, &st.frame(), cols, &ctx)?;
            forced_after_skip |= skipped;
        } else if matches!(op, BOp::Tick | BOp::Inc(_) | BOp::SetPos(_) | BOp::SetMessage(_) | BOp::SetPrefix(_) | BOp::SetLength(_) | BOp::Reset) && frames.is_empty() {
            skipped = true;
        }
        // whatever was painted by an ordinary draw shows the current state
        if !forced && !frames.is_empty() {
            check_screen(&vt.rows(), None, &log, &st.frame(), cols, &ctx)?;
        }
    }
    v.nontrivial = forced_after_skip;
    v.label_if(skipped, "ordinary_draw_skipped");
    v.label_if(forced_after_skip, "forced_op_after_skipped_draw");
    Ok(v)
}

/// F-C01b on a rate-limited target: ordinary draws between the text-only println and the suspend may have
/// been skipped, so the cursor can still be parked on the log line - any suspend with an empty first
/// line after a println falls under the finding.
fn limited_signature(c: &LimitedCase) -> Option<&'static str> {
    let mut printed = false;
    for op in &c.bar.ops {
        match op {
            BOp::Println(_) => printed = true,
            BOp::Suspend(l) if printed && l.first().map_or(false, |x| console::measure_text_width(x) == 0) => {
                return Some("ordinary_empty_line_after_text_only_draw");
            }
            _ => {}
        }
    }
    signature(&c.bar)
}

// ------------------------------------------------------------------------------------------
// a real terminal device: console::Term over a pseudo-terminal

#[derive(Debug, Clone, Serialize, Deserialize)]
pub struct PtyCase {
    rows: u8,
    cols: u8,
    len: Option<u64>,
    tpl: STpl,
    ops: Vec<BOp>,
    /// the device reports no window size (0 x 0, as a fresh pty or a serial console does): the library
    /// falls back to 24 rows x 80 columns, for every kind of draw alike
    #[serde(default)]
    unknown_size: bool,
}

pub(crate) struct Pty {
    pub(crate) master: std::fs::File,
    pub(crate) slave: std::fs::File,
}

pub(crate) fn open_pty(rows: u16, cols: u16) -> Result<Pty, String> {
    use std::os::fd::FromRawFd;
    let (mut m, mut s) = (0, 0);
    let ws = libc::winsize { ws_row: rows, ws_col: cols, ws_xpixel: 0, ws_ypixel: 0 };
    let rc = unsafe { libc::openpty(&mut m, &mut s, std::ptr::null_mut(), std::ptr::null(), &ws) };
    if rc != 0 {
        return Err(format!("openpty failed: {}", std::io::Error::last_os_error()));
    }
    unsafe {
        let fl = libc::fcntl(m, libc::F_GETFL);
        libc::fcntl(m, libc::F_SETFL, fl | libc::O_NONBLOCK);
        Ok(Pty { master: std::fs::File::from_raw_fd(m), slave: std::fs::File::from_raw_fd(s) })
    }
}

fn drain(p: &mut Pty, grid: &mut crate::vterm::Grid) {
    use std::io::Read;
    let mut buf = [0u8; 8192];
    let mut pending: Vec<u8> = vec![];
    loop {
        match p.master.read(&mut buf) {
            Ok(0) => break,
            Ok(n) => pending.extend_from_slice(&buf[..n]),
            Err(_) => break, // EAGAIN: nothing more for now
        }
    }
    // (the line discipline has turned \n into \r\n already; the grid treats \n as CR LF, which is the same)
    grid.feed(&String::from_utf8_lossy(&pending));
}

/// The same statement through the path that real programs take: `ProgressDrawTarget::term` over
/// `console::Term`, whose escape sequences and size queries go to a terminal device. The device is a
/// pseudo-terminal with a generated window size; what arrives at its master side is interpreted by the
/// harness's terminal emulator.
fn run_pty(c: &PtyCase) -> CaseResult {
    use std::io::Write;
    let _clk = clock::Armed::new();
    let (rows, cols) = if c.unknown_size { (24, 80) } else { (c.rows.max(2) as usize, c.cols.max(2) as usize) };
    let mut st = BarState::new(c.len, c.tpl.clone());
    let mut v = Verdict::default();
    if height_of(&st.frame(), cols) > rows {
        v.label("initial_frame_too_tall");
        return Ok(v);
    }
    let mut pty = if c.unknown_size { open_pty(0, 0) } else { open_pty(rows as u16, cols as u16) }.map_err(|e| Fail::new("harness", e))?;
    let dup = |f: &std::fs::File| f.try_clone().map_err(|e| Fail::new("harness", e.to_string()));
    let term = console::Term::read_write_pair(dup(&pty.slave)?, dup(&pty.slave)?);
    let mut user_out = dup(&pty.slave)?;
    let mut grid = crate::vterm::Grid::new(rows, cols);
    let pb = ProgressBar::with_draw_target(c.len, ProgressDrawTarget::term(term, 100));
    ensure!(!pb.is_hidden(), "harness", "the pseudo-terminal is not recognised as a terminal");
    pb.set_style(c.tpl.style());
    let mut log: Vec<String> = vec![];
    let mut painted: Vec<String> = vec![];
    let mut tall = false;
    for (i, op) in c.ops.iter().enumerate() {
        let next = apply_model(&st, op);
        if height_of(&next.frame(), cols) > rows {
            continue; // precondition of the statement: the frame fits the terminal height
        }
        // (a refresh interval passes between two operations: no ordinary draw is skipped)
        clock::advance(Duration::from_millis(50));
        let calls_before = grid.max_r;
        let _ = calls_before;
        catch(|| match op {
            BOp::Suspend(lines) => pb.suspend(|| {
                for l in lines {
                    let _ = writeln!(user_out, "{l}");
                }
            }),
            o => {
                let dummy = VTerm::raw(1, 1);
                exec(&pb, &dummy, o)
            }
        })
        .map_err(|p| Fail::new("panic", format!("op #{i} {op:?} panicked: {p}")))?;
        st = next;
        match op {
            BOp::Println(t) => log.extend(println_lines(t)),
            BOp::Suspend(l) => log.extend(l.iter().cloned()),
            _ => {}
        }
        drain(&mut pty, &mut grid);
        // which frame is on screen: every op of this alphabet draws, except the two that only install a style
        if !matches!(op, BOp::SetStyle(_) | BOp::Restyle(_)) {
            painted = st.frame();
        }
        tall |= height_of(&painted, cols) > cols;
        let ctx = format!("after op #{i} {op:?} (console::Term over a {rows}x{cols} pseudo-terminal, ops {:?})", &c.ops[..=i]);
        check_screen(&grid.all_rows(), Some(grid.probe()), &log, &painted, cols, &ctx)?;
    }
    drop(pb);
    v.nontrivial = tall;
    v.label_if(tall, "frame_with_more_rows_than_the_window_has_columns");
    v.label_if(log.iter().any(|l| console::measure_text_width(l) > cols), "log_wraps");
    v.label("real_terminal_device");
    v.label_if(c.unknown_size, "device_reports_no_window_size");
    Ok(v)
}

fn pty_strategy(tier: Tier) -> BoxedStrategy<PtyCase> {
    let n = tier.pick(16, 30);
    (20u8..=40, prop_oneof![3 => 3u8..10, 1 => 10u8..30])
        .prop_flat_map(move |(rows, cols)| (Just(rows), Just(cols), proptest::option::weighted(0.8, 0u64..100), stpl_strategy(), proptest::collection::vec(bop_strategy(cols as usize), 0..n)))
        .prop_map(|(rows, cols, len, tpl, ops)| PtyCase { unknown_size: rows % 5 == 0, rows, cols, len, tpl, ops })
        .boxed()
}

pub fn property() -> Property {
    let w = default_workers();
    Property {
        id: "C01",
        level: "exploration",
        assumptions: &[
            "terminal = the harness's own grid emulator (xterm-style deferred wrap, CR/LF, CUU/CUD, EL) fed with exactly the bytes console::Term would emit",
            "single-width characters and zero-width SGR sequences only; no TAB/C0 controls in log text",
            "ops that would make the frame taller than the terminal are skipped and counted (statement precondition)",
            "simple template family (literals, {msg}, {prefix}, {pos}, {len}, 1-3 lines) so the frame is predictable from the logical state",
        ],
        parts: vec![Box::new(Gen::<BarCase> {
            name: "history",
            rule: "one bar on a VTerm of 1..=12 rows x 1..=40 (thorough 200) columns with a random simple template; 0-24 (thorough 40) ops from tick/inc/set_position/set_message/set_prefix/set_style/set_length/println/suspend/reset/finish*/abandon* with texts that are empty, zero-width, multi-line and around multiples of the width; after every flush and after every op the screen must equal printed lines ++ frame and the cursor must be on a fresh line; non-trivial = two painted frames of different height, or a text-only draw followed by a non-empty frame",
            // (one template in six shows a spinner: part `history` only, where every operation is 2 ms apart)
            strategy: |t| {
                // (one case in sixty: a terminal of several thousand columns and a message of more than 65535
                // columns, which still fits its 12 rows - shown, replaced by a short one, cleared)
                let huge = (4000u16..7000, 65_530usize..72_000, 0u8..3).prop_map(|(wide, n, end)| BarCase {
                    rows: 12,
                    cols: 1,
                    len: Some(9),
                    tpl: STpl { lines: vec![vec![SPart::Msg, SPart::Lit("|".into()), SPart::Pos]] },
                    ops: vec![
                        BOp::SetMessage("x".repeat(n)),
                        BOp::Tick,
                        BOp::SetMessage("short".into()),
                        BOp::Tick,
                        BOp::SetMessage("y".repeat(n + 7)),
                        match end {
                            0 => BOp::FinishAndClear,
                            1 => BOp::Println("done".into()),
                            _ => BOp::Inc(1),
                        },
                    ],
                    wide,
                });
                let usual = (case_strategy(t), 0u8..6, any::<bool>())
                    .prop_map(|(mut c, k, front)| {
                        if k == 0 && !c.tpl.lines.is_empty() {
                            let l = &mut c.tpl.lines[0];
                            if front {
                                l.insert(0, SPart::Spinner);
                            } else {
                                l.push(SPart::Spinner);
                            }
                        }
                        c
                    });
                prop_oneof![59 => usual, 1 => huge].boxed()
            },
            cases: |t| t.pick(12_000, 800_000),
            run: run_bar,
            signature,
            essential: &["shrink", "grow", "wrap", "exact_multiple_of_width", "empty_first_line_frame", "text_only_draw", "frame_after_text_only_draw", "clear", "reset", "log_wraps", "line_of_more_than_65535_columns_that_fits"],
            workers: w,
            decode: Some(decode_case),
        }),
        Box::new(Gen::<LimitedCase> {
            name: "rate_limited",
            rule: "the same histories on term_like_with_hz targets (1/20/255 Hz) with the 20-frame burst used up first and a clock step of 0/1/100 ms: ordinary draws may be skipped, but every forced operation (println, suspend, finish*, abandon*, set_tab_width) must paint and leave exactly printed lines ++ current frame (suspend: a cleared screen before the closure runs); non-trivial = a forced operation after a skipped ordinary draw",
            strategy: |t| {
                (case_strategy(t), prop_oneof![Just(1u8), Just(20), Just(255)], prop_oneof![1 => Just(0u8), 3 => 21u8..30], prop_oneof![3 => Just(0u32), 1 => Just(1u32), 1 => Just(100u32)])
                    .prop_map(|(bar, hz, burn, step_ms)| LimitedCase { bar, hz, burn, step_ms })
                    .boxed()
            },
            cases: |t| t.pick(9_000, 600_000),
            run: run_limited,
            signature: limited_signature,
            essential: &["ordinary_draw_skipped", "forced_op_after_skipped_draw"],
            workers: w,
            decode: None,
        }),
        Box::new(Gen::<PtyCase> {
            name: "real_term",
            rule: "the same histories through ProgressDrawTarget::term over console::Term on a pseudo-terminal (openpty) whose window is 20..40 rows x 3..29 columns, or which reports no window size at all (the documented 24 x 80 fallback then applies): the escape sequences and size queries of the real-terminal path reach a terminal device, what arrives at the master side is interpreted by the harness's emulator and compared, after every operation, with printed lines ++ current frame and the cursor clause; non-trivial = a frame with more rows than the window has columns was on screen",
            strategy: pty_strategy,
            cases: |t| t.pick(1_500, 100_000),
            run: run_pty,
            signature: |c| signature(&BarCase { rows: c.rows, cols: c.cols, len: c.len, tpl: c.tpl.clone(), ops: c.ops.clone(), wide: 0 }),
            essential: &["real_terminal_device", "frame_with_more_rows_than_the_window_has_columns", "log_wraps", "device_reports_no_window_size"],
            workers: w,
            decode: None,
        })],
    }
}
