//! C07 Position and length bookkeeping, including concurrent increments.
use std::sync::atomic::{AtomicU32, Ordering};
use std::sync::Arc;
use std::time::Duration;

use indicatif::{ProgressBar, ProgressDrawTarget, ProgressFinish, ProgressState, ProgressStyle};
use proptest::prelude::*;
use serde::{Deserialize, Serialize};

use crate::clock;
use crate::ensure;
use crate::runner::*;
use crate::vterm::VTerm;

#[derive(Debug, Clone, Serialize, Deserialize)]
pub enum Op {
    Inc(u64),
    Dec(u64),
    SetPos(u64),
    UpdateSetPos(u64),
    Reset,
    Finish,
    FinishWithMessage,
    FinishAndClear,
    Abandon,
    AbandonWithMessage,
    FinishUsingStyle,
    SetLen(u64),
    UpdateSetLen(u64),
    IncLen(u64),
    DecLen(u64),
    UnsetLen,
    Tick,
    /// change the stored finish behaviour (0..5)
    WithFinish(u8),
    /// calls that are not part of the history that defines position/length: they must not change them
    ResetEta,
    ResetElapsed,
    SetMessage,
    SetPrefix,
    Println,
    Suspend,
    SetStyle,
    SetTabWidth(u8),
    ForceDraw,
    CloneAndDrop,
    /// wrap a seekable reader that already stands at this offset and ask for its position with
    /// seek(SeekFrom::Current(0)): a seek sets the bar to the offset it returns
    SeekCurrentZero(u8),
    /// wrap_read(..).read_to_string(&mut s) of `.1` bytes into a String that already holds `.0` bytes:
    /// as many incs as bytes were read
    ReadToString(u8, u8),
    /// wrap_iter over `items` items, drained to its end and polled `extra` more times; abandon() is called
    /// from the loop body after item `abandon_at`. One inc per item; the end of the iterator finishes the
    /// bar the stored way only when it is not finished yet
    IterDrain { items: u8, abandon_at: Option<u8>, extra: u8 },
    /// wrap_async_read(..).poll_read into a ReadBuf that already holds `.0` bytes, over a source of `.1`
    /// bytes: as many incs as bytes were appended by this poll
    AsyncReadPrefilled(u8, u8),
    /// wrap_write(..).write_all of `.0` bytes into a sink that takes 3 bytes per call and fails once it has
    /// accepted `.1` bytes: as many incs as bytes reached the sink
    WriteAllFailing(u8, u8),
    /// wrap_iter over `items` items, consumed with nth(k) calls until one returns None (what skip / step_by
    /// are built on): one inc per item taken from the inner iterator, also by the call that runs past the end
    IterNth { items: u8, k: u8 },
    /// wrap_iter over `.0` items consumed by for_each / fold: inside the closure the position already
    /// counts the item it is handed
    IterForEach(u8),
    /// wrap_iter(..).with_position(p) on the bar as it stands: the position is p from then on, then the items count
    IterWithPosition(u64, u8),
    /// the tokio writer adaptor: poll_write of `.0` bytes, then poll_write_vectored of two slices of `.1` and
    /// `.2` bytes into a Vec (which takes everything): as many incs as bytes written
    AsyncWriteVectored(u8, u8, u8),
}

#[derive(Debug, Clone, Serialize, Deserialize)]
pub struct HistCase {
    len: Option<u64>,
    start: u64,
    ops: Vec<Op>,
    hidden: bool,
}

pub fn special_u64() -> BoxedStrategy<u64> {
    prop_oneof![
        3 => prop_oneof![Just(0u64), Just(1), Just(2), Just(3), Just(10)],
        3 => prop_oneof![
            Just(1u64 << 24), Just((1u64 << 24) + 1), Just((1u64 << 32) - 1), Just(1u64 << 32), Just((1u64 << 32) + 1),
            Just((1u64 << 63) - 1), Just(1u64 << 63), Just((1u64 << 63) + 1), Just(u64::MAX - 1), Just(u64::MAX)
        ],
        2 => 0u64..1000,
        2 => any::<u64>(),
    ]
    .boxed()
}

fn op_strategy() -> BoxedStrategy<Op> {
    let v = special_u64;
    prop_oneof![
        4 => v().prop_map(Op::Inc),
        4 => v().prop_map(Op::Dec),
        3 => v().prop_map(Op::SetPos),
        1 => v().prop_map(Op::UpdateSetPos),
        1 => Just(Op::Reset),
        1 => prop_oneof![Just(Op::Finish), Just(Op::FinishWithMessage), Just(Op::FinishAndClear), Just(Op::Abandon), Just(Op::AbandonWithMessage), Just(Op::FinishUsingStyle)],
        2 => v().prop_map(Op::SetLen),
        1 => v().prop_map(Op::UpdateSetLen),
        2 => v().prop_map(Op::IncLen),
        2 => v().prop_map(Op::DecLen),
        1 => Just(Op::UnsetLen),
        1 => Just(Op::Tick),
        1 => (0u8..5).prop_map(Op::WithFinish),
        3 => prop_oneof![
            Just(Op::ResetEta), Just(Op::ResetElapsed), Just(Op::SetMessage), Just(Op::SetPrefix), Just(Op::Println), Just(Op::Suspend),
            Just(Op::SetStyle), (0u8..12).prop_map(Op::SetTabWidth), Just(Op::ForceDraw), Just(Op::CloneAndDrop), any::<u8>().prop_map(Op::SeekCurrentZero)
        ],
        1 => (0u8..20, 0u8..40).prop_map(|(a, b)| Op::ReadToString(a, b)),
        1 => (0u8..20, 0u8..40).prop_map(|(a, b)| Op::AsyncReadPrefilled(a, b)),
        1 => (0u8..30, 0u8..30).prop_map(|(a, b)| Op::WriteAllFailing(a, b)),
        1 => (0u8..20, 0u8..20, 0u8..20).prop_map(|(a, b, c)| Op::AsyncWriteVectored(a, b, c)),
        1 => (0u8..9, 0u8..4).prop_map(|(items, k)| Op::IterNth { items, k }),
        1 => (0u8..6).prop_map(Op::IterForEach),
        1 => (special_u64(), 0u8..6).prop_map(|(p, n)| Op::IterWithPosition(p, n)),
        2 => (0u8..6, proptest::option::weighted(0.4, 0u8..6), 0u8..3).prop_map(|(items, abandon_at, extra)| Op::IterDrain { items, abandon_at, extra }),
    ]
    .boxed()
}

fn finish_of(k: u8) -> ProgressFinish {
    match k % 5 {
        0 => ProgressFinish::AndLeave,
        1 => ProgressFinish::WithMessage("m".into()),
        2 => ProgressFinish::AndClear,
        3 => ProgressFinish::Abandon,
        _ => ProgressFinish::AbandonWithMessage("a".into()),
    }
}

thread_local! {
    /// bytes the last AsyncWriteVectored op reported as written (read by the model step right after it)
    static ASYNC_VECTORED_WRITTEN: std::cell::Cell<u64> = const { std::cell::Cell::new(0) };
}

fn run_hist(c: &HistCase) -> CaseResult {
    let _clk = clock::Armed::new();
    let frac = Arc::new(AtomicU32::new(f32::NAN.to_bits()));
    let f2 = frac.clone();
    let nwrites = Arc::new(AtomicU32::new(0));
    let nw2 = nwrites.clone();
    let vt = VTerm::raw(50, 120);
    let target = if c.hidden { ProgressDrawTarget::hidden() } else { ProgressDrawTarget::term_like(vt.boxed()) };
    let mut pb = ProgressBar::with_draw_target(c.len, target).with_position(c.start);
    pb.set_style(
        ProgressStyle::with_template("{pos} {len} {percent} {percent_precise} {bar:10} {bytes} {total_bytes} {eta} {per_sec} {human_pos}/{human_len} {wide_bar}{frac}")
            .unwrap()
            .with_key("frac", move |s: &ProgressState, _w: &mut dyn std::fmt::Write| {
                f2.store(s.fraction().to_bits(), Ordering::SeqCst);
                nw2.fetch_add(1, Ordering::SeqCst);
            }),
    );
    let mut pos = c.start;
    let mut len = c.len;
    let mut on_finish = 2u8; // default AndClear
    let mut v = Verdict::default();
    let mut crossed = false;
    let mut finished = false;
    for (i, op) in c.ops.iter().enumerate() {
        clock::advance(Duration::from_millis(2));
        let before = pos;
        let r = catch(|| match op {
            Op::Inc(d) => pb.inc(*d),
            Op::Dec(d) => pb.dec(*d),
            Op::SetPos(p) => pb.set_position(*p),
            Op::UpdateSetPos(p) => pb.update(|s| s.set_pos(*p)),
            Op::Reset => pb.reset(),
            Op::Finish => pb.finish(),
            Op::FinishWithMessage => pb.finish_with_message("fin"),
            Op::FinishAndClear => pb.finish_and_clear(),
            Op::Abandon => pb.abandon(),
            Op::AbandonWithMessage => pb.abandon_with_message("ab"),
            Op::FinishUsingStyle => pb.finish_using_style(),
            Op::SetLen(l) => pb.set_length(*l),
            Op::UpdateSetLen(l) => pb.update(|s| s.set_len(*l)),
            Op::IncLen(d) => pb.inc_length(*d),
            Op::DecLen(d) => pb.dec_length(*d),
            Op::UnsetLen => pb.unset_length(),
            Op::Tick => pb.tick(),
            Op::WithFinish(_) => {}
            Op::ResetEta => pb.reset_eta(),
            Op::ResetElapsed => pb.reset_elapsed(),
            Op::SetMessage => pb.set_message("m\tn"),
            Op::SetPrefix => pb.set_prefix("p"),
            Op::Println => pb.println("log"),
            Op::Suspend => pb.suspend(|| ()),
            Op::SetStyle => pb.set_style(pb.style()),
            Op::SetTabWidth(w) => pb.set_tab_width(*w as usize),
            Op::ForceDraw => pb.force_draw(),
            Op::CloneAndDrop => drop(pb.clone()),
            Op::SeekCurrentZero(k) => {
                use std::io::Seek;
                let mut cur = std::io::Cursor::new(vec![0u8; 300]);
                cur.set_position(*k as u64);
                let mut wrapped = pb.wrap_read(cur);
                let at = wrapped.seek(std::io::SeekFrom::Current(0)).expect("cursor seek");
                assert_eq!(at, *k as u64);
            }
            Op::ReadToString(have, n) => {
                use std::io::Read;
                let mut text = "x".repeat(*have as usize);
                let got = pb.wrap_read(std::io::Cursor::new(vec![b'a'; *n as usize])).read_to_string(&mut text).expect("cursor read");
                assert_eq!(got, *n as usize);
            }
            Op::AsyncReadPrefilled(have, n) => {
                use tokio::io::AsyncRead;
                let data = vec![b'd'; *n as usize];
                let mut rd = pb.wrap_async_read(&data[..]);
                let mut storage = vec![0u8; *have as usize + *n as usize + 3];
                let mut buf = tokio::io::ReadBuf::new(&mut storage);
                buf.put_slice(&vec![b'x'; *have as usize]);
                let mut cx = std::task::Context::from_waker(std::task::Waker::noop());
                let r = std::pin::Pin::new(&mut rd).poll_read(&mut cx, &mut buf);
                assert!(matches!(r, std::task::Poll::Ready(Ok(()))));
                assert_eq!(buf.filled().len(), *have as usize + *n as usize);
            }
            Op::AsyncWriteVectored(a, b, c2) => {
                use tokio::io::AsyncWrite;
                let mut wr = pb.wrap_async_write(Vec::<u8>::new());
                let mut cx = std::task::Context::from_waker(std::task::Waker::noop());
                let first = vec![b'a'; *a as usize];
                let r = std::pin::Pin::new(&mut wr).poll_write(&mut cx, &first);
                assert!(matches!(r, std::task::Poll::Ready(Ok(n)) if n == *a as usize));
                let (x, y) = (vec![b'b'; *b as usize], vec![b'c'; *c2 as usize]);
                let slices = [std::io::IoSlice::new(&x), std::io::IoSlice::new(&y)];
                let r = std::pin::Pin::new(&mut wr).poll_write_vectored(&mut cx, &slices);
                // (a Vec takes all slices when it is asked to write vectored; through the default
                // implementation only the first non-empty one - either way the returned count is what counts)
                let written = match r {
                    std::task::Poll::Ready(Ok(n)) => n,
                    other => panic!("poll_write_vectored into a Vec returned {other:?}"),
                };
                ASYNC_VECTORED_WRITTEN.with(|w| w.set(*a as u64 + written as u64));
            }
            Op::WriteAllFailing(n, accept) => {
                use std::io::Write;
                struct Sink(usize, usize);
                impl Write for Sink {
                    fn write(&mut self, b: &[u8]) -> std::io::Result<usize> {
                        if self.0 >= self.1 {
                            return Err(std::io::Error::new(std::io::ErrorKind::Other, "scripted: sink closed"));
                        }
                        let k = b.len().min(3).min(self.1 - self.0);
                        self.0 += k;
                        Ok(k)
                    }
                    fn flush(&mut self) -> std::io::Result<()> {
                        Ok(())
                    }
                }
                let r = pb.wrap_write(Sink(0, *accept as usize)).write_all(&vec![7u8; *n as usize]);
                assert_eq!(r.is_ok(), *n <= *accept);
            }
            Op::IterNth { items, k } => {
                let mut it = pb.wrap_iter(0..*items);
                while it.nth(*k as usize).is_some() {}
            }
            Op::IterForEach(items) => {
                let start = pb.position();
                let seen = std::cell::RefCell::new(vec![]);
                pb.wrap_iter(0..*items).for_each(|_| seen.borrow_mut().push(pb.position().wrapping_sub(start)));
                let want: Vec<u64> = (1..=*items as u64).collect();
                assert_eq!(*seen.borrow(), want, "positions seen from inside for_each, relative to the start");
            }
            Op::IterWithPosition(p, items) => {
                let it = pb.wrap_iter(0..*items).with_position(*p);
                assert_eq!(pb.position(), *p, "position() right after ProgressBarIter::with_position({p})");
                it.for_each(drop);
            }
            Op::IterDrain { items, abandon_at, extra } => {
                let mut it = pb.wrap_iter(0..*items);
                let mut j = 0u8;
                while it.next().is_some() {
                    if *abandon_at == Some(j) {
                        pb.abandon();
                    }
                    j += 1;
                }
                for _ in 0..*extra {
                    assert!(it.next().is_none());
                }
            }
        });
        if let Op::WithFinish(k) = op {
            pb = pb.with_finish(finish_of(*k));
            on_finish = *k % 5;
        }
        if let Err(p) = r {
            return Err(Fail::new("panic", format!("op #{i} {op:?} panicked (model pos {pos}, len {len:?}): {p}")));
        }
        match op {
            Op::Inc(d) => pos = pos.wrapping_add(*d),
            Op::Dec(d) => pos = pos.wrapping_sub(*d),
            Op::SetPos(p) | Op::UpdateSetPos(p) => pos = *p,
            Op::SeekCurrentZero(k) => pos = *k as u64,
            Op::ReadToString(_, n) | Op::AsyncReadPrefilled(_, n) => pos = pos.wrapping_add(*n as u64),
            Op::WriteAllFailing(n, accept) => pos = pos.wrapping_add((*n).min(*accept) as u64),
            Op::AsyncWriteVectored(..) => pos = pos.wrapping_add(ASYNC_VECTORED_WRITTEN.with(|w| w.get())),
            Op::IterNth { items, .. } | Op::IterForEach(items) | Op::IterWithPosition(_, items) => {
                if let Op::IterWithPosition(p, _) = op {
                    pos = *p;
                }
                pos = pos.wrapping_add(*items as u64);
                if !finished {
                    finished = true;
                    if on_finish <= 2 {
                        if let Some(l) = len {
                            pos = l
                        }
                    }
                }
            }
            Op::IterDrain { items, abandon_at, .. } => {
                pos = pos.wrapping_add(*items as u64);
                if matches!(abandon_at, Some(j) if j < items) {
                    finished = true;
                }
                if !finished {
                    finished = true;
                    if on_finish <= 2 {
                        if let Some(l) = len {
                            pos = l
                        }
                    }
                }
            }
            Op::Reset => pos = 0,
            Op::Finish | Op::FinishWithMessage | Op::FinishAndClear => {
                if let Some(l) = len {
                    pos = l
                }
            }
            Op::FinishUsingStyle => {
                if on_finish <= 2 {
                    if let Some(l) = len {
                        pos = l
                    }
                }
            }
            Op::Abandon | Op::AbandonWithMessage | Op::Tick | Op::WithFinish(_) => {}
            Op::ResetEta | Op::ResetElapsed | Op::SetMessage | Op::SetPrefix | Op::Println | Op::Suspend | Op::SetStyle | Op::SetTabWidth(_) | Op::ForceDraw | Op::CloneAndDrop => {}
            Op::SetLen(l) | Op::UpdateSetLen(l) => len = Some(*l),
            Op::IncLen(d) => len = len.map(|l| l.saturating_add(*d)),
            Op::DecLen(d) => len = len.map(|l| l.saturating_sub(*d)),
            Op::UnsetLen => len = None,
        }
        match op {
            Op::Finish | Op::FinishWithMessage | Op::FinishAndClear | Op::FinishUsingStyle | Op::Abandon | Op::AbandonWithMessage => finished = true,
            Op::Reset => finished = false,
            _ => {}
        }
        if let Op::Inc(d) = op {
            if before.checked_add(*d).is_none() {
                crossed = true;
            }
        }
        if let Op::Dec(d) = op {
            if before < *d {
                crossed = true;
            }
        }
        let (gp, gl) = catch(|| (pb.position(), pb.length())).map_err(|p| Fail::new("panic", format!("getter panicked after op #{i} {op:?}: {p}")))?;
        let kind = match op {
            Op::Finish | Op::FinishWithMessage | Op::FinishAndClear | Op::FinishUsingStyle | Op::Abandon | Op::AbandonWithMessage | Op::IterDrain { .. } | Op::IterNth { .. } | Op::IterForEach(_) | Op::IterWithPosition(..) => "position_finish",
            _ => "position",
        };
        ensure!(gp == pos, kind, "after op #{i} {op:?}: position() = {gp}, history defines {pos} (ops {:?})", &c.ops[..=i]);
        ensure!(gl == len, "length", "after op #{i} {op:?}: length() = {gl:?}, history defines {len:?}");
        ensure!(pb.is_finished() == finished, "harness", "after op #{i} {op:?}: is_finished() = {}, the model says {finished}", pb.is_finished());
        // fraction as seen by a draw (forced, so that the key is evaluated now unless the bar is cleared)
        let before_writes = nwrites.load(Ordering::SeqCst);
        catch(|| pb.force_draw()).map_err(|p| Fail::new("panic", format!("draw panicked after op #{i} {op:?} (pos {pos}, len {len:?}): {p}")))?;
        if nwrites.load(Ordering::SeqCst) > before_writes {
            let f = f32::from_bits(frac.load(Ordering::SeqCst));
            ensure!((0.0..=1.0).contains(&f), "fraction", "fraction() = {f} outside [0,1] at pos {pos}, len {len:?}");
            match len {
                None => ensure!(f == 0.0, "fraction", "fraction() = {f} for unknown length (pos {pos})"),
                Some(0) => ensure!(f == 1.0, "fraction", "fraction() = {f} for zero length (pos {pos})"),
                Some(l) if pos >= l => ensure!(f == 1.0, "fraction", "fraction() = {f} at pos {pos} >= len {l}"),
                Some(l) if pos == 0 => ensure!(f == 0.0, "fraction", "fraction() = {f} at position 0 (len {l})"),
                _ => {}
            }
            v.label("fraction_observed");
            // the completed fraction as it is painted: {percent} and {percent_precise} stay within 0..=100
            if let Ok(lines) = vt.last_frame_lines() {
                if let Some(l) = lines.first() {
                    let toks: Vec<&str> = l.split_whitespace().collect();
                    if toks.len() > 3 {
                        let (p, pp) = (toks[2].parse::<f64>(), toks[3].parse::<f64>());
                        ensure!(
                            matches!((&p, &pp), (Ok(a), Ok(b)) if (0.0..=100.0).contains(a) && (0.0..=100.0).contains(b)),
                            "percent_range",
                            "after op #{i} {op:?} (pos {pos}, len {len:?}): painted {{percent}} {{percent_precise}} = {:?} {:?}, outside 0..=100",
                            toks[2],
                            toks[3]
                        );
                        let full = len == Some(0) || matches!(len, Some(l) if pos >= l);
                        if full || len.is_none() {
                            let want = if full { 100.0 } else { 0.0 };
                            ensure!(p == Ok(want) && pp == Ok(want), "percent_range", "after op #{i} {op:?} (pos {pos}, len {len:?}): painted percent {:?} / {:?}, expected {want}", toks[2], toks[3]);
                        }
                        v.label("painted_percent_checked");
                    }
                }
            }
        }
    }
    v.nontrivial = crossed;
    v.label_if(crossed, "wrapped_u64_boundary");
    v.label_if(c.ops.iter().any(|o| matches!(o, Op::Reset)), "reset");
    v.label_if(c.ops.iter().any(|o| matches!(o, Op::Finish | Op::FinishWithMessage | Op::FinishAndClear | Op::FinishUsingStyle)), "finish");
    v.label_if(c.ops.iter().any(|o| matches!(o, Op::IncLen(_) | Op::DecLen(_))), "len_saturating");
    v.label_if(c.hidden, "hidden_target");
    v.label_if(c.ops.iter().any(|o| matches!(o, Op::ResetEta | Op::ResetElapsed)), "unrelated_calls_interleaved");
    v.label_if(c.ops.iter().any(|o| matches!(o, Op::ReadToString(h, n) if *h > 0 && *n > 0)), "read_to_string_appending");
    v.label_if(c.ops.iter().any(|o| matches!(o, Op::IterDrain { .. })), "iterator_adaptor_drained");
    v.label_if(c.ops.iter().any(|o| matches!(o, Op::WriteAllFailing(n, a) if *a > 0 && a < n)), "write_all_failed_midway");
    v.label_if(c.ops.iter().any(|o| matches!(o, Op::IterNth { items, k } if *items > 0 && (*items as u16) % (*k as u16 + 1) != 0)), "nth_ran_past_the_end");
    v.label_if(c.ops.iter().any(|o| matches!(o, Op::AsyncReadPrefilled(h, n) if *h > 0 && *n > 0)), "async_read_into_partly_filled_buffer");
    v.label_if(c.ops.iter().any(|o| matches!(o, Op::AsyncWriteVectored(_, b, c2) if *b > 0 && *c2 > 0)), "async_vectored_write");
    Ok(v)
}

fn hist_strategy(tier: Tier) -> BoxedStrategy<HistCase> {
    let n = tier.pick(30, 60);
    (proptest::option::weighted(0.85, special_u64()), special_u64(), proptest::collection::vec(op_strategy(), 0..n), proptest::bool::weighted(0.2))
        .prop_map(|(len, start, ops, hidden)| HistCase { len, start, ops, hidden })
        .boxed()
}

// ------------------------------------------------------------------------------------------
// concurrent increments

#[derive(Debug, Clone, Serialize, Deserialize)]
pub struct ThreadPlan {
    n_ops: u32,
    deltas: Vec<u64>,
    /// bit i%64 set = the i-th op is a dec
    dec_mask: u64,
    /// use a clone of the handle (true) or a shared reference (false)
    clone: bool,
    /// every 4th op additionally adjusts the length: inc_length(3), every 12th dec_length(1)
    #[serde(default)]
    len_ops: bool,
}

#[derive(Debug, Clone, Serialize, Deserialize)]
pub struct ConcCase {
    start: u64,
    threads: Vec<ThreadPlan>,
    visible: bool,
    /// one extra thread that only draws / reads
    reader: bool,
    /// afterwards a rayon pipeline over this many items is driven from the back through the bar
    /// (`progress_with(..).rev()`): every item a worker takes is one more increment
    #[serde(default)]
    rayon_rev: u16,
    /// afterwards a rayon pipeline over this many items that stops early (`find_any` / `find_first` /
    /// `any`): every item the adaptor hands on is one increment, items never taken are none
    #[serde(default)]
    rayon_find: u16,
    /// the bar starts at its length, so that concurrent inc and dec calls keep crossing it while the reader
    /// looks at the completed fraction
    #[serde(default)]
    cross: bool,
}

fn run_conc(c: &ConcCase) -> CaseResult {
    let vt = VTerm::raw(50, 80);
    let target = if c.visible { ProgressDrawTarget::term_like(vt.boxed()) } else { ProgressDrawTarget::hidden() };
    const LEN0: u64 = 1 << 40;
    let start = if c.cross { LEN0 } else { c.start };
    let pb = ProgressBar::with_draw_target(Some(LEN0), target).with_position(start);
    let mut expect = start;
    let bad_fraction = std::sync::atomic::AtomicU32::new(0);
    let mut expect_len = LEN0;
    for t in &c.threads {
        for i in 0..t.n_ops as usize {
            let d = t.deltas[i % t.deltas.len()];
            if t.dec_mask >> (i % 64) & 1 == 1 {
                expect = expect.wrapping_sub(d);
            } else {
                expect = expect.wrapping_add(d);
            }
            if t.len_ops && i % 4 == 3 {
                if i % 12 == 11 {
                    expect_len -= 1;
                } else {
                    expect_len += 3;
                }
            }
        }
    }
    let stop = std::sync::atomic::AtomicBool::new(false);
    let barrier = std::sync::Barrier::new(c.threads.len());
    let r = catch(|| {
        std::thread::scope(|s| {
            let mut hs = vec![];
            for t in &c.threads {
                let h = if t.clone { Some(pb.clone()) } else { None };
                let pbr = &pb;
                let barrier = &barrier;
                hs.push(s.spawn(move || {
                    let p: &ProgressBar = h.as_ref().unwrap_or(pbr);
                    barrier.wait();
                    for i in 0..t.n_ops as usize {
                        let d = t.deltas[i % t.deltas.len()];
                        if t.dec_mask >> (i % 64) & 1 == 1 {
                            p.dec(d);
                        } else {
                            p.inc(d);
                        }
                        if t.len_ops && i % 4 == 3 {
                            if i % 12 == 11 {
                                p.dec_length(1);
                            } else {
                                p.inc_length(3);
                            }
                        }
                    }
                }));
            }
            if c.reader {
                let pbr = &pb;
                let stop = &stop;
                let bad = &bad_fraction;
                s.spawn(move || {
                    while !stop.load(Ordering::Relaxed) {
                        pbr.tick();
                        let _ = pbr.position();
                        // the completed fraction as a caller sees it (update closure = what a custom key is handed)
                        let mut f = 0f32;
                        pbr.update(|st| f = st.fraction());
                        if !(0.0..=1.0).contains(&f) {
                            bad.store(f.to_bits().max(1), Ordering::Relaxed);
                        }
                        std::thread::yield_now();
                    }
                });
            }
            for h in hs {
                h.join().unwrap();
            }
            stop.store(true, Ordering::Relaxed);
        });
    });
    stop.store(true, Ordering::Relaxed);
    r.map_err(|p| Fail::new("panic", format!("concurrent inc/dec panicked: {p}")))?;
    let bad = bad_fraction.load(Ordering::Relaxed);
    ensure!(bad == 0, "fraction", "while {} threads moved the position across the length, fraction() returned {} (outside [0,1])", c.threads.len(), f32::from_bits(bad));
    if c.rayon_rev > 0 {
        use indicatif::ParallelProgressIterator;
        use rayon::prelude::*;
        let items: Vec<u32> = (0..c.rayon_rev as u32).collect();
        let pb2 = pb.clone();
        let seen = std::sync::atomic::AtomicU64::new(0);
        catch(|| {
            items.into_par_iter().progress_with(pb2).rev().for_each(|_| {
                seen.fetch_add(1, Ordering::Relaxed);
            })
        })
        .map_err(|p| Fail::new("panic", format!("rayon rev pipeline panicked: {p}")))?;
        ensure!(seen.load(Ordering::Relaxed) == c.rayon_rev as u64, "harness", "rayon pipeline lost items");
        expect = expect.wrapping_add(c.rayon_rev as u64);
    }
    if c.rayon_find > 0 {
        use indicatif::ParallelProgressIterator;
        use rayon::prelude::*;
        let n = c.rayon_find as u32;
        let items: Vec<u32> = (0..n).collect();
        let target = n / 3;
        let passed = std::sync::atomic::AtomicU64::new(0);
        let tap = |x: u32| {
            passed.fetch_add(1, Ordering::SeqCst);
            x
        };
        let before = pb.position();
        catch(|| match n % 3 {
            0 => assert_eq!(items.par_iter().copied().progress_with(pb.clone()).map(tap).find_any(|x| *x == target), Some(target)),
            1 => assert_eq!(items.par_iter().copied().progress_with(pb.clone()).map(tap).find_first(|x| *x >= target), Some(target)),
            _ => assert!(items.par_iter().copied().progress_with(pb.clone()).map(tap).any(|x| x == target)),
        })
        .map_err(|p| Fail::new("panic", format!("short-circuiting rayon pipeline over {n} items panicked: {p}")))?;
        let passed = passed.load(Ordering::SeqCst);
        let got = pb.position();
        ensure!(
            got == before.wrapping_add(passed),
            "lost_update",
            "a rayon pipeline over {n} items that stops early handed {passed} items on, position() went from {before} to {got}"
        );
        expect = expect.wrapping_add(passed);
    }
    let got = pb.position();
    ensure!(got == expect, "lost_update", "after {} threads finished: position() = {got}, the sum of all deltas gives {expect}", c.threads.len());
    let got_len = pb.length();
    ensure!(got_len == Some(expect_len), "lost_length_update", "after {} threads finished: length() = {got_len:?}, the inc_length/dec_length calls add up to {expect_len}", c.threads.len());
    let mut v = Verdict::default();
    v.nontrivial = c.threads.len() >= 2;
    v.label_if(c.threads.len() >= 2, "two_or_more_threads");
    v.label_if(c.threads.iter().any(|t| t.dec_mask != 0) && c.threads.iter().any(|t| t.dec_mask != u64::MAX), "inc_and_dec_mixed");
    v.label_if(c.threads.iter().any(|t| t.clone), "clones");
    v.label_if(c.reader, "concurrent_reader");
    v.label_if(c.rayon_rev > 0, "rayon_pipeline_driven_from_the_back");
    v.label_if(c.rayon_find > 1, "rayon_pipeline_that_stops_early");
    v.label_if(c.cross && c.reader && c.threads.iter().any(|t| t.dec_mask != 0) && c.threads.iter().any(|t| t.dec_mask != u64::MAX), "fraction_read_while_the_position_crosses_the_length");
    v.label_if(c.threads.iter().filter(|t| t.len_ops).count() >= 2, "concurrent_length_adjustments");
    Ok(v)
}

fn conc_strategy(tier: Tier) -> BoxedStrategy<ConcCase> {
    let max_ops = tier.pick(20_000u32, 100_000);
    let plan = (
        100u32..max_ops,
        proptest::collection::vec(prop_oneof![3 => 1u64..5, 1 => special_u64()], 1..4),
        prop_oneof![Just(0u64), Just(u64::MAX), any::<u64>(), Just(0xAAAA_AAAA_AAAA_AAAA)],
        any::<bool>(),
        any::<bool>(),
    )
        .prop_map(|(n_ops, deltas, dec_mask, clone, len_ops)| ThreadPlan { n_ops, deltas, dec_mask, clone, len_ops });
    (special_u64(), proptest::collection::vec(plan, 1..=16), any::<bool>(), any::<bool>(), prop_oneof![1 => Just(0u16), 1 => 1u16..3000], prop_oneof![1 => Just(0u16), 1 => 1u16..3000])
        .prop_map(|(start, threads, visible, reader, rayon_rev, rayon_find)| ConcCase { cross: reader && start % 2 == 1, start, threads, visible, reader, rayon_rev, rayon_find })
        .boxed()
}

fn decode_hist(u: &mut FuzzInput) -> HistCase {
    let len = if u.n(6) == 0 { None } else { Some(u.special_u64()) };
    let start = u.special_u64();
    let hidden = u.n(4) == 0;
    let mut ops = vec![];
    while !u.empty() && ops.len() < 60 {
        ops.push(match u.n(33) {
            0..=4 => Op::Inc(u.special_u64()),
            5 | 6 => Op::Dec(u.special_u64()),
            7 | 8 => Op::SetPos(u.special_u64()),
            9 => Op::UpdateSetPos(u.special_u64()),
            10 => Op::Reset,
            11 => Op::Finish,
            12 => Op::FinishWithMessage,
            13 => Op::FinishAndClear,
            14 => Op::Abandon,
            15 => Op::AbandonWithMessage,
            16 => Op::FinishUsingStyle,
            17 | 18 => Op::SetLen(u.special_u64()),
            19 => Op::UpdateSetLen(u.special_u64()),
            20 => Op::IncLen(u.special_u64()),
            21 => Op::DecLen(u.special_u64()),
            22 => Op::UnsetLen,
            23 => Op::Tick,
            24 => Op::WithFinish(u.n(4) as u8),
            25 => Op::ResetEta,
            26 => Op::ResetElapsed,
            27 => [Op::SetMessage, Op::SetPrefix, Op::Println, Op::Suspend][u.n(3)].clone(),
            28 => Op::SetStyle,
            29 => Op::SetTabWidth(u.n(12) as u8),
            30 => Op::ForceDraw,
            31 if u.bool() => Op::SeekCurrentZero(u.u8()),
            32 if u.bool() => Op::ReadToString(u.n(19) as u8, u.n(39) as u8),
            33 => Op::IterDrain { items: u.n(5) as u8, abandon_at: if u.bool() { Some(u.n(5) as u8) } else { None }, extra: u.n(2) as u8 },
            _ => Op::CloneAndDrop,
        });
    }
    HistCase { len, start, ops, hidden }
}

pub fn property() -> Property {
    let w = default_workers();
    Property {
        id: "C07",
        level: "exploration",
        assumptions: &[
            "finish_using_style follows the stored ProgressFinish (finish variants move the position to a known length, abandon variants do not)",
            "the concurrent part runs on real OS threads: which interleavings occur is up to the machine (16 cores); the schedule-controlled variant of the same law is part of the C08 harness",
        ],
        parts: vec![
            Box::new(Gen::<HistCase> {
                name: "history",
                rule: "0-30 (thorough 60) ops from inc/dec/set_position/update/reset/finish*/abandon*/finish_using_style/set_length/inc_length/dec_length/unset_length, the reader adaptor (seek(Current(0)), read_to_string into a non-empty String), the tokio reader adaptor polled into a partly filled ReadBuf, the writer adaptor's write_all into a sink that fails midway and the iterator adaptor (also driven by nth() past its end; drained, abandoned from the loop body, polled again after its end) with arguments from {0,1,2,2^24,2^32+-1,2^63+-1,u64::MAX-1,u64::MAX,random}, rendered with pos/len/percent/bar/bytes/eta/per_sec keys; after every op position()/length() vs wrapping/saturating model, fraction in [0,1] (1 for len 0, 0 for unknown) read through a custom key; non-trivial = the history wraps past 0 or u64::MAX",
                strategy: hist_strategy,
                cases: |t| t.pick(6_000, 300_000),
                run: run_hist,
                signature: no_signature,
                essential: &["wrapped_u64_boundary", "reset", "finish", "len_saturating", "hidden_target", "unrelated_calls_interleaved", "read_to_string_appending", "iterator_adaptor_drained", "async_read_into_partly_filled_buffer", "write_all_failed_midway", "nth_ran_past_the_end", "async_vectored_write"],
                workers: w,
                decode: Some(decode_hist),
            }),
            Box::new(Gen::<ConcCase> {
                name: "threads",
                rule: "1-16 real threads on clones/shared refs of one bar, each 100..20000 (thorough 100000) inc/dec calls with generated deltas and inc/dec pattern, optional concurrent tick/position reader; final position must equal the wrapping sum; non-trivial = >= 2 threads",
                strategy: conc_strategy,
                cases: |t| t.pick(60, 1_500),
                run: run_conc,
                signature: no_signature,
                essential: &["two_or_more_threads", "inc_and_dec_mixed", "clones", "concurrent_reader", "concurrent_length_adjustments", "rayon_pipeline_driven_from_the_back", "rayon_pipeline_that_stops_early", "fraction_read_while_the_position_crosses_the_length"],
                workers: 2,
                decode: None,
            }),
        ],
    }
}
