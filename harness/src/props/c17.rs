//! C17 Iterator and I/O adaptors are transparent and count exactly.
use std::collections::VecDeque;
use std::io::{self, BufRead, IoSlice, IoSliceMut, Read, Seek, SeekFrom, Write};
use std::pin::Pin;
use std::sync::atomic::{AtomicU64, Ordering};
use std::sync::{Arc, Mutex};
use std::task::{Context, Poll, Waker};

use indicatif::{ParallelProgressIterator, ProgressBar, ProgressDrawTarget, ProgressFinish, ProgressIterator};
use proptest::prelude::*;
use rayon::prelude::*;
use serde::{Deserialize, Serialize};

use crate::ensure;
use crate::runner::*;

const KINDS: [io::ErrorKind; 5] = [
    io::ErrorKind::Interrupted,
    io::ErrorKind::WouldBlock,
    io::ErrorKind::Other,
    io::ErrorKind::UnexpectedEof,
    io::ErrorKind::BrokenPipe,
];

/// scripted result of the next primitive call of the underlying object
#[derive(Debug, Clone, Copy, Serialize, Deserialize, PartialEq)]
pub enum Res {
    Full,
    Short(u16),
    Zero,
    Err(u8),
    /// async only
    Pending,
}

fn res_strategy(allow_pending: bool) -> BoxedStrategy<Res> {
    if allow_pending {
        prop_oneof![4 => Just(Res::Full), 4 => (1u16..40).prop_map(Res::Short), 1 => Just(Res::Zero), 2 => (0u8..5).prop_map(Res::Err), 3 => Just(Res::Pending)].boxed()
    } else {
        prop_oneof![4 => Just(Res::Full), 4 => (1u16..40).prop_map(Res::Short), 1 => Just(Res::Zero), 2 => (0u8..5).prop_map(Res::Err)].boxed()
    }
}

fn hidden_bar(len: Option<u64>) -> ProgressBar {
    ProgressBar::with_draw_target(len, ProgressDrawTarget::hidden())
}

// ------------------------------------------------------------------------------------------
// scripted source / sink (sync and async views over the same state)

#[derive(Debug)]
struct St {
    data: Vec<u8>,
    pos: usize,
    script: VecDeque<Res>,
    /// bytes handed out by read / consumed through the BufRead interface
    delivered: u64,
    /// bytes currently exposed by fill_buf
    filled: usize,
    /// sink side
    accepted: Vec<u8>,
    seek_target: Option<u64>,
}

#[derive(Debug, Clone)]
struct Obj {
    st: Arc<Mutex<St>>,
    /// what fill_buf currently exposes
    buf: Vec<u8>,
}

impl Obj {
    fn new(data_len: usize, script: &[Res]) -> Self {
        let st = Arc::new(Mutex::new(St {
            data: (0..data_len).map(|i| b'a' + (i % 26) as u8).collect(),
            pos: 0,
            script: script.iter().copied().collect(),
            delivered: 0,
            filled: 0,
            accepted: vec![],
            seek_target: None,
        }));
        Obj { st, buf: vec![] }
    }
    fn st(&self) -> std::sync::MutexGuard<'_, St> {
        self.st.lock().unwrap()
    }
    fn next(&self) -> Res {
        self.st().script.pop_front().unwrap_or(Res::Full)
    }
    fn do_read(&self, buf: &mut [u8], r: Res) -> io::Result<usize> {
        let mut s = self.st();
        let rem = s.data.len().saturating_sub(s.pos);
        let n = match r {
            Res::Full | Res::Pending => buf.len().min(rem),
            Res::Short(k) => (k as usize).min(buf.len()).min(rem),
            Res::Zero => 0,
            Res::Err(k) => return Err(io::Error::new(KINDS[k as usize % 5], "scripted")),
        };
        let p = s.pos;
        if n > 0 {
            buf[..n].copy_from_slice(&s.data[p..p + n]);
        }
        s.pos += n;
        s.filled = 0;
        s.delivered += n as u64;
        Ok(n)
    }
    fn do_fill(&self, r: Res) -> io::Result<(usize, usize)> {
        let mut s = self.st();
        if s.filled == 0 {
            let rem = s.data.len().saturating_sub(s.pos);
            s.filled = match r {
                Res::Full | Res::Pending => rem.min(64),
                Res::Short(k) => (k as usize).min(rem),
                Res::Zero => 0,
                Res::Err(k) => return Err(io::Error::new(KINDS[k as usize % 5], "scripted")),
            };
        }
        Ok((s.pos, s.filled))
    }
    fn do_consume(&self, amt: usize) {
        let mut s = self.st();
        let amt = amt.min(s.filled);
        s.pos += amt;
        s.filled -= amt;
        s.delivered += amt as u64;
    }
    fn do_write(&self, buf: &[u8], r: Res) -> io::Result<usize> {
        let mut s = self.st();
        let n = match r {
            Res::Full | Res::Pending => buf.len(),
            Res::Short(k) => (k as usize).min(buf.len()),
            Res::Zero => 0,
            Res::Err(k) => return Err(io::Error::new(KINDS[k as usize % 5], "scripted")),
        };
        s.accepted.extend_from_slice(&buf[..n]);
        Ok(n)
    }
    fn do_seek(&self, f: SeekFrom, r: Res) -> io::Result<u64> {
        if let Res::Err(k) = r {
            return Err(io::Error::new(KINDS[k as usize % 5], "scripted"));
        }
        let mut s = self.st();
        let new = match f {
            SeekFrom::Start(n) => Some(n as i128),
            SeekFrom::Current(d) => Some(s.pos as i128 + d as i128),
            SeekFrom::End(d) => Some(s.data.len() as i128 + d as i128),
        }
        .filter(|n| (0..=1 << 40).contains(n))
        .ok_or_else(|| io::Error::new(io::ErrorKind::InvalidInput, "bad seek"))?;
        s.pos = new as usize;
        s.filled = 0;
        Ok(new as u64)
    }
}

impl Read for Obj {
    fn read(&mut self, buf: &mut [u8]) -> io::Result<usize> {
        let r = self.next();
        self.do_read(buf, r)
    }
}
impl BufRead for Obj {
    fn fill_buf(&mut self) -> io::Result<&[u8]> {
        let r = if self.st().filled == 0 { self.next() } else { Res::Full };
        let (p, n) = self.do_fill(r)?;
        let chunk = if n > 0 { self.st().data[p..p + n].to_vec() } else { vec![] };
        self.buf = chunk;
        Ok(&self.buf)
    }
    fn consume(&mut self, amt: usize) {
        self.do_consume(amt)
    }
}

impl Seek for Obj {
    fn seek(&mut self, f: SeekFrom) -> io::Result<u64> {
        let r = self.next();
        self.do_seek(f, r)
    }
}
impl Write for Obj {
    fn write(&mut self, buf: &[u8]) -> io::Result<usize> {
        let r = self.next();
        self.do_write(buf, r)
    }
    fn flush(&mut self) -> io::Result<()> {
        match self.next() {
            Res::Err(k) => Err(io::Error::new(KINDS[k as usize % 5], "scripted")),
            _ => Ok(()),
        }
    }
}

// async views
impl tokio::io::AsyncRead for Obj {
    fn poll_read(self: Pin<&mut Self>, _cx: &mut Context<'_>, buf: &mut tokio::io::ReadBuf<'_>) -> Poll<io::Result<()>> {
        let r = self.next();
        if r == Res::Pending {
            return Poll::Pending;
        }
        let mut tmp = vec![0u8; buf.remaining()];
        let n = self.do_read(&mut tmp, r)?;
        buf.put_slice(&tmp[..n]);
        Poll::Ready(Ok(()))
    }
}
impl tokio::io::AsyncBufRead for Obj {
    fn poll_fill_buf(self: Pin<&mut Self>, _cx: &mut Context<'_>) -> Poll<io::Result<&[u8]>> {
        let this = self.get_mut();
        let r = if this.st().filled == 0 { this.next() } else { Res::Full };
        if r == Res::Pending {
            return Poll::Pending;
        }
        let (p, n) = this.do_fill(r)?;
        let chunk = if n > 0 { this.st().data[p..p + n].to_vec() } else { vec![] };
        this.buf = chunk;
        Poll::Ready(Ok(&this.buf))
    }
    fn consume(self: Pin<&mut Self>, amt: usize) {
        self.do_consume(amt)
    }
}
impl tokio::io::AsyncWrite for Obj {
    fn poll_write(self: Pin<&mut Self>, _cx: &mut Context<'_>, buf: &[u8]) -> Poll<io::Result<usize>> {
        let r = self.next();
        if r == Res::Pending {
            return Poll::Pending;
        }
        Poll::Ready(self.do_write(buf, r))
    }
    fn poll_flush(self: Pin<&mut Self>, _cx: &mut Context<'_>) -> Poll<io::Result<()>> {
        match self.next() {
            Res::Pending => Poll::Pending,
            Res::Err(k) => Poll::Ready(Err(io::Error::new(KINDS[k as usize % 5], "scripted"))),
            _ => Poll::Ready(Ok(())),
        }
    }
    fn poll_shutdown(self: Pin<&mut Self>, cx: &mut Context<'_>) -> Poll<io::Result<()>> {
        self.poll_flush(cx)
    }
}
impl tokio::io::AsyncSeek for Obj {
    fn start_seek(self: Pin<&mut Self>, position: SeekFrom) -> io::Result<()> {
        let r = self.next();
        let p = self.do_seek(position, r)?;
        self.st().seek_target = Some(p);
        Ok(())
    }
    fn poll_complete(self: Pin<&mut Self>, _cx: &mut Context<'_>) -> Poll<io::Result<u64>> {
        match self.next() {
            Res::Pending => Poll::Pending,
            Res::Err(k) => Poll::Ready(Err(io::Error::new(KINDS[k as usize % 5], "scripted"))),
            _ => {
                let s = self.st();
                Poll::Ready(Ok(s.seek_target.unwrap_or(s.pos as u64)))
            }
        }
    }
}

fn kind_of<T>(r: &io::Result<T>) -> Option<io::ErrorKind> {
    r.as_ref().err().map(|e| e.kind())
}

// ------------------------------------------------------------------------------------------
// sync reader / writer part

#[derive(Debug, Clone, Serialize, Deserialize)]
pub enum IoOp {
    Read(u16),
    ReadVectored(Vec<u16>),
    ReadExact(u16),
    ReadToString,
    ReadLine,
    FillBuf,
    /// per mille of the available buffer
    Consume(u16),
    SeekStart(u32),
    SeekCurrent(i32),
    SeekEnd(i32),
    StreamPosition,
    /// Seek::seek_relative: like any seek, sets the position to the offset the stream stands at afterwards
    SeekRelative(i32),
    /// Seek::rewind(): back to offset 0, and so is the bar
    Rewind,
    Write(u16),
    WriteVectored(Vec<u16>),
    WriteAll(u16),
    WriteFmt(u16),
    /// write!/writeln! with a format string that has no arguments (std hands such strings over without formatting)
    WriteLiteral(u8),
    Flush,
}

#[derive(Debug, Clone, Serialize, Deserialize)]
pub struct IoCase {
    data_len: u16,
    script: Vec<Res>,
    ops: Vec<IoOp>,
}

/// position bookkeeping as the caller can derive it from the results it sees
struct Expect {
    pos: u64,
    /// bytes a failed multi-step call consumed without reporting them (may or may not be counted)
    slack: u64,
}

fn run_io(c: &IoCase) -> CaseResult {
    let w_obj = Obj::new(c.data_len as usize, &c.script);
    let mut plain = Obj::new(c.data_len as usize, &c.script);
    let pb = hidden_bar(Some(c.data_len as u64));
    // one adaptor value implements Read + BufRead + Seek + Write
    let mut wrapped = pb.wrap_read(w_obj.clone());
    let mut e = Expect { pos: 0, slack: 0 };
    let mut v = Verdict::default();
    // read_to_string / read_line append to strings that are kept across calls
    let (mut acc1, mut acc2) = (String::new(), String::new());
    for (i, op) in c.ops.iter().enumerate() {
        let before = w_obj.st().delivered;
        let ctx = format!("op #{i} {op:?}");
        macro_rules! same {
            ($a:expr, $b:expr) => {{
                let (a, b) = (&$a, &$b);
                ensure!(
                    kind_of(a) == kind_of(b) && a.as_ref().ok() == b.as_ref().ok(),
                    "transparency",
                    "{ctx}: wrapped returned {:?}, the unwrapped twin {:?}",
                    a,
                    b
                );
            }};
        }
        match op {
            IoOp::Read(n) => {
                let (mut b1, mut b2) = (vec![0u8; *n as usize], vec![0u8; *n as usize]);
                let (r1, r2) = (wrapped.read(&mut b1), plain.read(&mut b2));
                same!(r1, r2);
                ensure!(b1 == b2, "transparency", "{ctx}: data differs");
                if let Ok(k) = r1 {
                    e.pos += k as u64;
                    v.label_if(k < *n as usize, "short_transfer");
                } else {
                    v.label("error");
                }
            }
            IoOp::ReadVectored(ls) => {
                let mut a: Vec<Vec<u8>> = ls.iter().map(|l| vec![0u8; *l as usize]).collect();
                let mut b = a.clone();
                let r1 = {
                    let mut s: Vec<IoSliceMut> = a.iter_mut().map(|x| IoSliceMut::new(x)).collect();
                    wrapped.read_vectored(&mut s)
                };
                let r2 = {
                    let mut s: Vec<IoSliceMut> = b.iter_mut().map(|x| IoSliceMut::new(x)).collect();
                    plain.read_vectored(&mut s)
                };
                same!(r1, r2);
                ensure!(a == b, "transparency", "{ctx}: data differs");
                if let Ok(k) = r1 {
                    e.pos += k as u64;
                    v.label("vectored");
                }
            }
            IoOp::ReadExact(n) => {
                let (mut b1, mut b2) = (vec![0u8; *n as usize], vec![0u8; *n as usize]);
                let (r1, r2) = (wrapped.read_exact(&mut b1), plain.read_exact(&mut b2));
                same!(r1, r2);
                if r1.is_ok() {
                    ensure!(b1 == b2, "transparency", "{ctx}: data differs");
                    e.pos += *n as u64;
                } else {
                    e.slack += w_obj.st().delivered - before;
                    v.label("error");
                }
            }
            IoOp::ReadToString => {
                let (r1, r2) = (wrapped.read_to_string(&mut acc1), plain.read_to_string(&mut acc2));
                same!(r1, r2);
                ensure!(acc1 == acc2, "transparency", "{ctx}: data differs");
                v.label_if(acc1.len() > r1.as_ref().map_or(0, |n| *n), "read_into_non_empty_string");
                match r1 {
                    Ok(k) => e.pos += k as u64,
                    Err(_) => e.slack += w_obj.st().delivered - before,
                }
            }
            IoOp::ReadLine => {
                // BufRead::read_line is built from fill_buf/consume
                let (r1, r2) = (wrapped.read_line(&mut acc1), plain.read_line(&mut acc2));
                same!(r1, r2);
                ensure!(acc1 == acc2, "transparency", "{ctx}: data differs");
                // consume() was called for everything that was taken, also on failure
                e.pos += w_obj.st().delivered - before;
            }
            IoOp::FillBuf => {
                let r1 = wrapped.fill_buf().map(|b| b.to_vec());
                let r2 = plain.fill_buf().map(|b| b.to_vec());
                same!(r1, r2);
                v.label("fill_buf");
            }
            IoOp::Consume(pm) => {
                let avail = w_obj.st().filled;
                let k = avail * (*pm as usize % 1001) / 1000;
                wrapped.consume(k);
                plain.consume(k);
                e.pos += k as u64;
                v.label_if(k > 0 && k < avail, "partial_consume");
            }
            IoOp::SeekStart(_) | IoOp::SeekCurrent(_) | IoOp::SeekEnd(_) => {
                let f = match op {
                    IoOp::SeekStart(n) => SeekFrom::Start(*n as u64 % (c.data_len as u64 + 10)),
                    IoOp::SeekCurrent(d) => SeekFrom::Current(*d as i64 % 64),
                    IoOp::SeekEnd(d) => SeekFrom::End(-(d.unsigned_abs() as i64 % (c.data_len as i64 + 3))),
                    _ => unreachable!(),
                };
                let (r1, r2) = (wrapped.seek(f), plain.seek(f));
                same!(r1, r2);
                if let Ok(p) = r1 {
                    e.pos = p;
                    e.slack = 0;
                    v.label("seek");
                }
            }
            IoOp::SeekRelative(d) => {
                let d = *d as i64 % 64;
                let (r1, r2) = (wrapped.seek_relative(d), plain.seek_relative(d));
                same!(r1, r2);
                if r1.is_ok() {
                    let at = w_obj.st().pos as u64;
                    v.label_if(at != e.pos.wrapping_add(d as u64), "relative_seek_while_out_of_step");
                    e.pos = at;
                    e.slack = 0;
                    v.label("seek");
                }
            }
            IoOp::Rewind => {
                let (r1, r2) = (wrapped.rewind(), plain.rewind());
                same!(r1, r2);
                if r1.is_ok() {
                    v.label_if(e.pos != 0, "rewind_from_a_non_zero_offset");
                    e.pos = w_obj.st().pos as u64;
                    e.slack = 0;
                    v.label("seek");
                }
            }
            IoOp::StreamPosition => {
                let (r1, r2) = (wrapped.stream_position(), plain.stream_position());
                same!(r1, r2);
                if let Ok(p) = r1 {
                    // a seek(Current(0)) underneath: sets the position to the offset
                    if pb.position() == p {
                        e.pos = p;
                        e.slack = 0;
                    }
                }
            }
            IoOp::Write(n) => {
                let data: Vec<u8> = (0..*n).map(|x| (x % 251) as u8).collect();
                let (r1, r2) = (wrapped.write(&data), plain.write(&data));
                same!(r1, r2);
                if let Ok(k) = r1 {
                    e.pos += k as u64;
                    v.label_if(k < *n as usize, "short_transfer");
                }
            }
            IoOp::WriteVectored(ls) => {
                let bufs: Vec<Vec<u8>> = ls.iter().map(|l| vec![7u8; *l as usize]).collect();
                let s: Vec<IoSlice> = bufs.iter().map(|b| IoSlice::new(b)).collect();
                let (r1, r2) = (wrapped.write_vectored(&s), plain.write_vectored(&s));
                same!(r1, r2);
                if let Ok(k) = r1 {
                    e.pos += k as u64;
                    v.label("vectored");
                }
            }
            IoOp::WriteAll(n) | IoOp::WriteFmt(n) => {
                let data: String = (0..*n).map(|x| (b'A' + (x % 26) as u8) as char).collect();
                let acc_before = w_obj.st().accepted.len();
                let (r1, r2) = if matches!(op, IoOp::WriteAll(_)) {
                    (wrapped.write_all(data.as_bytes()), plain.write_all(data.as_bytes()))
                } else {
                    (write!(wrapped, "{data}"), write!(plain, "{data}"))
                };
                same!(r1, r2);
                // exactly the bytes that reached the sink, also when the call failed half-way
                e.pos += (w_obj.st().accepted.len() - acc_before) as u64;
                v.label_if(r1.is_err() && w_obj.st().accepted.len() > acc_before, "write_all_failed_midway");
            }
            IoOp::WriteLiteral(k) => {
                let acc_before = w_obj.st().accepted.len();
                let (r1, r2) = match k % 4 {
                    0 => (write!(wrapped, "done"), write!(plain, "done")),
                    1 => (write!(wrapped, "a literal of some length, without any argument\n"), write!(plain, "a literal of some length, without any argument\n")),
                    2 => (writeln!(wrapped), writeln!(plain)),
                    _ => (write!(wrapped, "{{}}"), write!(plain, "{{}}")),
                };
                same!(r1, r2);
                e.pos += (w_obj.st().accepted.len() - acc_before) as u64;
                v.label_if(w_obj.st().accepted.len() > acc_before, "write_of_a_literal");
                v.label_if(r1.is_err() && w_obj.st().accepted.len() > acc_before, "write_all_failed_midway");
            }
            IoOp::Flush => {
                let (r1, r2) = (wrapped.flush(), plain.flush());
                same!(r1, r2);
            }
        }
        {
            let (a, b) = (w_obj.st(), plain.st());
            ensure!(a.pos == b.pos && a.accepted == b.accepted, "transparency", "{ctx}: the underlying objects diverged (offset {} vs {})", a.pos, b.pos);
        }
        let got = pb.position();
        ensure!(
            got <= e.pos && got + e.slack >= e.pos,
            "count",
            "{ctx}: position() = {got}, the calls so far transferred {} bytes{} (ops {:?})",
            e.pos,
            if e.slack > 0 { format!(" (minus up to {} consumed by failed calls)", e.slack) } else { String::new() },
            &c.ops[..=i]
        );
    }
    v.nontrivial = v.labels.iter().any(|l| ["short_transfer", "error", "partial_consume", "write_all_failed_midway"].contains(l));
    Ok(v)
}

fn io_strategy(tier: Tier) -> BoxedStrategy<IoCase> {
    let n = tier.pick(14, 30);
    let lens = || proptest::collection::vec(0u16..20, 0..4);
    let op = prop_oneof![
        4 => (0u16..80).prop_map(IoOp::Read),
        2 => lens().prop_map(IoOp::ReadVectored),
        2 => (0u16..60).prop_map(IoOp::ReadExact),
        1 => Just(IoOp::ReadToString),
        1 => Just(IoOp::ReadLine),
        3 => Just(IoOp::FillBuf),
        3 => (0u16..=1000).prop_map(IoOp::Consume),
        1 => any::<u32>().prop_map(IoOp::SeekStart),
        1 => any::<i32>().prop_map(IoOp::SeekCurrent),
        1 => any::<i32>().prop_map(IoOp::SeekEnd),
        1 => Just(IoOp::StreamPosition),
        1 => any::<i32>().prop_map(IoOp::SeekRelative),
        1 => Just(IoOp::Rewind),
        3 => (0u16..80).prop_map(IoOp::Write),
        2 => lens().prop_map(IoOp::WriteVectored),
        2 => (0u16..80).prop_map(IoOp::WriteAll),
        1 => (0u16..40).prop_map(IoOp::WriteFmt),
        1 => any::<u8>().prop_map(IoOp::WriteLiteral),
        1 => Just(IoOp::Flush),
    ];
    (0u16..400, proptest::collection::vec(res_strategy(false), 0..40), proptest::collection::vec(op, 0..n))
        .prop_map(|(data_len, script, ops)| IoCase { data_len, script, ops })
        .boxed()
}

// ------------------------------------------------------------------------------------------
// iterators

#[derive(Debug, Clone, Serialize, Deserialize)]
pub enum Wrap {
    Progress,
    ProgressCount(u16),
    ProgressWith(Option<u16>),
    TryProgress,
    WrapIter(Option<u16>),
}

#[derive(Debug, Clone, Serialize, Deserialize)]
pub enum ItOp {
    Next,
    NextBack,
    Len,
    /// Iterator::nth(k) (what skip / step_by are built on): k + 1 items are taken, fewer at the end
    Nth(u8),
    /// internal iteration over the rest through by_ref(): 0 count, 1 last, 2 for_each, 3 sum, 4 skip(k).next()
    Rest(u8),
    /// reset() through another handle of the bar: position 0, unfinished; the adaptor keeps counting from
    /// there and the next end of the inner iterator finishes the bar again, the same configured way
    ResetBar,
}

#[derive(Debug, Clone, Serialize, Deserialize)]
pub struct IterCase {
    n: u16,
    wrap: Wrap,
    finish: u8,
    ops: Vec<ItOp>,
    drain: bool,
    /// finally the adaptor itself is consumed by value (the overridable internal-iteration methods are
    /// only reached that way): 1 count, 2 for_each, 3 sum, 4 last, 5 fold, 6 max, 7 rev().count()
    #[serde(default)]
    consume: u8,
    /// instead of all the above: the adaptor wraps a source that is not fused (this script: true = an item,
    /// false = None) and is itself wrapped in `.fuse()`; polled once more than the script is long, it must
    /// yield exactly what `source.fuse()` yields, and the bar counts those items
    #[serde(default)]
    unfused: Option<Vec<bool>>,
}

fn finish_of(k: u8) -> ProgressFinish {
    match k % 5 {
        0 => ProgressFinish::AndLeave,
        1 => ProgressFinish::WithMessage("done".into()),
        2 => ProgressFinish::AndClear,
        3 => ProgressFinish::Abandon,
        _ => ProgressFinish::AbandonWithMessage("left".into()),
    }
}

struct Scripted(std::collections::VecDeque<bool>, u32);
impl Iterator for Scripted {
    type Item = u32;
    fn next(&mut self) -> Option<u32> {
        match self.0.pop_front() {
            Some(true) => {
                self.1 += 1;
                Some(self.1)
            }
            _ => None,
        }
    }
}

fn run_unfused(c: &IterCase, script: &[bool]) -> CaseResult {
    let pb = hidden_bar(None).with_finish(ProgressFinish::Abandon);
    let mut wrapped = Scripted(script.iter().copied().collect(), 0).progress_with(pb.clone()).fuse();
    let mut plain = Scripted(script.iter().copied().collect(), 0).fuse();
    let mut yielded = 0u64;
    for k in 0..=script.len() {
        let (a, b) = (wrapped.next(), plain.next());
        ensure!(a == b, "transparency", "poll #{k} of progress_with(..).fuse() over the unfused source {script:?}: wrapped yielded {a:?}, source.fuse() {b:?}");
        yielded += u64::from(a.is_some());
    }
    ensure!(pb.position() == yielded, "count", "fuse() over the unfused source {script:?}: position() = {}, {yielded} items were yielded", pb.position());
    let _ = c;
    let mut v = Verdict::default();
    v.nontrivial = script.iter().position(|x| !x).map_or(false, |i| script[i..].iter().any(|x| *x));
    v.label_if(v.nontrivial, "unfused_source_yields_again_after_none");
    Ok(v)
}

fn run_iter(c: &IterCase) -> CaseResult {
    if let Some(script) = &c.unfused {
        return run_unfused(c, script);
    }
    let items: Vec<u32> = (0..c.n as u32).map(|x| x * 3 + 1).collect();
    let mut plain = items.clone().into_iter();
    let mk = |l: Option<u16>| hidden_bar(l.map(|x| x as u64)).with_message("start");
    let mut it = match &c.wrap {
        Wrap::Progress => items.clone().into_iter().progress(),
        Wrap::ProgressCount(l) => items.clone().into_iter().progress_count(*l as u64),
        Wrap::ProgressWith(l) => items.clone().into_iter().progress_with(mk(*l)),
        Wrap::TryProgress => items.clone().into_iter().try_progress().ok_or_else(|| Fail::new("transparency", "try_progress returned None for an exact-size iterator"))?,
        Wrap::WrapIter(l) => mk(*l).wrap_iter(items.clone().into_iter()),
    };
    it = it.with_finish(finish_of(c.finish));
    let pb = it.progress.clone();
    let len0 = pb.length();
    let want_len = match &c.wrap {
        Wrap::Progress | Wrap::TryProgress => Some(c.n as u64),
        Wrap::ProgressCount(l) => Some(*l as u64),
        Wrap::ProgressWith(l) | Wrap::WrapIter(l) => l.map(|x| x as u64),
    };
    ensure!(len0 == want_len, "length", "bar length {len0:?}, expected {want_len:?} for {:?}", c.wrap);
    let mut yielded = 0u64;
    let mut exhausted = false;
    let mut v = Verdict::default();
    let ops: Vec<ItOp> = c.ops.iter().cloned().chain(if c.drain { vec![ItOp::Next; c.n as usize + 2] } else { vec![] }).collect();
    for (i, op) in ops.iter().enumerate() {
        let ctx = format!("iterator op #{i} {op:?}");
        match op {
            ItOp::Next | ItOp::NextBack => {
                let (a, b) = if matches!(op, ItOp::Next) { (it.next(), plain.next()) } else { (it.next_back(), plain.next_back()) };
                ensure!(a == b, "transparency", "{ctx}: wrapped yielded {a:?}, plain {b:?}");
                if a.is_some() {
                    yielded += 1;
                } else {
                    exhausted = true;
                }
                v.label_if(matches!(op, ItOp::NextBack), "next_back");
            }
            ItOp::Nth(k) => {
                let before = plain.len() as u64;
                let (a, b) = (it.nth(*k as usize), plain.nth(*k as usize));
                ensure!(a == b, "transparency", "{ctx}: wrapped yielded {a:?}, plain {b:?}");
                yielded += before - plain.len() as u64;
                if a.is_none() {
                    exhausted = true;
                }
                v.label("nth");
            }
            ItOp::Rest(kind) => {
                let before = plain.len() as u64;
                match kind % 5 {
                    0 => ensure!(it.by_ref().count() == plain.by_ref().count(), "transparency", "{ctx}: count() differs"),
                    1 => ensure!(it.by_ref().last() == plain.by_ref().last(), "transparency", "{ctx}: last() differs"),
                    2 => {
                        let (mut a, mut b) = (vec![], vec![]);
                        it.by_ref().for_each(|x| a.push(x));
                        plain.by_ref().for_each(|x| b.push(x));
                        ensure!(a == b, "transparency", "{ctx}: for_each saw {a:?} vs {b:?}");
                    }
                    3 => ensure!(it.by_ref().sum::<u32>() == plain.by_ref().sum::<u32>(), "transparency", "{ctx}: sum() differs"),
                    _ => {
                        let (a, b) = (it.by_ref().skip(2).next(), plain.by_ref().skip(2).next());
                        ensure!(a == b, "transparency", "{ctx}: skip(2).next() differs");
                        if a.is_some() {
                            yielded += before - plain.len() as u64;
                            v.label("skip");
                        }
                    }
                }
                if kind % 5 != 4 || plain.len() == 0 && before < 3 {
                    // the rest was consumed to the end (the adaptor has seen the inner None)
                    yielded += before - plain.len() as u64;
                    exhausted = true;
                }
                v.label("internal_iteration");
            }
            ItOp::ResetBar => {
                pb.reset();
                v.label_if(exhausted, "reset_after_exhaustion");
                yielded = 0;
                exhausted = false;
            }
            ItOp::Len => {
                // (size_hint is not forwarded by the adaptor; only the explicitly implemented len() is compared)
                ensure!(it.len() == plain.len(), "transparency", "{ctx}: len() differs");
            }
        }
        let want_pos = if exhausted && c.finish % 5 <= 2 { want_len.unwrap_or(yielded) } else { yielded };
        let got = pb.position();
        ensure!(got == want_pos, "count", "{ctx}: position() = {got}, expected {want_pos} ({yielded} items yielded, exhausted {exhausted}, finish {:?})", finish_of(c.finish));
        ensure!(pb.is_finished() == exhausted, "finish", "{ctx}: is_finished() = {}, exhausted = {exhausted}", pb.is_finished());
        if exhausted {
            let want_msg = match c.finish % 5 {
                1 => "done",
                4 => "left",
                _ => match &c.wrap {
                    Wrap::ProgressWith(_) | Wrap::WrapIter(_) => "start",
                    _ => "",
                },
            };
            ensure!(pb.message() == want_msg, "finish", "{ctx}: message {:?} after exhaustion with {:?}", pb.message(), finish_of(c.finish));
        }
    }
    if c.consume % 8 != 0 {
        let rest_plain: Vec<u32> = plain.collect();
        let ctx = format!("consuming the adaptor by value (kind {}) after ops {:?}", c.consume % 8, ops);
        match c.consume % 8 {
            1 => ensure!(it.count() == rest_plain.len(), "transparency", "{ctx}: count() differs"),
            2 => {
                let mut a = vec![];
                it.for_each(|x| a.push(x));
                ensure!(a == rest_plain, "transparency", "{ctx}: for_each saw {a:?} vs {rest_plain:?}");
            }
            3 => ensure!(it.sum::<u32>() == rest_plain.iter().sum::<u32>(), "transparency", "{ctx}: sum() differs"),
            4 => ensure!(it.last() == rest_plain.last().copied(), "transparency", "{ctx}: last() differs"),
            5 => ensure!(it.fold(0u64, |a, x| a.wrapping_mul(31).wrapping_add(x as u64)) == rest_plain.iter().fold(0u64, |a, x| a.wrapping_mul(31).wrapping_add(*x as u64)), "transparency", "{ctx}: fold() differs"),
            6 => ensure!(it.max() == rest_plain.iter().copied().max(), "transparency", "{ctx}: max() differs"),
            _ => ensure!(it.rev().count() == rest_plain.len(), "transparency", "{ctx}: rev().count() differs"),
        }
        yielded += rest_plain.len() as u64;
        exhausted = true;
        let want_pos = if c.finish % 5 <= 2 { want_len.unwrap_or(yielded) } else { yielded };
        let got = pb.position();
        ensure!(got == want_pos, "count", "{ctx}: position() = {got}, expected {want_pos} ({yielded} items yielded, finish {:?})", finish_of(c.finish));
        ensure!(pb.is_finished(), "finish", "{ctx}: the iterator is exhausted but is_finished() is false");
        let want_msg = match c.finish % 5 {
            1 => "done",
            4 => "left",
            _ => match &c.wrap {
                Wrap::ProgressWith(_) | Wrap::WrapIter(_) => "start",
                _ => "",
            },
        };
        ensure!(pb.message() == want_msg, "finish", "{ctx}: message {:?} after exhaustion with {:?}", pb.message(), finish_of(c.finish));
        v.label("adaptor_consumed_by_value");
    }
    v.nontrivial = exhausted || yielded > 0;
    v.label_if(exhausted, "exhausted");
    v.label_if(!exhausted && yielded > 0, "partial_consumption");
    v.label_if(want_len.map_or(false, |l| l != c.n as u64), "length_differs_from_items");
    Ok(v)
}

fn decode_iter(u: &mut FuzzInput) -> IterCase {
    let n = u.n(29) as u16;
    let l = |u: &mut FuzzInput| if u.bool() { Some(u.n(39) as u16) } else { None };
    let wrap = match u.n(4) {
        0 => Wrap::Progress,
        1 => Wrap::ProgressCount(u.n(39) as u16),
        2 => Wrap::ProgressWith(l(u)),
        3 => Wrap::TryProgress,
        _ => Wrap::WrapIter(l(u)),
    };
    let finish = u.n(4) as u8;
    let drain = u.bool();
    let mut ops = vec![];
    while !u.empty() && ops.len() < 40 {
        ops.push(match u.n(16) {
            0..=7 => ItOp::Next,
            8..=11 => ItOp::NextBack,
            12 | 13 => ItOp::Len,
            14 => ItOp::Nth(u.n(5) as u8),
            15 => ItOp::ResetBar,
            _ => ItOp::Rest(u.n(4) as u8),
        });
    }
    let consume = (ops.len() as u8 * 5 + n as u8) % 8;
    IterCase { n, wrap, finish, ops, drain, consume, unfused: None }
}

fn iter_strategy(_t: Tier) -> BoxedStrategy<IterCase> {
    let wrap = prop_oneof![
        Just(Wrap::Progress),
        (0u16..40).prop_map(Wrap::ProgressCount),
        proptest::option::of(0u16..40).prop_map(Wrap::ProgressWith),
        Just(Wrap::TryProgress),
        proptest::option::of(0u16..40).prop_map(Wrap::WrapIter),
    ];
    let op = prop_oneof![8 => Just(ItOp::Next), 4 => Just(ItOp::NextBack), 2 => Just(ItOp::Len), 2 => (0u8..6).prop_map(ItOp::Nth), 1 => (0u8..5).prop_map(ItOp::Rest), 1 => Just(ItOp::ResetBar)];
    (0u16..30, wrap, 0u8..5, proptest::collection::vec(op, 0..40), any::<bool>(), prop_oneof![2 => Just(0u8), 3 => 1u8..8])
        .prop_map(|(n, wrap, finish, ops, drain, consume)| IterCase { n, wrap, finish, ops, drain, consume, unfused: None })
        .prop_flat_map(|c| prop_oneof![12 => Just(None), 1 => proptest::collection::vec(any::<bool>(), 1..8).prop_map(Some)].prop_map(move |unfused| IterCase { unfused, ..c.clone() }))
        .boxed()
}

// ------------------------------------------------------------------------------------------
// tokio / futures (polled by hand with a no-op waker)

#[derive(Debug, Clone, Serialize, Deserialize)]
pub enum AOp {
    PollRead(u16),
    /// poll_read into a ReadBuf that already holds `.1` bytes (as read_exact / io::copy do after a short read)
    PollReadPrefilled(u16, u8),
    /// poll_read of a source that appends this many bytes to the caller's buffer and reports an error in the
    /// same poll (a decoder that fails behind data it has already handed out): the bytes are in the caller's
    /// buffer, so they count
    PollReadFillThenErr(u8),
    PollFillBuf,
    Consume(u16),
    PollWrite(u16),
    /// poll_write_vectored with two slices of these lengths
    PollWriteVectored(u8, u8),
    PollFlush,
    PollShutdown,
    Seek(u32),
    PollComplete,
}

#[derive(Debug, Clone, Serialize, Deserialize)]
pub struct AsyncCase {
    data_len: u16,
    script: Vec<Res>,
    ops: Vec<AOp>,
    /// stream part: Some(item) / None = end / pending
    stream: Vec<Option<Option<u8>>>,
}

pub(crate) struct ScriptStream(pub(crate) VecDeque<Option<Option<u8>>>);
impl futures_core::Stream for ScriptStream {
    type Item = u8;
    fn poll_next(mut self: Pin<&mut Self>, _cx: &mut Context<'_>) -> Poll<Option<u8>> {
        match self.0.pop_front() {
            None | Some(Some(None)) => Poll::Ready(None),
            Some(None) => Poll::Pending,
            Some(Some(Some(x))) => Poll::Ready(Some(x)),
        }
    }
}

fn run_async(c: &AsyncCase) -> CaseResult {
    use tokio::io::{AsyncBufRead, AsyncRead, AsyncSeek, AsyncWrite, ReadBuf};
    let mut cx = Context::from_waker(Waker::noop());
    let w_obj = Obj::new(c.data_len as usize, &c.script);
    let mut plain = Obj::new(c.data_len as usize, &c.script);
    let pb = hidden_bar(Some(c.data_len as u64));
    let mut wrapped = pb.wrap_async_read(w_obj.clone());
    let mut want = 0u64;
    let mut v = Verdict::default();
    for (i, op) in c.ops.iter().enumerate() {
        let ctx = format!("async op #{i} {op:?}");
        macro_rules! same {
            ($a:expr, $b:expr) => {{
                let (a, b) = (format!("{:?}", $a), format!("{:?}", $b));
                ensure!(a == b, "transparency", "{ctx}: wrapped returned {a}, the unwrapped twin {b}");
            }};
        }
        match op {
            AOp::PollRead(n) => {
                let (mut b1, mut b2) = (vec![0u8; *n as usize], vec![0u8; *n as usize]);
                let (mut r1, mut r2) = (ReadBuf::new(&mut b1), ReadBuf::new(&mut b2));
                let p1 = Pin::new(&mut wrapped).poll_read(&mut cx, &mut r1).map_err(|e| e.kind());
                let p2 = Pin::new(&mut plain).poll_read(&mut cx, &mut r2).map_err(|e| e.kind());
                same!(p1, p2);
                ensure!(r1.filled() == r2.filled(), "transparency", "{ctx}: data differs");
                if let Poll::Ready(Ok(())) = p1 {
                    want += r1.filled().len() as u64;
                    v.label_if(r1.filled().len() < *n as usize, "short_transfer");
                }
                v.label_if(p1.is_pending(), "pending");
            }
            AOp::PollReadPrefilled(n, pre) => {
                let cap = *n as usize + *pre as usize;
                let (mut b1, mut b2) = (vec![0u8; cap], vec![0u8; cap]);
                let (mut r1, mut r2) = (ReadBuf::new(&mut b1), ReadBuf::new(&mut b2));
                let old: Vec<u8> = (0..*pre).map(|x| 200 + x % 50).collect();
                r1.put_slice(&old);
                r2.put_slice(&old);
                let p1 = Pin::new(&mut wrapped).poll_read(&mut cx, &mut r1).map_err(|e| e.kind());
                let p2 = Pin::new(&mut plain).poll_read(&mut cx, &mut r2).map_err(|e| e.kind());
                same!(p1, p2);
                ensure!(r1.filled() == r2.filled(), "transparency", "{ctx}: data differs");
                if let Poll::Ready(Ok(())) = p1 {
                    // only the bytes this call appended were transferred
                    want += (r1.filled().len() - old.len()) as u64;
                    v.label_if(*pre > 0 && r1.filled().len() > old.len(), "read_into_partly_filled_buffer");
                }
            }
            AOp::PollReadFillThenErr(n) => {
                struct FillThenErr(usize);
                impl AsyncRead for FillThenErr {
                    fn poll_read(self: Pin<&mut Self>, _cx: &mut Context<'_>, buf: &mut ReadBuf<'_>) -> Poll<io::Result<()>> {
                        let k = self.0.min(buf.remaining());
                        buf.put_slice(&vec![9u8; k]);
                        Poll::Ready(Err(io::Error::new(io::ErrorKind::InvalidData, "scripted: error behind data")))
                    }
                }
                let mut rd = pb.wrap_async_read(FillThenErr(*n as usize));
                let mut b = vec![0u8; *n as usize + 2];
                let mut rb = ReadBuf::new(&mut b);
                let r = Pin::new(&mut rd).poll_read(&mut cx, &mut rb);
                ensure!(matches!(&r, Poll::Ready(Err(e)) if e.kind() == io::ErrorKind::InvalidData), "transparency", "{ctx}: the adaptor returned {r:?} for a source that reports an error");
                ensure!(rb.filled().len() == *n as usize, "transparency", "{ctx}: data differs");
                want += *n as u64;
                v.label_if(*n > 0, "error_reported_together_with_data");
            }
            AOp::PollFillBuf => {
                let p1 = Pin::new(&mut wrapped).poll_fill_buf(&mut cx).map_ok(|b| b.to_vec()).map_err(|e| e.kind());
                let p2 = Pin::new(&mut plain).poll_fill_buf(&mut cx).map_ok(|b| b.to_vec()).map_err(|e| e.kind());
                same!(p1, p2);
                v.label("fill_buf");
            }
            AOp::Consume(pm) => {
                let avail = w_obj.st().filled;
                let k = avail * (*pm as usize % 1001) / 1000;
                Pin::new(&mut wrapped).consume(k);
                Pin::new(&mut plain).consume(k);
                want += k as u64;
                v.label_if(k > 0 && k < avail, "partial_consume");
            }
            AOp::PollWrite(n) => {
                let data: Vec<u8> = (0..*n).map(|x| (x % 251) as u8).collect();
                let p1 = Pin::new(&mut wrapped).poll_write(&mut cx, &data).map_err(|e| e.kind());
                let p2 = Pin::new(&mut plain).poll_write(&mut cx, &data).map_err(|e| e.kind());
                same!(p1, p2);
                if let Poll::Ready(Ok(k)) = p1 {
                    want += k as u64;
                }
                v.label_if(p1.is_pending(), "pending");
            }
            AOp::PollWriteVectored(a, b) => {
                let d1: Vec<u8> = (0..*a).map(|x| x % 251).collect();
                let d2: Vec<u8> = (0..*b).map(|x| 255 - x % 251).collect();
                let bufs = [std::io::IoSlice::new(&d1), std::io::IoSlice::new(&d2)];
                let p1 = Pin::new(&mut wrapped).poll_write_vectored(&mut cx, &bufs).map_err(|e| e.kind());
                let p2 = Pin::new(&mut plain).poll_write_vectored(&mut cx, &bufs).map_err(|e| e.kind());
                same!(p1, p2);
                if let Poll::Ready(Ok(k)) = p1 {
                    want += k as u64;
                    v.label_if(k > 0, "vectored_async_write");
                }
                v.label_if(p1.is_pending(), "pending");
            }
            AOp::PollFlush => {
                let p1 = Pin::new(&mut wrapped).poll_flush(&mut cx).map_err(|e| e.kind());
                let p2 = Pin::new(&mut plain).poll_flush(&mut cx).map_err(|e| e.kind());
                same!(p1, p2);
            }
            AOp::PollShutdown => {
                let p1 = Pin::new(&mut wrapped).poll_shutdown(&mut cx).map_err(|e| e.kind());
                let p2 = Pin::new(&mut plain).poll_shutdown(&mut cx).map_err(|e| e.kind());
                same!(p1, p2);
            }
            AOp::Seek(n) => {
                let f = SeekFrom::Start(*n as u64 % (c.data_len as u64 + 5));
                let p1 = Pin::new(&mut wrapped).start_seek(f).map_err(|e| e.kind());
                let p2 = Pin::new(&mut plain).start_seek(f).map_err(|e| e.kind());
                same!(p1, p2);
            }
            AOp::PollComplete => {
                let p1 = Pin::new(&mut wrapped).poll_complete(&mut cx).map_err(|e| e.kind());
                let p2 = Pin::new(&mut plain).poll_complete(&mut cx).map_err(|e| e.kind());
                same!(p1, p2);
                // the statement lists sync seekers; an async seek is only required to be transparent here
                if let Poll::Ready(Ok(p)) = p1 {
                    if pb.position() == p {
                        want = p;
                    }
                }
            }
        }
        {
            let (a, b) = (w_obj.st(), plain.st());
            ensure!(a.pos == b.pos && a.accepted == b.accepted, "transparency", "{ctx}: the underlying objects diverged");
        }
        let got = pb.position();
        let kind = if c.ops[..=i].iter().any(|o| matches!(o, AOp::PollFillBuf)) { "count_async_bufread" } else { "count" };
        ensure!(got == want, kind, "{ctx}: position() = {got}, the calls so far transferred {want} bytes (ops {:?})", &c.ops[..=i]);
    }
    // stream
    {
        use futures_core::Stream;
        let pb = hidden_bar(Some(c.stream.len() as u64)).with_finish(ProgressFinish::Abandon);
        let mut ws = pb.wrap_stream(ScriptStream(c.stream.iter().cloned().collect()));
        let mut ps = ScriptStream(c.stream.iter().cloned().collect());
        let mut items = 0u64;
        let mut ended = false;
        // in a third of the cases the caller abandons the bar while the stream still has items: the
        // stream must go on yielding (and counting) them
        let abandon_at = if c.data_len % 3 == 0 { Some(c.data_len as usize % (c.stream.len() + 1)) } else { None };
        let mut abandoned = false;
        for k in 0..c.stream.len() + 1 {
            if abandon_at == Some(k) {
                pb.abandon();
                abandoned = true;
                v.label("bar_finished_by_the_caller_mid_stream");
            }
            let a = Pin::new(&mut ws).poll_next(&mut cx);
            let b = Pin::new(&mut ps).poll_next(&mut cx);
            ensure!(a == b, "transparency", "stream poll #{k}: wrapped {a:?}, plain {b:?}");
            match a {
                Poll::Ready(Some(_)) => items += 1,
                Poll::Ready(None) => ended = true,
                Poll::Pending => {}
            }
            ensure!(pb.position() == items, "count", "stream poll #{k}: position() = {}, {items} items yielded", pb.position());
            ensure!(pb.is_finished() == (ended || abandoned), "finish", "stream poll #{k}: is_finished() = {}, stream ended = {ended}, abandoned by the caller = {abandoned}", pb.is_finished());
            if ended {
                break;
            }
        }
        v.label_if(items > 0, "stream_items");
    }
    v.nontrivial = v.labels.iter().any(|l| ["short_transfer", "pending", "partial_consume"].contains(l));
    Ok(v)
}

fn async_strategy(tier: Tier) -> BoxedStrategy<AsyncCase> {
    let n = tier.pick(14, 30);
    let op = prop_oneof![
        4 => (0u16..80).prop_map(AOp::PollRead),
        2 => (1u16..80, 1u8..40).prop_map(|(n, p)| AOp::PollReadPrefilled(n, p)),
        1 => (0u8..40).prop_map(AOp::PollReadFillThenErr),
        3 => Just(AOp::PollFillBuf),
        3 => (0u16..=1000).prop_map(AOp::Consume),
        3 => (0u16..80).prop_map(AOp::PollWrite),
        1 => (0u8..40, 0u8..40).prop_map(|(a, b)| AOp::PollWriteVectored(a, b)),
        1 => Just(AOp::PollFlush),
        1 => Just(AOp::PollShutdown),
        1 => any::<u32>().prop_map(AOp::Seek),
        1 => Just(AOp::PollComplete),
    ];
    let item = prop_oneof![3 => any::<u8>().prop_map(|x| Some(Some(x))), 1 => Just(None), 1 => Just(Some(None))];
    (0u16..400, proptest::collection::vec(res_strategy(true), 0..40), proptest::collection::vec(op, 0..n), proptest::collection::vec(item, 0..12))
        .prop_map(|(data_len, script, ops, stream)| AsyncCase { data_len, script, ops, stream })
        .boxed()
}

// ------------------------------------------------------------------------------------------
// rayon

#[derive(Debug, Clone, Copy, Serialize, Deserialize, PartialEq)]
pub enum Shape {
    ForEach,
    MapCollect,
    Sum,
    Zip,
    Enumerate,
    Chunks(u8),
    Filter,
    FindAny(u16),
    UnindexedBridge,
    Rev,
    WithMinLen(u8),
    /// two adaptors stacked on the split: the first one derives its length from size_hint(), the second one asks for it
    ZipEnumerate,
    ChainEnumerate,
    StepByEnumerate(u8),
    RevZipPositions,
}

#[derive(Debug, Clone, Serialize, Deserialize)]
pub struct ParCase {
    n: u16,
    threads: u8,
    shape: Shape,
    /// 0 progress() / 1 progress_count / 2 progress_with
    via: u8,
    default_finish: bool,
}

fn run_par(c: &ParCase) -> CaseResult {
    let n = c.n as usize;
    let items: Vec<u64> = (0..n as u64).map(|x| x * 7 + 3).collect();
    let pool = rayon::ThreadPoolBuilder::new().num_threads(c.threads.max(1) as usize).build().map_err(|e| Fail::new("harness", e.to_string()))?;
    let pb = hidden_bar(Some(n as u64));
    let pb = if c.default_finish { pb } else { pb.with_finish(ProgressFinish::Abandon) };
    let seen = AtomicU64::new(0);
    let tap = |x: u64| {
        seen.fetch_add(1, Ordering::SeqCst);
        x
    };
    let seq_sum: u64 = items.iter().sum();
    let res: Result<(), String> = catch(|| {
        pool.install(|| -> Result<(), String> {
            macro_rules! wrapi {
                ($it:expr) => {
                    $it.progress_with(pb.clone())
                };
            }
            match c.shape {
                Shape::ForEach => {
                    let s = AtomicU64::new(0);
                    wrapi!(items.par_iter().copied()).map(tap).for_each(|x| {
                        s.fetch_add(x, Ordering::SeqCst);
                    });
                    if s.load(Ordering::SeqCst) != seq_sum {
                        return Err("for_each saw different items".into());
                    }
                }
                Shape::MapCollect => {
                    let v: Vec<u64> = wrapi!(items.par_iter().copied()).map(tap).map(|x| x + 1).collect();
                    if v != items.iter().map(|x| x + 1).collect::<Vec<_>>() {
                        return Err("collect differs from the sequential result".into());
                    }
                }
                Shape::Sum => {
                    let s: u64 = wrapi!(items.par_iter().copied()).map(tap).sum();
                    if s != seq_sum {
                        return Err("sum differs".into());
                    }
                }
                Shape::Zip => {
                    let v: Vec<(u64, u64)> = wrapi!(items.par_iter().copied()).zip(items.par_iter().copied()).map(|(a, b)| (tap(a), b)).collect();
                    if v != items.iter().map(|x| (*x, *x)).collect::<Vec<_>>() {
                        return Err("zip differs".into());
                    }
                }
                Shape::Enumerate => {
                    let v: Vec<(usize, u64)> = wrapi!(items.par_iter().copied()).enumerate().map(|(i, a)| (i, tap(a))).collect();
                    if v != items.iter().copied().enumerate().collect::<Vec<_>>() {
                        return Err("enumerate differs".into());
                    }
                }
                Shape::Chunks(k) => {
                    let k = (k as usize).max(1);
                    let v: Vec<Vec<u64>> = wrapi!(items.par_iter().copied()).chunks(k).map(|ch| ch.into_iter().map(tap).collect()).collect();
                    if v != items.chunks(k).map(|c| c.to_vec()).collect::<Vec<_>>() {
                        return Err("chunks differ".into());
                    }
                }
                Shape::Filter => {
                    let v: Vec<u64> = wrapi!(items.par_iter().copied().filter(|x| x % 2 == 0)).map(tap).collect();
                    if v != items.iter().copied().filter(|x| x % 2 == 0).collect::<Vec<_>>() {
                        return Err("filter differs".into());
                    }
                }
                Shape::FindAny(t) => {
                    let target = (t as u64 % (n as u64 + 1)) * 7 + 3;
                    let r = wrapi!(items.par_iter().copied()).map(tap).find_any(|x| *x == target);
                    if r != items.iter().copied().find(|x| *x == target) {
                        return Err("find_any differs".into());
                    }
                }
                Shape::UnindexedBridge => {
                    let v: u64 = wrapi!(items.clone().into_iter().par_bridge()).map(tap).sum();
                    if v != seq_sum {
                        return Err("par_bridge sum differs".into());
                    }
                }
                Shape::Rev => {
                    let v: Vec<u64> = wrapi!(items.par_iter().copied()).rev().map(tap).collect();
                    if v != items.iter().rev().copied().collect::<Vec<_>>() {
                        return Err("rev differs".into());
                    }
                }
                Shape::ZipEnumerate => {
                    let v: Vec<(usize, (u64, u64))> = wrapi!(items.par_iter().copied()).zip(items.par_iter().copied()).enumerate().map(|(i, (a, b))| (i, (tap(a), b))).collect();
                    if v != items.iter().map(|x| (*x, *x)).enumerate().collect::<Vec<_>>() {
                        return Err("zip+enumerate differs".into());
                    }
                }
                Shape::ChainEnumerate => {
                    let v: Vec<(usize, u64)> = wrapi!(items.par_iter().copied()).map(tap).chain(items.par_iter().copied()).enumerate().collect();
                    if v != items.iter().copied().chain(items.iter().copied()).enumerate().collect::<Vec<_>>() {
                        return Err("chain+enumerate differs".into());
                    }
                }
                Shape::StepByEnumerate(k) => {
                    let k = (k as usize).max(1);
                    let v: Vec<(usize, u64)> = wrapi!(items.par_iter().copied()).map(tap).step_by(k).enumerate().collect();
                    if v != items.iter().copied().step_by(k).enumerate().collect::<Vec<_>>() {
                        return Err("step_by+enumerate differs".into());
                    }
                }
                Shape::RevZipPositions => {
                    let v: Vec<usize> = wrapi!(items.par_iter().copied()).rev().zip(items.par_iter().copied()).positions(|(a, b)| tap(a) >= b).collect();
                    let w: Vec<usize> = items.iter().rev().copied().zip(items.iter().copied()).enumerate().filter(|(_, (a, b))| a >= b).map(|(i, _)| i).collect();
                    if v != w {
                        return Err("rev+zip+positions differs".into());
                    }
                }
                Shape::WithMinLen(k) => {
                    let v: Vec<u64> = wrapi!(items.par_iter().copied()).with_min_len((k as usize).max(1)).map(tap).collect();
                    if v != items {
                        return Err("with_min_len differs".into());
                    }
                }
            }
            Ok(())
        })
    })
    .map_err(|p| Fail::new("panic", format!("{c:?} panicked: {p}")))?;
    res.map_err(|m| Fail::new("transparency", format!("{c:?}: {m}")))?;
    let transferred = seen.load(Ordering::SeqCst);
    let got = pb.position();
    let stacked = matches!(c.shape, Shape::ZipEnumerate | Shape::ChainEnumerate | Shape::StepByEnumerate(_) | Shape::RevZipPositions);
    let producer_path = stacked || matches!(c.shape, Shape::Zip | Shape::Enumerate | Shape::Chunks(_) | Shape::Rev | Shape::WithMinLen(_));
    let kind = if producer_path { "count_rayon_producer" } else { "count_rayon" };
    let expect_n = match c.shape {
        Shape::Filter => items.iter().filter(|x| *x % 2 == 0).count() as u64,
        Shape::FindAny(_) => transferred,
        // (step_by pulls the items it skips through the adaptor as well - all but, possibly, the last few of
        // a split; the tap sits in front of it and counts what was pulled)
        Shape::StepByEnumerate(_) => transferred,
        _ => n as u64,
    };
    ensure!(transferred == expect_n, "harness", "tap count {transferred} != {expect_n}");
    ensure!(
        got == transferred,
        kind,
        "{c:?}: position() = {got} after the parallel iteration, {transferred} items were passed on (pool of {} threads)",
        c.threads
    );
    let mut v = Verdict::default();
    v.nontrivial = c.threads >= 2 && n >= 2;
    v.label_if(v.nontrivial, "parallel_split");
    v.label_if(producer_path, "producer_path");
    v.label_if(stacked && n > 0, "adaptors_stacked_on_the_split");
    v.label_if(matches!(c.shape, Shape::FindAny(_)), "short_circuit");
    v.label_if(c.default_finish, "default_finish");
    Ok(v)
}

fn par_strategy(_t: Tier) -> BoxedStrategy<ParCase> {
    let shape = prop_oneof![
        Just(Shape::ForEach),
        Just(Shape::MapCollect),
        Just(Shape::Sum),
        Just(Shape::Zip),
        Just(Shape::Enumerate),
        (1u8..9).prop_map(Shape::Chunks),
        Just(Shape::Filter),
        any::<u16>().prop_map(Shape::FindAny),
        Just(Shape::UnindexedBridge),
        Just(Shape::Rev),
        (1u8..40).prop_map(Shape::WithMinLen),
        Just(Shape::ZipEnumerate),
        Just(Shape::ChainEnumerate),
        (1u8..9).prop_map(Shape::StepByEnumerate),
        Just(Shape::RevZipPositions),
    ];
    (prop_oneof![3 => 0u16..40, 2 => 40u16..5000], 1u8..=8, shape, 0u8..3, any::<bool>())
        .prop_map(|(n, threads, shape, via, default_finish)| ParCase { n, threads, shape, via, default_finish })
        .boxed()
}

pub fn property() -> Property {
    let w = default_workers();
    Property {
        id: "C17",
        level: "exploration",
        assumptions: &[
            "a failed read_exact/read_to_string may or may not count the bytes it consumed before failing (buffer contents unspecified by std); everything else is exact",
            "write_all/write! count exactly the bytes that reached the sink, also when failing half-way",
            "async seek is only required to be transparent (the statement's position clause names the sync seeker)",
            "rayon: position must equal the number of items handed to the next stage, counted by a tap placed right after the adaptor",
        ],
        parts: vec![
            Box::new(Gen::<IoCase> {
                name: "io",
                rule: "scripted source/sink (every primitive call result generated: full, short, zero, 5 error kinds) driven by 0-14 (thorough 30) calls of read/read_vectored/read_exact/read_to_string/read_line/fill_buf/seek_relative/rewind/consume/seek(Start|Current|End)/stream_position/write/write_vectored/write_all/write! (with and without arguments)/writeln!/flush; wrapped vs unwrapped twin must return the same values, errors and data, position() must follow the transferred bytes; non-trivial = a short transfer, an error, a partial consume or a write_all failing mid-way",
                strategy: io_strategy,
                cases: |t| t.pick(6_000, 300_000),
                run: run_io,
                signature: no_signature,
                essential: &["short_transfer", "error", "partial_consume", "write_all_failed_midway", "seek", "vectored", "fill_buf", "read_into_non_empty_string", "relative_seek_while_out_of_step", "rewind_from_a_non_zero_offset", "write_of_a_literal"],
                workers: w,
                decode: None,
            }),
            Box::new(Gen::<IterCase> {
                name: "iter",
                rule: "0..30 items through progress/progress_count/progress_with/try_progress/wrap_iter with each ProgressFinish, interleaved next/next_back/nth/len/internal iteration through by_ref()/reset() of the bar through another handle (the next end finishes it again the same way), optional drain, optionally consumed by value; one case in thirteen wraps a source that is not fused and puts .fuse() on the adaptor; items, len and size_hint equal the plain iterator, position == items yielded, exhaustion finishes per finish behaviour",
                strategy: iter_strategy,
                cases: |t| t.pick(4_000, 200_000),
                run: run_iter,
                signature: no_signature,
                essential: &["exhausted", "partial_consumption", "next_back", "length_differs_from_items", "nth", "internal_iteration", "adaptor_consumed_by_value", "reset_after_exhaustion", "unfused_source_yields_again_after_none"],
                workers: w,
                decode: Some(decode_iter),
            }),
            Box::new(Gen::<AsyncCase> {
                name: "async",
                rule: "tokio AsyncRead/AsyncBufRead/AsyncWrite/AsyncSeek and futures Stream polled by hand with a no-op waker over scripted Ready/Pending/Err results; same differential and counting oracle",
                strategy: async_strategy,
                cases: |t| t.pick(5_000, 250_000),
                run: run_async,
                signature: no_signature,
                essential: &["short_transfer", "pending", "partial_consume", "fill_buf", "stream_items", "read_into_partly_filled_buffer", "error_reported_together_with_data"],
                workers: w,
                decode: None,
            }),
            Box::new(Gen::<ParCase> {
                name: "rayon",
                rule: "0..5000 items in pools of 1..8 threads through for_each/map+collect/sum/zip/enumerate/chunks/filter/find_any/par_bridge/rev/with_min_len and the stacked zip+enumerate, chain+enumerate, step_by+enumerate, rev+zip+positions; result equals the sequential result, position == items handed on; non-trivial = >= 2 threads and >= 2 items",
                strategy: par_strategy,
                cases: |t| t.pick(300, 8_000),
                run: run_par,
                signature: no_signature,
                essential: &["parallel_split", "producer_path", "short_circuit", "default_finish", "adaptors_stacked_on_the_split"],
                workers: 4,
                decode: None,
            }),
        ],
    }
}
