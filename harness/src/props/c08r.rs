//! C08 real-thread, real-clock supplement (hooks off): what the shuttle shim abstracts away.
use std::io;
use std::sync::atomic::{AtomicUsize, Ordering};
use std::sync::mpsc;
use std::sync::Arc;
use std::time::{Duration, Instant};

use indicatif::{ProgressBar, ProgressDrawTarget, ProgressStyle, TermLike};
use proptest::prelude::*;
use serde::{Deserialize, Serialize};

use crate::ensure;
use crate::runner::*;

#[derive(Debug, Clone, Default)]
struct SlowSpy {
    flushes: Arc<AtomicUsize>,
    slow_ms: u64,
    /// the next flush fails once (EINTR-like), without painting
    fail_next: Arc<std::sync::atomic::AtomicBool>,
}

impl TermLike for SlowSpy {
    fn width(&self) -> u16 {
        40
    }
    fn height(&self) -> u16 {
        20
    }
    fn move_cursor_up(&self, _: usize) -> io::Result<()> {
        Ok(())
    }
    fn move_cursor_down(&self, _: usize) -> io::Result<()> {
        Ok(())
    }
    fn move_cursor_right(&self, _: usize) -> io::Result<()> {
        Ok(())
    }
    fn move_cursor_left(&self, _: usize) -> io::Result<()> {
        Ok(())
    }
    fn write_line(&self, _: &str) -> io::Result<()> {
        Ok(())
    }
    fn write_str(&self, _: &str) -> io::Result<()> {
        Ok(())
    }
    fn clear_line(&self) -> io::Result<()> {
        Ok(())
    }
    fn flush(&self) -> io::Result<()> {
        if self.slow_ms > 0 {
            std::thread::sleep(Duration::from_millis(self.slow_ms));
        }
        if self.fail_next.swap(false, Ordering::SeqCst) {
            return Err(io::Error::new(io::ErrorKind::Interrupted, "injected transient terminal fault"));
        }
        self.flushes.fetch_add(1, Ordering::SeqCst);
        Ok(())
    }
}

#[derive(Debug, Clone, Serialize, Deserialize)]
pub struct RealCase {
    /// 0 keeps-redrawing (1 ms), 1 disable, 2 replace, 3 finish then drop, 4 drop of the last handle, 5 manual ticks ignored,
    /// 6 finish, reset and enable again with the same interval, 7 enabled while hidden, 8 one ticker frame fails, 9 a custom key panics in a worker
    scenario: u8,
    /// delay before the stopping call, so that it lands before / during / after the ticker's first draw
    delay_ms: u8,
    slow_flush_ms: u8,
    manual_ticks: u8,
}

/// generous bound: the expected time is microseconds, the tick interval is an hour
const PROMPT: Duration = Duration::from_secs(20);

/// Once a call has missed the bound in this process, later waits (shrinking re-runs the scenario many
/// times) use a bound of 3 s - still six orders of magnitude above the expected time.
static MISSED_ONCE: std::sync::atomic::AtomicBool = std::sync::atomic::AtomicBool::new(false);

fn bound() -> Duration {
    if MISSED_ONCE.load(Ordering::SeqCst) {
        Duration::from_secs(3)
    } else {
        PROMPT
    }
}

fn prompt<F: FnOnce() + Send + 'static>(what: &str, f: F) -> Result<Duration, Fail> {
    let (tx, rx) = mpsc::channel();
    let t0 = Instant::now();
    std::thread::spawn(move || {
        f();
        let _ = tx.send(());
    });
    let b = bound();
    match rx.recv_timeout(b) {
        Ok(()) => Ok(t0.elapsed()),
        Err(_) => {
            MISSED_ONCE.store(true, Ordering::SeqCst);
            Err(Fail::new("not_prompt", format!("{what} did not return within {b:?} although the tick interval (1 h) should not matter")))
        }
    }
}

/// The scenario runs on a helper thread: a call that never returns (for example a join of a ticker that
/// missed its wake-up, issued from the scenario itself or from the destructor of the last handle) is
/// reported as `not_prompt` instead of hanging the check; the stuck thread is left behind.
fn run_real(c: &RealCase) -> CaseResult {
    let (tx, rx) = mpsc::channel();
    let c2 = c.clone();
    std::thread::spawn(move || {
        let r = catch(|| run_scenario(&c2));
        let _ = tx.send(r);
    });
    let b = bound() * 2;
    match rx.recv_timeout(b) {
        Ok(Ok(r)) => r,
        Ok(Err(p)) => Err(Fail::new("panic", format!("scenario {} panicked: {p}", c.scenario % 10))),
        Err(_) => {
            MISSED_ONCE.store(true, Ordering::SeqCst);
            Err(Fail::new("not_prompt", format!("scenario {} did not come to an end within {b:?} (a call or a destructor blocks although the tick interval should not matter)", c.scenario % 10)))
        }
    }
}

fn run_scenario(c: &RealCase) -> CaseResult {
    let spy = SlowSpy { flushes: Arc::new(AtomicUsize::new(0)), slow_ms: c.slow_flush_ms as u64 % 40, fail_next: Default::default() };
    let pb = ProgressBar::with_draw_target(Some(10), ProgressDrawTarget::term_like(Box::new(spy.clone())));
    pb.set_style(ProgressStyle::with_template("{spinner} {pos}").unwrap());
    let hour = Duration::from_secs(3600);
    let delay = Duration::from_millis(c.delay_ms as u64 % 60);
    let mut v = Verdict::default();
    match c.scenario % 10 {
        0 => {
            pb.enable_steady_tick(Duration::from_millis(1));
            std::thread::sleep(Duration::from_millis(150));
            let n = spy.flushes.load(Ordering::SeqCst);
            ensure!(n >= 3, "no_steady_redraw", "a 1 ms steady tick painted only {n} frames in 150 ms without manual ticks");
            let p2 = pb.clone();
            prompt("disable_steady_tick() (1 ms interval)", move || p2.disable_steady_tick())?;
            v.label("keeps_redrawing");
        }
        1 => {
            pb.enable_steady_tick(hour);
            std::thread::sleep(delay);
            let p2 = pb.clone();
            prompt("disable_steady_tick()", move || p2.disable_steady_tick())?;
            // manual ticks work again
            let n = spy.flushes.load(Ordering::SeqCst);
            pb.tick();
            ensure!(spy.flushes.load(Ordering::SeqCst) == n + 1, "tick_after_disable", "tick() after disable_steady_tick() painted no frame");
            v.label("disable");
        }
        2 => {
            pb.enable_steady_tick(hour);
            std::thread::sleep(delay);
            let p2 = pb.clone();
            prompt("enable_steady_tick() replacing a 1 h ticker", move || p2.enable_steady_tick(Duration::from_secs(7200)))?;
            let p3 = pb.clone();
            prompt("disable_steady_tick()", move || p3.disable_steady_tick())?;
            v.label("replace");
        }
        3 => {
            pb.enable_steady_tick(hour);
            std::thread::sleep(delay);
            pb.finish();
            let n = spy.flushes.load(Ordering::SeqCst);
            let p2 = pb.clone();
            drop(pb);
            prompt("dropping the finished bar", move || drop(p2))?;
            ensure!(spy.flushes.load(Ordering::SeqCst) == n, "frame_after_finish", "a frame was painted after finish() returned");
            v.label("finish_then_drop");
            v.nontrivial = true;
            return Ok(v);
        }
        4 => {
            pb.enable_steady_tick(hour);
            std::thread::sleep(delay);
            prompt("dropping the last handle", move || drop(pb))?;
            v.label("last_drop");
            v.nontrivial = true;
            return Ok(v);
        }
        8 => {
            // one frame drawn by the ticker fails (a transient terminal error); the bar is neither finished
            // nor dropped and the ticker neither disabled nor replaced, so the frames keep coming
            let d = Duration::from_millis(1 + c.manual_ticks as u64 % 4);
            pb.enable_steady_tick(d);
            let t0 = Instant::now();
            while spy.flushes.load(Ordering::SeqCst) < 2 && t0.elapsed() < Duration::from_secs(10) {
                std::thread::sleep(Duration::from_millis(1));
            }
            ensure!(spy.flushes.load(Ordering::SeqCst) >= 2, "no_steady_redraw", "a {d:?} steady tick painted fewer than 2 frames in 10 s");
            std::thread::sleep(delay);
            spy.fail_next.store(true, Ordering::SeqCst);
            let t0 = Instant::now();
            while spy.fail_next.load(Ordering::SeqCst) && t0.elapsed() < Duration::from_secs(10) {
                std::thread::sleep(Duration::from_millis(1));
            }
            ensure!(!spy.fail_next.load(Ordering::SeqCst), "no_steady_redraw", "a {d:?} steady tick attempted no frame in 10 s");
            let n = spy.flushes.load(Ordering::SeqCst);
            let t0 = Instant::now();
            while spy.flushes.load(Ordering::SeqCst) < n + 3 && t0.elapsed() < Duration::from_secs(10) {
                std::thread::sleep(Duration::from_millis(1));
            }
            let m = spy.flushes.load(Ordering::SeqCst);
            ensure!(m >= n + 3, "no_steady_redraw", "after one frame of the {d:?} steady tick failed with a transient terminal error the bar was redrawn only {} time(s) in 10 s (not finished, not disabled, handle alive)", m - n);
            let p2 = pb.clone();
            prompt("disable_steady_tick()", move || p2.disable_steady_tick())?;
            v.label("ticker_frame_failed_once");
        }
        9 => {
            // a custom key panics under a call of a worker thread (which dies); the callback did not re-enter
            // the library. Stopping the ticker afterwards must not block
            let armed = Arc::new(std::sync::atomic::AtomicBool::new(false));
            let a2 = armed.clone();
            let style = ProgressStyle::with_template("{spinner} {boom} {msg}").unwrap().with_key("boom", move |_: &indicatif::ProgressState, w: &mut dyn std::fmt::Write| {
                if a2.swap(false, Ordering::SeqCst) {
                    panic!("custom key fails");
                }
                let _ = w.write_str("ok");
            });
            pb.set_style(style);
            let d = Duration::from_millis(2 + c.manual_ticks as u64 % 4);
            pb.enable_steady_tick(d);
            std::thread::sleep(delay);
            let p2 = pb.clone();
            let a3 = armed.clone();
            let died = std::thread::spawn(move || {
                let _ = catch(move || {
                    // (armed right before the call; if the ticker draws first, the ticker thread dies instead,
                    // which is just as good for what follows)
                    a3.store(true, Ordering::SeqCst);
                    p2.set_message("x");
                });
            })
            .join();
            ensure!(died.is_ok(), "harness", "worker thread could not be joined");
            // the ticker wakes up at least once and finds the bar as the worker left it
            std::thread::sleep(Duration::from_millis(40));
            let p3 = pb.clone();
            let stop_way = c.manual_ticks % 2;
            prompt(if stop_way == 0 { "disable_steady_tick() after a custom key panicked in another thread" } else { "enable_steady_tick() (replace) after a custom key panicked in another thread" }, move || {
                let _ = catch(move || if stop_way == 0 { p3.disable_steady_tick() } else { p3.enable_steady_tick(Duration::from_secs(3600)) });
            })?;
            let p4 = pb.clone();
            prompt("disable_steady_tick() at the end", move || {
                let _ = catch(move || p4.disable_steady_tick());
            })?;
            v.label("callback_panicked_under_a_live_ticker");
            let _ = catch(move || drop(pb));
            v.nontrivial = true;
            return Ok(v);
        }
        7 => {
            // steady tick enabled while the bar has no terminal; it gets one later and must be animated
            // there (through a handle obtained by downgrade() + upgrade() when manual_ticks is odd)
            let hidden = ProgressBar::with_draw_target(Some(10), ProgressDrawTarget::hidden());
            hidden.set_style(ProgressStyle::with_template("{spinner} {pos}").unwrap());
            let d = Duration::from_millis(1 + c.manual_ticks as u64 % 4);
            let h = if c.manual_ticks % 2 == 1 { hidden.downgrade().upgrade().expect("strong handle exists") } else { hidden.clone() };
            h.enable_steady_tick(d);
            std::thread::sleep(Duration::from_millis(20) + delay);
            hidden.set_draw_target(ProgressDrawTarget::term_like(Box::new(spy.clone())));
            let n = spy.flushes.load(Ordering::SeqCst);
            let t0 = Instant::now();
            while spy.flushes.load(Ordering::SeqCst) < n + 3 && t0.elapsed() < Duration::from_secs(10) {
                std::thread::sleep(Duration::from_millis(1));
            }
            let m = spy.flushes.load(Ordering::SeqCst);
            ensure!(m >= n + 3, "no_steady_redraw", "steady tick ({d:?}) was enabled while the bar was hidden; after set_draw_target(visible) it was redrawn only {} time(s) in 10 s", m - n);
            // while the ticker is installed a manual tick through any handle of the bar paints nothing
            let p2 = hidden.clone();
            prompt("disable_steady_tick()", move || p2.disable_steady_tick())?;
            let n = spy.flushes.load(Ordering::SeqCst);
            hidden.tick();
            ensure!(spy.flushes.load(Ordering::SeqCst) == n + 1, "tick_after_disable", "tick() after disable_steady_tick() painted no frame");
            v.label("ticker_enabled_while_hidden_then_shown");
            drop(h);
            drop(hidden);
        }
        6 => {
            // a bar that is finished, reset and ticked steadily again (same interval as before)
            let d = Duration::from_millis(2 + c.manual_ticks as u64 % 4);
            pb.enable_steady_tick(d);
            std::thread::sleep(Duration::from_millis(20) + delay);
            pb.finish();
            std::thread::sleep(Duration::from_millis(40)); // the ticker notices and stops by itself
            pb.reset();
            pb.enable_steady_tick(d);
            let n = spy.flushes.load(Ordering::SeqCst);
            std::thread::sleep(Duration::from_millis(200));
            let m = spy.flushes.load(Ordering::SeqCst);
            ensure!(m >= n + 3, "no_steady_redraw", "after finish(); reset(); enable_steady_tick({d:?}) again the bar was redrawn only {} time(s) in 200 ms", m - n);
            let p2 = pb.clone();
            prompt("disable_steady_tick()", move || p2.disable_steady_tick())?;
            v.label("finish_reset_enable_again");
        }
        _ => {
            pb.enable_steady_tick(hour);
            // wait for the ticker's first frame
            let t0 = Instant::now();
            while spy.flushes.load(Ordering::SeqCst) == 0 && t0.elapsed() < Duration::from_secs(10) {
                std::thread::sleep(Duration::from_millis(1));
            }
            let n = spy.flushes.load(Ordering::SeqCst);
            ensure!(n >= 1, "no_steady_redraw", "the steady ticker painted nothing within 10 s");
            for _ in 0..c.manual_ticks % 8 {
                pb.tick();
            }
            ensure!(spy.flushes.load(Ordering::SeqCst) == n, "manual_tick_not_ignored", "{} manual tick() calls painted {} frame(s) while a steady ticker is installed", c.manual_ticks % 8, spy.flushes.load(Ordering::SeqCst) - n);
            let p2 = pb.clone();
            prompt("disable_steady_tick()", move || p2.disable_steady_tick())?;
            v.label("manual_ticks_ignored");
        }
    }
    drop(pb);
    v.nontrivial = true;
    Ok(v)
}

// ------------------------------------------------------------------------------------------
// the last handle is dropped by a thread that is unwinding

#[derive(Debug, Clone, Serialize, Deserialize)]
pub struct UnwindCase {
    /// tick interval in seconds (the stop must not depend on it)
    interval_s: u16,
    delay_ms: u8,
    /// a clone of the bar lives in the same thread and is dropped by the same unwinding
    with_clone: bool,
}

fn os_threads() -> usize {
    std::fs::read_dir("/proc/self/task").map(|d| d.count()).unwrap_or(0)
}

/// One case at a time: the number of OS threads of the process is the observation.
fn run_unwind(c: &UnwindCase) -> CaseResult {
    // let threads of earlier cases and parts come to their end first
    let mut before = os_threads();
    let t0 = Instant::now();
    let mut stable = Instant::now();
    while stable.elapsed() < Duration::from_millis(30) && t0.elapsed() < Duration::from_secs(5) {
        std::thread::sleep(Duration::from_millis(5));
        let n = os_threads();
        if n != before {
            before = n;
            stable = Instant::now();
        }
    }
    if before == 0 {
        let mut v = Verdict::default();
        v.label("no_proc_filesystem");
        return Ok(v);
    }
    let spy = SlowSpy { flushes: Arc::new(AtomicUsize::new(0)), slow_ms: 0, fail_next: Default::default() };
    let (interval, delay, with_clone) = (Duration::from_secs(60 + c.interval_s as u64), Duration::from_millis(c.delay_ms as u64 % 20), c.with_clone);
    let spy2 = spy.clone();
    let owner = std::thread::spawn(move || {
        let pb = ProgressBar::with_draw_target(Some(10), ProgressDrawTarget::term_like(Box::new(spy2)));
        pb.enable_steady_tick(interval);
        let _second = if with_clone { Some(pb.clone()) } else { None };
        std::thread::sleep(delay);
        // the task fails: every handle it owns is dropped while the thread unwinds
        let _ = catch(|| ());
        panic!("scripted task failure");
    });
    ensure!(owner.join().is_err(), "harness", "the owner thread did not panic");
    let t0 = Instant::now();
    let b = bound();
    while os_threads() > before && t0.elapsed() < b {
        std::thread::sleep(Duration::from_millis(5));
    }
    let after = os_threads();
    if after > before {
        MISSED_ONCE.store(true, Ordering::SeqCst);
    }
    ensure!(
        after <= before,
        "ticker_outlives_last_handle",
        "a thread that owned the only handle(s) of a bar with a {interval:?} steady ticker panicked; {b:?} after it was joined the process still has {after} threads ({before} before): the ticker thread was not stopped when the last handle was dropped"
    );
    let mut v = Verdict::default();
    v.nontrivial = true;
    v.label("last_handle_dropped_by_an_unwinding_thread");
    Ok(v)
}

pub fn property() -> Property {
    Property {
        id: "C08",
        level: "exploration",
        assumptions: &[
            "real OS threads and the real clock: 'promptly' is asserted as < 20 s against a tick interval of one hour (the expected time is microseconds)",
        ],
        parts: vec![Box::new(Gen::<RealCase> {
            name: "real_threads",
            rule: "real threads: a 1 ms ticker keeps painting without manual ticks; with a 1 h ticker, disable / replace / finish+drop / last drop return promptly (the stopping call is issued 0-59 ms after enable, the terminal's flush takes 0-39 ms, so the stop lands before, during or after the ticker's first draw) manual tick() calls paint nothing while the ticker is installed, a bar that was finished, reset and given the same steady tick again is redrawn again, a ticker one of whose frames failed with a transient terminal error keeps redrawing, and after a custom key panicked under a call of another thread (no re-entry) disable / replace still return promptly",
            strategy: |_| (0u8..10, any::<u8>(), any::<u8>(), 0u8..8).prop_map(|(scenario, delay_ms, slow_flush_ms, manual_ticks)| RealCase { scenario, delay_ms, slow_flush_ms, manual_ticks }).boxed(),
            cases: |t| t.pick(14, 400),
            run: run_real,
            signature: no_signature,
            essential: &["keeps_redrawing", "disable", "replace", "finish_then_drop", "last_drop", "manual_ticks_ignored", "finish_reset_enable_again", "ticker_enabled_while_hidden_then_shown", "ticker_frame_failed_once", "callback_panicked_under_a_live_ticker"],
            workers: 8,
            decode: None,
        }),
        Box::new(Gen::<UnwindCase> {
            name: "unwinding_owner",
            rule: "real threads, one case at a time: a thread creates a bar with a steady ticker of 1-18 hours, optionally clones it, and panics 0-19 ms later, so that the last handle is dropped while the thread unwinds; after the thread was joined the number of OS threads of the process (/proc/self/task) is back to what it was within 20 s: the ticker thread was stopped by the drop, independently of its interval",
            strategy: |_| (any::<u16>(), any::<u8>(), any::<bool>()).prop_map(|(interval_s, delay_ms, with_clone)| UnwindCase { interval_s, delay_ms, with_clone }).boxed(),
            cases: |t| t.pick(4, 100),
            run: run_unwind,
            signature: no_signature,
            essential: &["last_handle_dropped_by_an_unwinding_thread"],
            workers: 1,
            decode: None,
        })],
    }
}
