//! C16 Tabs are always expanded before reaching the terminal.
use indicatif::{ProgressBar, ProgressDrawTarget, ProgressFinish, ProgressState, ProgressStyle};
use proptest::prelude::*;
use serde::{Deserialize, Serialize};

use crate::clock;
use crate::ensure;
use crate::model::{self, Align};
use crate::runner::*;
use crate::vterm::VTerm;

#[derive(Debug, Clone, Copy)]
enum Seg {
    Lit(&'static str),
    Msg,
    Prefix,
    MsgW(usize, Align),
    Ck,
    Ck2,
    /// the custom key behind a placeholder with a width and an alignment / with truncation
    CkW(usize, Align),
    CkT(usize),
    Nl,
}

const TEMPLATES: [&[Seg]; 11] = [
    &[Seg::Prefix, Seg::Lit("|"), Seg::Msg],
    &[Seg::Lit("a\tb "), Seg::Msg, Seg::Lit("\t|"), Seg::Prefix],
    &[Seg::Lit("{\t"), Seg::Msg],
    &[Seg::Ck, Seg::Lit("|"), Seg::MsgW(12, Align::Left), Seg::Lit("|\t")],
    &[Seg::Lit("\t"), Seg::Ck2, Seg::Lit("\t\t"), Seg::MsgW(9, Align::Right), Seg::Lit(";")],
    &[Seg::Msg, Seg::Nl, Seg::Lit("\tline2 "), Seg::Prefix],
    &[Seg::Lit("no tabs "), Seg::Msg, Seg::Lit(" "), Seg::Ck2],
    // every literal with a tab ends at a line break
    &[Seg::Lit("step\tone:"), Seg::Nl, Seg::Prefix, Seg::Lit("|"), Seg::Msg],
    &[Seg::Lit("a\tb"), Seg::Nl, Seg::Lit("\tc"), Seg::Nl, Seg::Msg, Seg::Lit("/"), Seg::Prefix],
    // a custom key that writes a TAB, behind a placeholder that pads, aligns or truncates
    &[Seg::CkW(12, Align::Right), Seg::Lit("|"), Seg::Msg],
    &[Seg::Lit("t\t"), Seg::CkT(3), Seg::Lit("|"), Seg::CkW(14, Align::Center), Seg::Prefix],
];

fn template_string(t: &[Seg]) -> String {
    let mut s = String::new();
    for seg in t {
        match seg {
            Seg::Lit(l) => {
                // '{' + TAB stands for itself; other braces do not occur in the pool
                s.push_str(l)
            }
            Seg::Msg => s.push_str("{msg}"),
            Seg::Prefix => s.push_str("{prefix}"),
            Seg::MsgW(w, a) => s.push_str(&format!("{{msg:{}{}}}", a.flag(), w)),
            Seg::Ck => s.push_str("{ck}"),
            Seg::Ck2 => s.push_str("{ck2}"),
            Seg::CkW(w, a) => s.push_str(&format!("{{ck:{}{}}}", a.flag(), w)),
            Seg::CkT(w) => s.push_str(&format!("{{ck:{}!}}", w)),
            Seg::Nl => s.push('\n'),
        }
    }
    s
}

fn expected_lines(t: &[Seg], msg: &str, prefix: &str, tw: usize) -> Vec<String> {
    let mut s = String::new();
    let m = model::expand_tabs(msg, tw);
    let p = model::expand_tabs(prefix, tw);
    for seg in t {
        match seg {
            Seg::Lit(l) => s.push_str(&model::expand_tabs(l, tw)),
            Seg::Msg => s.push_str(&m),
            Seg::Prefix => s.push_str(&p),
            Seg::MsgW(w, a) => s.push_str(&model::pad_first(&m, *w, *a, false)),
            Seg::Ck => s.push_str(&model::expand_tabs("x\ty", tw)),
            Seg::Ck2 => s.push_str(&model::expand_tabs("p\t\t\tq\t", tw)),
            Seg::CkW(w, a) => s.push_str(&model::pad_first(&model::expand_tabs("x\ty", tw), *w, *a, false)),
            Seg::CkT(w) => s.push_str(&model::pad_first(&model::expand_tabs("x\ty", tw), *w, Align::Left, true)),
            Seg::Nl => s.push('\n'),
        }
    }
    if s.is_empty() {
        vec![]
    } else {
        s.split('\n').map(|x| x.to_string()).collect()
    }
}

fn make_style(idx: u8, base: Option<ProgressStyle>) -> ProgressStyle {
    let t = template_string(TEMPLATES[idx as usize % TEMPLATES.len()]);
    let st = match base {
        Some(b) => b.template(&t).unwrap(),
        None => ProgressStyle::with_template(&t).unwrap(),
    };
    st.with_key("ck", |_: &ProgressState, w: &mut dyn std::fmt::Write| {
        let _ = w.write_str("x\ty");
    })
    .with_key("ck2", |_: &ProgressState, w: &mut dyn std::fmt::Write| {
        // tabs split across several writes, several tabs in one write
        let _ = w.write_str("p\t");
        let _ = w.write_str("\t\tq");
        let _ = w.write_char('\t');
    })
}

#[derive(Debug, Clone, Serialize, Deserialize)]
pub enum TOp {
    SetTabWidth(usize),
    WithTabWidth(usize),
    SetStyle(u8),
    WithStyle(u8),
    /// pb.style().template(..) then set_style: re-use of a style cloned from the bar
    ReTemplate(u8),
    SetMessage(String),
    WithMessage(String),
    SetPrefix(String),
    WithPrefix(String),
    FinishWithMessage(String),
    AbandonWithMessage(String),
    Reset,
    Tick,
    DropWithMessage(String),
    /// with_finish(WithMessage(text)) (or AbandonWithMessage when the flag is set): stored for later
    WithFinishMessage(String, bool),
    /// finish_using_style(): applies whatever finish behaviour is stored
    FinishUsingStyle,
    /// set_message / set_prefix (flag) with the text the getter returns now: plain, no TAB left in it
    SetExpandedCopy(bool),
    /// keep a copy of the bar's current style (ProgressBar::style()) for later
    StashStyle,
    /// set_style with the copy taken earlier (it was taken at whatever tab width the bar had then)
    SetStashedStyle,
    /// println("log"): the bar lines repainted below the log line are bar lines like any other
    Println,
}

#[derive(Debug, Clone, Serialize, Deserialize)]
pub struct TabCase {
    style0: u8,
    ops: Vec<TOp>,
    /// the bar starts without a visible target and becomes visible before op `.1`
    /// (way 0: hidden target, later set_draw_target; way 1: configured stand-alone, later added to a
    /// visible MultiProgress; way 2: member of a hidden MultiProgress that later gets the terminal)
    #[serde(default)]
    hidden: Option<(u8, u8)>,
}

fn text_strategy() -> BoxedStrategy<String> {
    prop_oneof![
        1 => "[a-z ]{0,6}",
        4 => proptest::collection::vec(prop_oneof![2 => "[a-z]{0,3}", 1 => Just("\t".to_string()), 1 => Just("\t\t".to_string())], 0..6).prop_map(|v| v.concat()),
        // texts with very many tabs (a count of exactly 256 among them)
        1 => prop_oneof![Just(255usize), Just(256), Just(257), Just(512)].prop_map(|n| format!("a{}b", "\t".repeat(n))),
    ]
    .boxed()
}

fn width_strategy() -> BoxedStrategy<usize> {
    prop_oneof![4 => Just(0usize), 4 => 1usize..5, 4 => 5usize..=16, 2 => Just(8usize), 1 => 17usize..70, 1 => prop_oneof![Just(63usize), Just(64), Just(65), Just(128), Just(129), Just(300), Just(65535), Just(65536), Just(70000)]].boxed()
}

fn op_strategy() -> BoxedStrategy<TOp> {
    let n = TEMPLATES.len() as u8;
    prop_oneof![
        4 => width_strategy().prop_map(TOp::SetTabWidth),
        2 => width_strategy().prop_map(TOp::WithTabWidth),
        2 => (0..n).prop_map(TOp::SetStyle),
        1 => (0..n).prop_map(TOp::WithStyle),
        2 => (0..n).prop_map(TOp::ReTemplate),
        3 => text_strategy().prop_map(TOp::SetMessage),
        1 => text_strategy().prop_map(TOp::WithMessage),
        2 => text_strategy().prop_map(TOp::SetPrefix),
        1 => text_strategy().prop_map(TOp::WithPrefix),
        1 => text_strategy().prop_map(TOp::FinishWithMessage),
        1 => text_strategy().prop_map(TOp::AbandonWithMessage),
        1 => Just(TOp::Reset),
        1 => Just(TOp::Tick),
        1 => (text_strategy(), any::<bool>()).prop_map(|(m, a)| TOp::WithFinishMessage(m, a)),
        1 => Just(TOp::FinishUsingStyle),
        1 => any::<bool>().prop_map(TOp::SetExpandedCopy),
        1 => Just(TOp::StashStyle),
        2 => Just(TOp::Println),
        1 => Just(TOp::SetStashedStyle),
    ]
    .boxed()
}

fn case_strategy(tier: Tier) -> BoxedStrategy<TabCase> {
    let n = tier.pick(14, 30);
    (0..TEMPLATES.len() as u8, proptest::collection::vec(op_strategy(), 0..n), proptest::option::weighted(0.3, text_strategy()), proptest::option::weighted(0.3, (0u8..3, 0u8..12)))
        .prop_map(|(style0, mut ops, drop_msg, hidden)| {
            if let Some(m) = drop_msg {
                ops.push(TOp::DropWithMessage(m));
            }
            TabCase { style0, ops, hidden }
        })
        .boxed()
}

fn decode_tabs(u: &mut FuzzInput) -> TabCase {
    fn text(u: &mut FuzzInput) -> String {
        (0..u.n(5)).map(|_| ["a", "bc", "\t", "\t\t", " ", "x"][u.n(5)]).collect()
    }
    let n = TEMPLATES.len() as u8;
    let style0 = u.n(n as usize - 1) as u8;
    let hidden = if u.n(3) == 0 { Some((u.n(2) as u8, u.n(11) as u8)) } else { None };
    let mut ops = vec![];
    while !u.empty() && ops.len() < 30 {
        ops.push(match u.n(17) {
            0..=2 => TOp::SetTabWidth(u.n(16)),
            3 => TOp::WithTabWidth(u.n(16)),
            4 => TOp::SetStyle(u.n(n as usize - 1) as u8),
            5 => TOp::WithStyle(u.n(n as usize - 1) as u8),
            6 => TOp::ReTemplate(u.n(n as usize - 1) as u8),
            7 | 8 => TOp::SetMessage(text(u)),
            9 => TOp::WithMessage(text(u)),
            10 => TOp::SetPrefix(text(u)),
            11 => TOp::WithPrefix(text(u)),
            12 => if u.bool() { TOp::FinishWithMessage(text(u)) } else { TOp::AbandonWithMessage(text(u)) },
            13 => if u.bool() { TOp::Reset } else { TOp::Tick },
            14 => TOp::WithFinishMessage(text(u), u.bool()),
            15 => TOp::FinishUsingStyle,
            16 => if u.bool() { TOp::StashStyle } else { TOp::Println },
            17 if u.bool() => TOp::SetExpandedCopy(u.bool()),
            _ => TOp::SetStashedStyle,
        });
    }
    if u.n(3) == 0 {
        ops.push(TOp::DropWithMessage(text(u)));
    }
    TabCase { style0, ops, hidden }
}

fn run_tabs(c: &TabCase) -> CaseResult {
    let _clk = clock::Armed::new();
    // (hundreds of tabs at a width of tens of thousands of columns would be a line that no terminal of this
    // harness can hold: texts with many tabs are combined with widths up to 300 only)
    let widest = c.ops.iter().filter_map(|o| if let TOp::SetTabWidth(w) | TOp::WithTabWidth(w) = o { Some(*w) } else { None }).max().unwrap_or(8);
    let most_tabs = c
        .ops
        .iter()
        .filter_map(|o| match o {
            TOp::SetMessage(m) | TOp::WithMessage(m) | TOp::SetPrefix(m) | TOp::WithPrefix(m) | TOp::FinishWithMessage(m) | TOp::AbandonWithMessage(m) | TOp::DropWithMessage(m) | TOp::WithFinishMessage(m, _) => Some(m.matches('\t').count()),
            _ => None,
        })
        .max()
        .unwrap_or(0);
    if widest > 300 && most_tabs > 8 {
        let mut v = Verdict::default();
        v.label("discarded_many_tabs_at_a_huge_width");
        return Ok(v);
    }
    let vt = VTerm::raw(2000, 2000);
    let mut visible = c.hidden.is_none();
    let mut mp: Option<indicatif::MultiProgress> = None;
    let first = match c.hidden {
        None => ProgressBar::with_draw_target(Some(10), ProgressDrawTarget::term_like(vt.boxed())),
        Some((way, _)) if way % 3 == 2 => {
            let m = indicatif::MultiProgress::with_draw_target(ProgressDrawTarget::hidden());
            let pb = m.add(ProgressBar::with_draw_target(Some(10), ProgressDrawTarget::hidden()));
            mp = Some(m);
            pb
        }
        Some(_) => ProgressBar::with_draw_target(Some(10), ProgressDrawTarget::hidden()),
    };
    let mut pb = Some(first.with_style(make_style(c.style0, None)));
    let (mut msg, mut prefix, mut tw, mut tmpl) = (String::new(), String::new(), 8usize, c.style0);
    let mut v = Verdict::default();
    // (text has a tab, set at op index); a width change after that index makes the case non-trivial
    let mut tab_text_at: Option<usize> = if TEMPLATES[c.style0 as usize % TEMPLATES.len()].iter().any(|s| matches!(s, Seg::Lit(l) if l.contains('\t')) || matches!(s, Seg::Ck | Seg::Ck2 | Seg::CkW(..) | Seg::CkT(_))) { Some(0) } else { None };
    let mut changed_after = false;
    // the text of a stored ProgressFinish::WithMessage / AbandonWithMessage (default: AndClear, no text)
    let mut stored_finish: Option<String> = None;
    // (style copied from the bar, template index it renders)
    let stash: std::cell::RefCell<Option<(ProgressStyle, u8)>> = std::cell::RefCell::new(None);
    let kept: std::cell::RefCell<Vec<ProgressStyle>> = std::cell::RefCell::new(vec![]);
    for (i, op) in c.ops.iter().enumerate() {
        clock::advance(std::time::Duration::from_millis(3));
        let mut cur = pb.take().unwrap();
        if let Some((way, at)) = c.hidden {
            if !visible && i >= at as usize {
                // the bar gets its terminal now: everything set while it was hidden must show up expanded
                match way % 3 {
                    0 => cur.set_draw_target(ProgressDrawTarget::term_like(vt.boxed())),
                    1 => {
                        let m = indicatif::MultiProgress::with_draw_target(ProgressDrawTarget::term_like(vt.boxed()));
                        cur = m.add(cur);
                        mp = Some(m);
                    }
                    _ => mp.as_ref().unwrap().set_draw_target(ProgressDrawTarget::term_like(vt.boxed())),
                }
                visible = true;
                v.label("configured_while_hidden_then_shown");
            }
        }
        let under_println: std::cell::RefCell<Option<Result<Vec<String>, String>>> = std::cell::RefCell::new(None);
        let r = catch(|| -> Option<ProgressBar> {
            Some(match op {
                TOp::SetTabWidth(w) => {
                    cur.set_tab_width(*w);
                    cur
                }
                TOp::WithTabWidth(w) => cur.with_tab_width(*w),
                // (the caller keeps its own copy of every style it hands over, as code that configures
                // several bars from one style does)
                TOp::SetStyle(t) => {
                    let st = make_style(*t, None);
                    kept.borrow_mut().push(st.clone());
                    cur.set_style(st);
                    cur
                }
                TOp::WithStyle(t) => {
                    let st = make_style(*t, None);
                    kept.borrow_mut().push(st.clone());
                    cur.with_style(st)
                }
                TOp::ReTemplate(t) => {
                    let st = make_style(*t, Some(cur.style()));
                    kept.borrow_mut().push(st.clone());
                    cur.set_style(st);
                    cur
                }
                TOp::SetExpandedCopy(prefix) => {
                    // plain text that equals what the current (possibly tabbed) text expands to
                    if *prefix {
                        cur.set_prefix(cur.prefix());
                    } else {
                        cur.set_message(cur.message());
                    }
                    cur
                }
                TOp::SetMessage(m) => {
                    cur.set_message(m.clone());
                    cur
                }
                TOp::WithMessage(m) => cur.with_message(m.clone()),
                TOp::SetPrefix(m) => {
                    cur.set_prefix(m.clone());
                    cur
                }
                TOp::WithPrefix(m) => cur.with_prefix(m.clone()),
                TOp::FinishWithMessage(m) => {
                    cur.finish_with_message(m.clone());
                    cur
                }
                TOp::AbandonWithMessage(m) => {
                    cur.abandon_with_message(m.clone());
                    cur
                }
                TOp::Reset => {
                    cur.reset();
                    cur
                }
                TOp::Tick => {
                    cur.tick();
                    cur
                }
                TOp::WithFinishMessage(m, abandon) => {
                    if *abandon {
                        cur.with_finish(ProgressFinish::AbandonWithMessage(m.clone().into()))
                    } else {
                        cur.with_finish(ProgressFinish::WithMessage(m.clone().into()))
                    }
                }
                TOp::StashStyle => {
                    *stash.borrow_mut() = Some((cur.style(), tmpl));
                    cur
                }
                TOp::Println => {
                    // (only while the bar is visible: what becomes of a line printed through a hidden target is
                    // not this property's business)
                    if visible {
                        cur.println("log");
                        *under_println.borrow_mut() = Some(vt.last_frame_lines());
                    }
                    cur
                }
                TOp::SetStashedStyle => {
                    if let Some((st, _)) = stash.borrow().as_ref() {
                        cur.set_style(st.clone());
                    }
                    cur
                }
                TOp::FinishUsingStyle => {
                    // (with the default AndClear nothing would stay on screen to look at)
                    if stored_finish.is_some() {
                        cur.finish_using_style();
                    } else {
                        cur.tick();
                    }
                    cur
                }
                TOp::DropWithMessage(m) => {
                    cur.reset();
                    let cur = cur.with_finish(ProgressFinish::WithMessage(m.clone().into()));
                    drop(cur);
                    return None;
                }
            })
        })
        .map_err(|p| Fail::new("panic", format!("op #{i} {op:?} panicked: {p}")))?;
        match op {
            TOp::SetTabWidth(w) | TOp::WithTabWidth(w) => {
                if *w != tw && tab_text_at.is_some() {
                    changed_after = true;
                }
                tw = *w;
            }
            TOp::SetStyle(t) | TOp::WithStyle(t) | TOp::ReTemplate(t) => {
                tmpl = *t;
                tab_text_at.get_or_insert(i);
            }
            TOp::SetMessage(m) | TOp::WithMessage(m) | TOp::FinishWithMessage(m) | TOp::AbandonWithMessage(m) | TOp::DropWithMessage(m) => {
                msg = m.clone();
                if m.contains('\t') {
                    tab_text_at.get_or_insert(i);
                }
            }
            TOp::SetPrefix(m) | TOp::WithPrefix(m) => {
                prefix = m.clone();
                if m.contains('\t') {
                    tab_text_at.get_or_insert(i);
                }
            }
            TOp::Reset | TOp::Tick | TOp::StashStyle | TOp::Println => {}
            TOp::SetExpandedCopy(is_prefix) => {
                if *is_prefix {
                    prefix = model::expand_tabs(&prefix, tw);
                } else {
                    msg = model::expand_tabs(&msg, tw);
                }
                v.label("expanded_text_set_again_as_plain_text");
            }
            TOp::SetStashedStyle => {
                if let Some((_, t)) = stash.borrow().as_ref() {
                    tmpl = *t;
                    tab_text_at.get_or_insert(i);
                    v.label("style_taken_from_the_bar_earlier_set_again");
                }
            }
            TOp::WithFinishMessage(m, _) => {
                stored_finish = Some(m.clone());
                if m.contains('\t') {
                    tab_text_at.get_or_insert(i);
                }
            }
            TOp::FinishUsingStyle => {
                if let Some(m) = &stored_finish {
                    msg = m.clone();
                    v.label("stored_finish_message_applied");
                }
            }
        }
        pb = r;
        if let (true, Some(got)) = (visible, under_println.borrow_mut().take()) {
            // the frame painted by println itself: the log line, then the bar lines
            let got = got.map_err(|e| Fail::new("harness", e))?;
            let mut want = vec!["log".to_string()];
            want.extend(expected_lines(TEMPLATES[tmpl as usize % TEMPLATES.len()], &msg, &prefix, tw));
            ensure!(got == want, "frame", "op #{i} println (tab width {tw}, template {:?}): the frame painted by println is {got:?}, expected {want:?}; ops {:?}", template_string(TEMPLATES[tmpl as usize % TEMPLATES.len()]), &c.ops[..=i]);
            v.label("bar_lines_repainted_by_println");
        }
        let segs = TEMPLATES[tmpl as usize % TEMPLATES.len()];
        if let Some(p) = &pb {
            // getters return the expanded text
            let (gm, gp) = (p.message(), p.prefix());
            ensure!(gm == model::expand_tabs(&msg, tw), "getter", "after op #{i} {op:?}: message() = {gm:?}, expected {:?} (tab width {tw})", model::expand_tabs(&msg, tw));
            ensure!(gp == model::expand_tabs(&prefix, tw), "getter", "after op #{i} {op:?}: prefix() = {gp:?}, expected {:?} (tab width {tw})", model::expand_tabs(&prefix, tw));
            // force a frame and compare it with the model
            catch(|| p.force_draw()).map_err(|e| Fail::new("panic", format!("draw after op #{i} {op:?} panicked: {e}")))?;
        }
        ensure!(!vt.lock().tab_seen, "raw_tab", "after op #{i} {op:?}: a TAB character reached the terminal (ops {:?})", &c.ops[..=i]);
        if !visible {
            ensure!(vt.ncalls() == 0, "harness", "the hidden bar reached the terminal");
            continue;
        }
        let lines = vt.last_frame_lines().map_err(|e| Fail::new("harness", e))?;
        let want = expected_lines(segs, &msg, &prefix, tw);
        ensure!(
            lines == want,
            "frame",
            "after op #{i} {op:?} (tab width {tw}, template {:?}, hidden until {:?}): painted {lines:?}, expected {want:?}; ops {:?}",
            template_string(segs),
            c.hidden,
            &c.ops[..=i]
        );
    }
    drop(pb);
    drop(mp);
    v.nontrivial = changed_after;
    v.label_if(changed_after, "width_change_after_tab_text");
    v.label_if(c.ops.iter().any(|o| matches!(o, TOp::ReTemplate(_))), "retemplate_of_cloned_style");
    v.label_if(most_tabs >= 255, "text_with_hundreds_of_tabs");
    v.label_if(widest >= 65536, "tab_width_beyond_u16");
    v.label_if(c.ops.iter().any(|o| matches!(o, TOp::SetTabWidth(0) | TOp::WithTabWidth(0))), "width_zero");
    v.label_if(c.ops.iter().any(|o| matches!(o, TOp::DropWithMessage(_))), "drop_with_message");
    v.label_if(c.ops.iter().any(|o| matches!(o, TOp::FinishWithMessage(m) | TOp::AbandonWithMessage(m) if m.contains('\t'))), "finish_message_with_tab");
    Ok(v)
}

pub fn property() -> Property {
    let w = default_workers();
    Property {
        id: "C16",
        level: "exploration",
        assumptions: &[
            "println text lines are outside the statement (bar lines only) and are not generated here",
            "each history step is followed by a forced draw so that the frame can be compared with the model",
        ],
        parts: vec![Box::new(Gen::<TabCase> {
            name: "history",
            rule: "0-14 (thorough 30) ops from set_tab_width/with_tab_width (0..=16, occasionally up to 300), set_style/with_style/style().template() re-set over 11 templates (tabs in literals, a tab-writing custom key behind padding/aligning/truncating placeholders, tab literals ending at a line break, '{'+TAB, custom keys writing tabs in one and in several writes), set/with message/prefix with 0-5 tabs, finish_with_message/abandon_with_message/reset/tick/println (the bar lines it repaints), optional final drop with ProgressFinish::WithMessage; after every op: no TAB in any terminal write, painted lines == model with tabs -> current width, message()/prefix() == expanded; non-trivial = a width change after a text with a tab was set",
            strategy: case_strategy,
            cases: |t| t.pick(30_000, 1_200_000),
            run: run_tabs,
            signature: no_signature,
            essential: &["width_change_after_tab_text", "retemplate_of_cloned_style", "width_zero", "drop_with_message", "finish_message_with_tab", "configured_while_hidden_then_shown", "stored_finish_message_applied", "style_taken_from_the_bar_earlier_set_again", "expanded_text_set_again_as_plain_text", "bar_lines_repainted_by_println", "text_with_hundreds_of_tabs", "tab_width_beyond_u16"],
            workers: w,
            decode: Some(decode_tabs),
        })],
    }
}
