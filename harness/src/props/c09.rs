//! C09 Rate and ETA estimator laws (virtual clock).
use std::time::Duration;

use indicatif::{ProgressBar, ProgressDrawTarget};
use proptest::prelude::*;
use serde::{Deserialize, Serialize};

use crate::clock;
use crate::ensure;
use crate::runner::*;

fn secs_to_duration(s: f64) -> Duration {
    let secs = s.trunc() as u64;
    let nanos = (s.fract() * 1_000_000_000f64) as u32;
    Duration::new(secs, nanos)
}

/// log-uniform gap in ms from 1 ms to 10 days
fn gap_strategy() -> BoxedStrategy<u64> {
    prop_oneof![
        3 => 1u64..20,
        3 => 20u64..2_000,
        2 => 2_000u64..120_000,
        1 => 120_000u64..3_600_000,
        1 => 3_600_000u64..864_000_000,
    ]
    .boxed()
}

fn delta_strategy() -> BoxedStrategy<u64> {
    prop_oneof![
        2 => Just(0u64),
        4 => 1u64..100,
        2 => 100u64..1_000_000,
        1 => (0u32..50).prop_flat_map(|k| 1u64..=(1u64 << k)),
    ]
    .boxed()
}

#[derive(Debug, Clone, Serialize, Deserialize)]
pub enum Ev {
    Inc(u64),
    SetPos(u64),
    Tick,
    ResetEta,
    ResetElapsed,
    Reset,
    SetLen(Option<u64>),
    Finish,
    /// finish_and_clear(): finished like finish(), nothing is left on the terminal
    FinishAndClear,
    /// abandon(): finished with the position left where it is
    Abandon,
    /// k calls of inc(1) at one instant (one update of +k; the bar's own throttle drops most of the samples)
    Burst(u8),
    /// update(|s| s.set_pos(p)): the position set through the state handle (a rewind when p is smaller)
    UpdateSetPos(u64),
    /// inc_length / dec_length (saturating)
    IncLen(u64),
    DecLen(u64),
    /// with_elapsed(ms) applied late, to a clone of the live bar: only elapsed() is backdated - what the
    /// estimator has learnt stays
    WithElapsedLate(u32),
}

#[derive(Debug, Clone, Serialize, Deserialize)]
pub struct LawCase {
    len: Option<u64>,
    steps: Vec<(u64, Ev)>,
    /// query delays (ms) after the last step; cumulative
    stall: Vec<u64>,
}

struct Track {
    last_pos: u64,
    last_t: i64,
    max_rate: f64,
    /// virtual ns of the last reset-like event (creation, reset*, rewind)
    reset_t: i64,
    distinct_rates: Vec<f64>,
    /// largest rate of any forward step since creation (never cleared)
    whole_max: f64,
    /// no reset_elapsed / reset / backwards seek / finish() so far: the position was reached by forward
    /// steps since creation only
    forward_only: bool,
    abandoned: bool,
    /// steps of a same-instant burst that the estimator may only see together with the next update
    burst_extra: u64,
    /// the length the history defines (set_length/unset_length, inc_length/dec_length saturating)
    len: Option<u64>,
}

/// All point-wise laws at the current (frozen) instant.
fn check_point(pb: &ProgressBar, tr: &Track, ctx: &str) -> Result<(), Fail> {
    let now = clock::now_ns();
    let (ps, eta, dur, el, pos, len, fin) = catch(|| (pb.per_sec(), pb.eta(), pb.duration(), pb.elapsed(), pb.position(), pb.length(), pb.is_finished()))
        .map_err(|p| Fail::new("panic", format!("{ctx}: estimator getter panicked: {p}")))?;
    if now <= tr.reset_t {
        return Ok(()); // only instants strictly after creation / reset are quantified
    }
    ensure!(ps.is_finite() && ps >= 0.0, "finite", "{ctx}: per_sec() = {ps} (must be finite and >= 0)");
    ensure!(len == tr.len, "length", "{ctx}: the remaining steps are counted against length {len:?}, the history defines {:?}", tr.len);
    if !fin {
        ensure!(
            tr.burst_extra > 0 || ps <= tr.max_rate * (1.0 + 1e-9) + f64::MIN_POSITIVE,
            "upper_bound",
            "{ctx}: per_sec() = {ps} exceeds the largest rate observed since the last reset ({})",
            tr.max_rate
        );
        let rem = len.map(|l| l.saturating_sub(pos));
        let want = match rem {
            None => Duration::ZERO,
            Some(_) if ps == 0.0 => Duration::ZERO,
            Some(r) => secs_to_duration(r as f64 / ps),
        };
        let diff = if eta > want { eta - want } else { want - eta };
        ensure!(diff <= Duration::from_nanos(1), "eta", "{ctx}: eta() = {eta:?}, remaining/per_sec = {want:?} (pos {pos}, len {len:?}, per_sec {ps})");
        let want_dur = if len.is_none() { Duration::ZERO } else { el.saturating_add(eta) };
        ensure!(dur == want_dur, "duration", "{ctx}: duration() = {dur:?}, elapsed + eta = {want_dur:?}");
    } else {
        ensure!(eta == Duration::ZERO, "eta", "{ctx}: eta() = {eta:?} for a finished bar");
        if tr.abandoned && tr.forward_only {
            // abandoned where it stood after forward steps only: whatever rate is reported, it lies
            // between zero and the largest rate observed
            ensure!(
                ps <= tr.whole_max * (1.0 + 1e-9) + f64::MIN_POSITIVE,
                "upper_bound_abandoned",
                "{ctx}: per_sec() = {ps} of the abandoned bar (position {pos}, length {len:?}, elapsed {el:?}) exceeds the largest rate ever observed ({})",
                tr.whole_max
            );
        }
    }
    Ok(())
}

fn apply(pb: &ProgressBar, ev: &Ev, tr: &mut Track, pos: &mut u64) {
    let now = clock::now_ns();
    let forward = |new: u64, tr: &mut Track| {
        if new > tr.last_pos && now > tr.last_t {
            let rate = (new - tr.last_pos) as f64 / ((now - tr.last_t) as f64 / 1e9);
            tr.max_rate = tr.max_rate.max(rate);
            tr.whole_max = tr.whole_max.max(rate);
            if !tr.distinct_rates.iter().any(|r| (r - rate).abs() <= 1e-9 * rate) {
                tr.distinct_rates.push(rate);
            }
            tr.last_pos = new;
            tr.last_t = now;
        } else if new < tr.last_pos {
            // backwards seek: everything before is ignored
            tr.forward_only = false;
            tr.last_pos = new;
            tr.last_t = now;
            tr.reset_t = now;
            tr.max_rate = 0.0;
            tr.distinct_rates.clear();
        }
    };
    match ev {
        Ev::Inc(d) => {
            *pos = pos.saturating_add(*d);
            pb.set_position(*pos);
            forward(*pos, tr);
        }
        Ev::SetPos(p) => {
            *pos = *p;
            pb.set_position(*p);
            forward(*p, tr);
        }
        Ev::Tick => pb.tick(),
        Ev::ResetEta => {
            pb.tick(); // make sure the estimator has seen the current position
            forward(*pos, tr);
            pb.reset_eta();
            tr.last_t = now;
            tr.reset_t = now;
            tr.max_rate = 0.0;
            tr.distinct_rates.clear();
        }
        Ev::ResetElapsed => {
            pb.tick();
            forward(*pos, tr);
            pb.reset_elapsed();
            tr.forward_only = false;
            tr.last_t = now;
            tr.reset_t = now;
            tr.max_rate = 0.0;
            tr.distinct_rates.clear();
        }
        Ev::Reset => {
            pb.reset();
            tr.forward_only = false;
            tr.abandoned = false;
            *pos = 0;
            tr.last_pos = 0;
            tr.last_t = now;
            tr.reset_t = now;
            tr.max_rate = 0.0;
            tr.distinct_rates.clear();
        }
        Ev::SetLen(l) => {
            match l {
                Some(l) => pb.set_length(*l),
                None => pb.unset_length(),
            }
            tr.len = *l;
        }
        Ev::IncLen(d) => {
            pb.inc_length(*d);
            tr.len = tr.len.map(|l| l.saturating_add(*d));
        }
        Ev::DecLen(d) => {
            pb.dec_length(*d);
            tr.len = tr.len.map(|l| l.saturating_sub(*d));
        }
        Ev::WithElapsedLate(ms) => {
            let before = pb.per_sec();
            drop(pb.clone().with_elapsed(Duration::from_millis(*ms as u64)));
            // (elapsed() now starts somewhere else, as after reset_elapsed: rates derived from it are not comparable any more)
            tr.forward_only = false;
            let after = pb.per_sec();
            // (for a finished bar per_sec() is position / elapsed by definition, so it follows the backdating)
            assert!(pb.is_finished() || before == after || (before.is_nan() && after.is_nan()), "LAW: with_elapsed() on a clone changed per_sec() from {before} to {after}");
        }
        Ev::UpdateSetPos(p) => {
            *pos = *p;
            pb.update(|s| s.set_pos(*p));
            forward(*p, tr);
        }
        Ev::Finish => {
            pb.finish();
            tr.forward_only = false;
        }
        Ev::FinishAndClear => {
            pb.finish_and_clear();
            tr.forward_only = false;
        }
        Ev::Abandon => {
            pb.abandon();
            tr.abandoned = true;
        }
        Ev::Burst(k) => {
            for _ in 0..*k {
                pb.inc(1);
            }
            *pos = pos.saturating_add(*k as u64);
            if pb.position() != *pos {
                // (saturated at u64::MAX in the model, wrapped in the bar: resynchronise)
                pb.set_position(*pos);
            }
            forward(*pos, tr);
            // several steps at one instant are outside the quantified histories (gaps from 1 ms): the observed
            // rate is unbounded (steps over no time) and the estimator samples only some of the positions,
            // so which rates and rewinds it saw is unknown from here on. What remains checkable - and is the
            // point of generating bursts - is finiteness and eta == remaining / rate with the live position.
            tr.burst_extra = *k as u64;
            tr.whole_max = f64::INFINITY;
            tr.distinct_rates.push(f64::INFINITY);
            tr.distinct_rates.push(0.0);
        }
    }
}

fn run_laws(c: &LawCase) -> CaseResult {
    let _clk = clock::Armed::new();
    let pb = ProgressBar::with_draw_target(c.len, ProgressDrawTarget::hidden());
    let mut tr = Track { last_pos: 0, last_t: clock::now_ns(), max_rate: 0.0, reset_t: clock::now_ns(), distinct_rates: vec![], whole_max: 0.0, forward_only: true, abandoned: false, burst_extra: 0, len: c.len };
    let mut pos = 0u64;
    let mut v = Verdict::default();
    let mut updates = 0;
    let mut gaps: Vec<u64> = vec![];
    let mut finished = false;
    for (i, (gap, ev)) in c.steps.iter().enumerate() {
        clock::advance(Duration::from_millis((*gap).max(1)));
        check_point(&pb, &tr, &format!("before step #{i} {ev:?}"))?;
        let before_reset = tr.reset_t;
        catch(|| apply(&pb, ev, &mut tr, &mut pos)).map_err(|p| Fail::new(if p.contains("LAW:") { "estimate_forgotten" } else { "panic" }, format!("step #{i} {ev:?}: {p}")))?;
        if matches!(ev, Ev::Inc(d) if *d > 0) {
            updates += 1;
            if !gaps.contains(gap) {
                gaps.push(*gap);
            }
        }
        if matches!(ev, Ev::Finish | Ev::FinishAndClear | Ev::Abandon) {
            finished = true;
        }
        if matches!(ev, Ev::Reset) {
            finished = false;
        }
        v.label_if(tr.reset_t != before_reset, "reset_or_rewind");
    }
    // stall: queries at increasing delays after the last step
    let mut prev = None::<f64>;
    let mut total = 0u64;
    let steady = tr.distinct_rates.len() <= 1 && tr.burst_extra == 0;
    let mut rise = None;
    for (k, d) in c.stall.iter().enumerate() {
        clock::advance(Duration::from_millis((*d).max(1)));
        total += (*d).max(1);
        check_point(&pb, &tr, &format!("stall query #{k} (+{total} ms)"))?;
        let ps = pb.per_sec();
        if !finished {
            if let Some(p) = prev {
                if ps > p * (1.0 + 1e-12) && rise.is_none() {
                    rise = Some((k, total, p, ps));
                }
            }
            // (after a same-instant burst - outside the quantified gaps - the estimator may not have seen a
            // later backwards seek as one: only the point-wise laws above are asserted then)
            if total >= 3_600_000 && tr.burst_extra == 0 {
                ensure!(ps <= tr.max_rate * 1e-9, "stall_no_decay", "after a stall of {total} ms per_sec() is still {ps} (largest rate seen {})", tr.max_rate);
            }
        }
        prev = Some(ps);
    }
    if let Some((k, total, p, ps)) = rise {
        let kind = if steady { "stall_not_monotone_steady" } else { "stall_not_monotone" };
        return Err(Fail::new(kind, format!("per_sec() rose from {p} to {ps} during a stall (query #{k}, +{total} ms, no progress in between)")));
    }
    v.nontrivial = (updates >= 3 && gaps.len() >= 2) || v.labels.contains(&"reset_or_rewind");
    v.label_if(updates >= 3 && gaps.len() >= 2, "three_updates_two_gaps");
    v.label_if(!c.stall.is_empty() && !finished, "stall_queried");
    v.label_if(!steady, "rate_changed");
    v.label_if(finished, "finished");
    v.label_if(tr.abandoned && tr.forward_only && updates > 0, "abandoned_after_forward_steps_only");
    Ok(v)
}

/// Known finding F-C09: the double-smoothed estimate can keep rising during a stall when the rate
/// changed before it. Signature over the *case*: the history after the last reset is not steady.
fn laws_signature(c: &LawCase) -> Option<&'static str> {
    // (a same-instant burst is seen by the estimator as two samples: its first step and, later, the rest)
    let ups = c.steps.iter().map(|(_, e)| if matches!(e, Ev::Burst(_)) { 2 } else { usize::from(matches!(e, Ev::Inc(d) if *d > 0) || matches!(e, Ev::SetPos(_) | Ev::UpdateSetPos(_))) }).sum::<usize>();
    if ups >= 2 && !c.stall.is_empty() {
        Some("stall_after_rate_change")
    } else {
        None
    }
}

fn ev_strategy() -> BoxedStrategy<Ev> {
    prop_oneof![
        10 => delta_strategy().prop_map(Ev::Inc),
        1 => prop_oneof![0u64..1000, any::<u64>().prop_map(|x| x >> 11)].prop_map(Ev::SetPos),
        1 => Just(Ev::Tick),
        1 => Just(Ev::ResetEta),
        1 => Just(Ev::ResetElapsed),
        1 => Just(Ev::Reset),
        1 => proptest::option::weighted(0.8, prop_oneof![0u64..10_000, any::<u64>()]).prop_map(Ev::SetLen),
        1 => Just(Ev::Finish),
        1 => Just(Ev::FinishAndClear),
        1 => Just(Ev::Abandon),
        1 => (11u8..60).prop_map(Ev::Burst),
        1 => prop_oneof![0u64..1000, any::<u64>().prop_map(|x| x >> 11)].prop_map(Ev::UpdateSetPos),
        1 => prop_oneof![3 => 0u64..1000, 1 => any::<u64>(), 1 => Just(u64::MAX)].prop_map(Ev::IncLen),
        1 => prop_oneof![3 => 0u64..1000, 1 => any::<u64>(), 1 => Just(u64::MAX)].prop_map(Ev::DecLen),
        1 => (0u32..100_000).prop_map(Ev::WithElapsedLate),
    ]
    .boxed()
}

fn laws_strategy(tier: Tier) -> BoxedStrategy<LawCase> {
    let n = tier.pick(25, 60);
    (
        proptest::option::weighted(0.85, prop_oneof![0u64..100_000, (0u32..63).prop_map(|k| 1u64 << k), any::<u64>()]),
        proptest::collection::vec((gap_strategy(), ev_strategy()), 0..n),
        proptest::collection::vec(gap_strategy(), 0..8),
    )
        .prop_map(|(len, steps, stall)| LawCase { len, steps, stall })
        .boxed()
}

// ------------------------------------------------------------------------------------------
// steady progress

#[derive(Debug, Clone, Serialize, Deserialize)]
pub struct SteadyCase {
    /// steps per millisecond
    rate_per_ms: u64,
    gaps_ms: Vec<u64>,
    stall: Vec<u64>,
    via_inc: bool,
    /// position at which the steady progress starts (the estimator is reset there)
    #[serde(default)]
    offset: u64,
    /// the bar is built with with_elapsed(this many ms): only elapsed() is backdated, the rate is not
    #[serde(default)]
    with_elapsed_ms: u64,
    /// before the steady progress starts the position stood `.0` steps further on and is set back (a
    /// backwards seek; `.1`: at the very instant of the update that brought it there) - ignored from then on
    #[serde(default)]
    rewound: Option<(u8, bool)>,
}

fn run_steady(c: &SteadyCase) -> CaseResult {
    let _clk = clock::Armed::new();
    let mut pb = ProgressBar::with_draw_target(Some(u64::MAX), ProgressDrawTarget::hidden());
    if c.with_elapsed_ms > 0 {
        pb = pb.with_elapsed(Duration::from_millis(c.with_elapsed_ms));
        ensure!(pb.elapsed() >= Duration::from_millis(c.with_elapsed_ms), "harness", "with_elapsed did not backdate elapsed()");
    }
    let mut pos = c.offset;
    if c.offset > 0 {
        // start from a large position: everything before reset_eta() is to be ignored
        clock::advance(Duration::from_millis(7));
        pb.set_position(c.offset);
        clock::advance(Duration::from_millis(7));
        pb.tick();
        pb.reset_eta();
    }
    if let Some((ahead, same_instant)) = c.rewound {
        clock::advance(Duration::from_millis(11));
        pb.set_position(c.offset + 1 + ahead as u64);
        if !same_instant {
            clock::advance(Duration::from_millis(3));
        }
        pb.set_position(c.offset);
    }
    let rate = c.rate_per_ms as f64 * 1000.0;
    for (i, g) in c.gaps_ms.iter().enumerate() {
        let g = (*g).max(1);
        clock::advance(Duration::from_millis(g));
        let Some(d) = c.rate_per_ms.checked_mul(g) else { break };
        if pos.checked_add(d).map_or(true, |p| p > (1 << 62) + (1 << 61)) {
            break;
        }
        pos += d;
        if c.via_inc {
            pb.inc(d);
        } else {
            pb.set_position(pos);
        }
        let ps = pb.per_sec();
        ensure!(
            (ps - rate).abs() <= 1e-9 * rate,
            "steady_rate",
            "steady {rate} steps/s, after update #{i} (gaps {:?} ms): per_sec() = {ps}",
            &c.gaps_ms[..=i]
        );
    }
    let mut prev = pb.per_sec();
    let mut total = 0;
    for d in &c.stall {
        clock::advance(Duration::from_millis((*d).max(1)));
        total += (*d).max(1);
        let ps = pb.per_sec();
        ensure!(ps.is_finite() && ps >= 0.0, "finite", "per_sec() = {ps} during a stall");
        ensure!(ps <= prev * (1.0 + 1e-12), "stall_not_monotone_steady", "steady history, stall +{total} ms: per_sec() rose from {prev} to {ps}");
        prev = ps;
    }
    let mut v = Verdict::default();
    let mut distinct = c.gaps_ms.clone();
    distinct.sort();
    distinct.dedup();
    v.nontrivial = c.gaps_ms.len() >= 3 && distinct.len() >= 2;
    v.label_if(v.nontrivial, "irregular_cadence");
    v.label_if(!c.stall.is_empty(), "stall_queried");
    v.label_if(c.with_elapsed_ms > 0, "built_with_elapsed");
    v.label_if(c.gaps_ms.iter().any(|g| *g >= 60_000), "long_gap");
    v.label_if(c.offset > 1 << 53, "offset_beyond_2_53");
    v.label_if(matches!(c.rewound, Some((_, true))), "rewound_at_the_instant_of_an_update");
    v.label_if(matches!(c.rewound, Some((_, false))), "rewound_before_the_steady_phase");
    Ok(v)
}

fn steady_strategy(tier: Tier) -> BoxedStrategy<SteadyCase> {
    let n = tier.pick(40, 200);
    (
        prop_oneof![1u64..10, 10u64..10_000, (0u32..40).prop_map(|k| 1u64 << k)],
        proptest::collection::vec(gap_strategy(), 1..n),
        proptest::collection::vec(gap_strategy(), 0..8),
        any::<bool>(),
        prop_oneof![3 => Just(0u64), 1 => 1u64..1_000_000, 2 => (40u32..63).prop_map(|k| 1u64 << k)],
        prop_oneof![3 => Just(0u64), 1 => 1u64..100_000, 1 => 100_000u64..100_000_000],
        proptest::option::weighted(0.3, (0u8..4, any::<bool>())),
    )
        .prop_map(|(rate_per_ms, gaps_ms, stall, via_inc, offset, with_elapsed_ms, rewound)| SteadyCase { rate_per_ms, gaps_ms, stall, via_inc, offset, with_elapsed_ms, rewound })
        .boxed()
}

// ------------------------------------------------------------------------------------------
// indifference to the history before reset_eta / reset / rewind

#[derive(Debug, Clone, Serialize, Deserialize)]
pub enum Barrier {
    ResetEta,
    ResetElapsed,
    Reset,
    /// both bars seek back to this fraction (per mille) of the smaller position
    Rewind(u16),
}

#[derive(Debug, Clone, Serialize, Deserialize)]
pub struct TwinCase {
    len: Option<u64>,
    /// (gap ms, delta for A, delta for B)
    pre: Vec<(u64, u64, u64)>,
    barrier: Barrier,
    /// (gap ms, delta) applied to both
    suffix: Vec<(u64, u64)>,
    stall: Vec<u64>,
}

fn run_twin(c: &TwinCase) -> CaseResult {
    let _clk = clock::Armed::new();
    let a = ProgressBar::with_draw_target(c.len, ProgressDrawTarget::hidden());
    let b = ProgressBar::with_draw_target(c.len, ProgressDrawTarget::hidden());
    let (mut pa, mut pbp) = (0u64, 0u64);
    for (g, da, db) in &c.pre {
        clock::advance(Duration::from_millis((*g).max(1)));
        pa = pa.saturating_add(*da);
        pbp = pbp.saturating_add(*db);
        a.set_position(pa);
        b.set_position(pbp);
    }
    clock::advance(Duration::from_millis(5));
    let mut pos;
    match &c.barrier {
        Barrier::Rewind(pm) => {
            let q = (pa.min(pbp) as u128 * (*pm as u128 % 1000) / 1000) as u64;
            if q >= pa.min(pbp) {
                // no room to seek backwards on both: fall back to reset_eta semantics below
                pos = pa.max(pbp);
                a.set_position(pos);
                b.set_position(pos);
                clock::advance(Duration::from_millis(5));
                a.reset_eta();
                b.reset_eta();
            } else {
                pos = q;
                a.set_position(q);
                b.set_position(q);
            }
        }
        Barrier::Reset => {
            // reset() zeroes the position itself: no need to equalise first
            a.reset();
            b.reset();
            pos = 0;
        }
        other => {
            // bring both to the same position first (the statement compares equal positions)
            pos = pa.max(pbp);
            a.set_position(pos);
            b.set_position(pos);
            clock::advance(Duration::from_millis(5));
            match other {
                Barrier::ResetEta => {
                    a.reset_eta();
                    b.reset_eta();
                }
                Barrier::ResetElapsed => {
                    a.reset_elapsed();
                    b.reset_elapsed();
                }
                _ => {
                    a.reset();
                    b.reset();
                    pos = 0;
                }
            }
        }
    }
    let cmp = |ctx: &str| -> Result<(), Fail> {
        let (x, y) = (a.per_sec(), b.per_sec());
        ensure!(
            x.to_bits() == y.to_bits() || (x.is_nan() && y.is_nan()),
            "history_leak",
            "{ctx}: per_sec() differs between two bars that differ only in what happened before {:?}: {x} vs {y} (pre-histories {:?})",
            c.barrier,
            c.pre
        );
        let (ea, eb) = (a.eta(), b.eta());
        ensure!(ea == eb, "history_leak", "{ctx}: eta() differs: {ea:?} vs {eb:?}");
        ensure!(a.position() == b.position(), "history_leak", "{ctx}: positions differ");
        Ok(())
    };
    let mut progressed = false;
    for (i, (g, d)) in c.suffix.iter().enumerate() {
        clock::advance(Duration::from_millis((*g).max(1)));
        cmp(&format!("before suffix step #{i}"))?;
        pos = pos.saturating_add(*d);
        a.set_position(pos);
        b.set_position(pos);
        cmp(&format!("after suffix step #{i} (+{d} at +{g} ms)"))?;
        progressed |= *d > 0;
    }
    for (k, d) in c.stall.iter().enumerate() {
        clock::advance(Duration::from_millis((*d).max(1)));
        cmp(&format!("stall query #{k}"))?;
    }
    let mut v = Verdict::default();
    let differ = c.pre.iter().any(|(_, x, y)| x != y);
    v.nontrivial = differ && progressed;
    v.label_if(differ && progressed, "different_prehistories_then_progress");
    v.label_if(matches!(c.barrier, Barrier::Rewind(_)), "rewind");
    v.label_if(matches!(c.barrier, Barrier::Reset), "reset_all");
    v.label_if(matches!(c.barrier, Barrier::ResetEta), "reset_eta");
    Ok(v)
}

fn twin_strategy(_tier: Tier) -> BoxedStrategy<TwinCase> {
    (
        proptest::option::weighted(0.8, prop_oneof![10u64..100_000, any::<u64>()]),
        proptest::collection::vec((gap_strategy(), delta_strategy(), delta_strategy()), 0..12),
        prop_oneof![Just(Barrier::ResetEta), Just(Barrier::ResetElapsed), Just(Barrier::Reset), (0u16..1000).prop_map(Barrier::Rewind)],
        proptest::collection::vec((gap_strategy(), delta_strategy()), 0..12),
        proptest::collection::vec(gap_strategy(), 0..4),
    )
        .prop_map(|(len, pre, barrier, suffix, stall)| TwinCase { len, pre, barrier, suffix, stall })
        .boxed()
}

fn decode_laws(u: &mut FuzzInput) -> LawCase {
    fn gap(u: &mut FuzzInput) -> u64 {
        match u.n(9) {
            0..=2 => 1 + u.n(18) as u64,
            3..=5 => u.range(20, 2_000),
            6 | 7 => u.range(2_000, 120_000),
            8 => u.range(120_000, 3_600_000),
            _ => u.range(3_600_000, 864_000_000),
        }
    }
    let len = if u.n(6) == 0 { None } else { Some(match u.n(2) { 0 => u.range(0, 100_000), 1 => 1u64 << u.n(62), _ => u.u64() }) };
    let mut steps = vec![];
    let n = u.n(40);
    for _ in 0..n {
        let g = gap(u);
        let ev = match u.n(20) {
            0..=9 => Ev::Inc(match u.n(8) { 0 | 1 => 0, 2..=5 => u.range(1, 100), 6 | 7 => u.range(100, 1_000_000), _ => { let k = u.n(49); u.range(1, 1u64 << k) } }),
            10 => Ev::SetPos(if u.bool() { u.range(0, 1000) } else { u.u64() >> 11 }),
            11 => Ev::Tick,
            12 => Ev::ResetEta,
            13 => Ev::ResetElapsed,
            14 => Ev::Reset,
            15 => Ev::SetLen(if u.n(4) == 0 { None } else { Some(if u.bool() { u.range(0, 10_000) } else { u.u64() }) }),
            16 => Ev::Finish,
            18 => Ev::UpdateSetPos(if u.bool() { u.range(0, 1000) } else { u.u64() >> 11 }),
            19 => Ev::IncLen(match u.n(2) { 0 => u.range(0, 1000), 1 => u.u64(), _ => u64::MAX }),
            20 => Ev::DecLen(match u.n(2) { 0 => u.range(0, 1000), 1 => u.u64(), _ => u64::MAX }),
            _ => if u.bool() { Ev::Abandon } else { Ev::Burst(11 + u.n(40) as u8) },
        };
        steps.push((g, ev));
    }
    let stall = (0..u.n(7)).map(|_| gap(u)).collect();
    LawCase { len, steps, stall }
}

// ------------------------------------------------------------------------------------------
// several updaters (real threads, real clock): the reported values stay finite and non-negative

#[derive(Debug, Clone, Serialize, Deserialize)]
pub struct SharedCase {
    threads: u8,
    updates: u16,
    /// each updater calls tick() after inc() (a second sample with its own, possibly older, time stamp)
    tick: bool,
}

fn run_shared(c: &SharedCase) -> CaseResult {
    let pb = ProgressBar::with_draw_target(Some(u64::MAX / 2), ProgressDrawTarget::hidden());
    let n = c.threads.clamp(2, 8) as usize;
    let updates = c.updates.clamp(100, 20_000) as u64;
    let stop = std::sync::atomic::AtomicBool::new(false);
    let bad = std::sync::Mutex::new(None::<String>);
    let probe = |when: &str| {
        let (ps, eta, dur) = (pb.per_sec(), pb.eta(), pb.duration());
        if !(ps.is_finite() && ps >= 0.0) {
            bad.lock().unwrap().get_or_insert(format!("{when}: per_sec() = {ps}"));
        }
        let _ = (eta, dur);
    };
    let r = catch(|| {
        std::thread::scope(|s| {
            let hs: Vec<_> = (0..n)
                .map(|_| {
                    let pb = pb.clone();
                    s.spawn(move || {
                        for _ in 0..updates {
                            pb.inc(1);
                            if c.tick {
                                pb.tick();
                            }
                        }
                    })
                })
                .collect();
            s.spawn(|| {
                while !stop.load(std::sync::atomic::Ordering::Relaxed) {
                    probe("while the updaters run");
                    std::thread::yield_now();
                }
            });
            for h in hs {
                h.join().unwrap();
            }
            stop.store(true, std::sync::atomic::Ordering::Relaxed);
        })
    });
    stop.store(true, std::sync::atomic::Ordering::Relaxed);
    r.map_err(|p| Fail::new("panic", format!("{n} concurrent updaters: {p}")))?;
    probe("after the updaters finished");
    std::thread::sleep(Duration::from_millis(2));
    probe("2 ms after the updaters finished");
    if let Some(b) = bad.lock().unwrap().take() {
        return Err(Fail::new("finite", format!("{n} threads x {updates} inc(1){} on clones of one bar: {b}", if c.tick { " + tick()" } else { "" })));
    }
    ensure!(pb.position() == n as u64 * updates, "harness", "position {}", pb.position());
    let mut v = Verdict::default();
    v.nontrivial = true;
    v.label("concurrent_updaters");
    v.label_if(c.tick, "inc_and_tick");
    Ok(v)
}

pub fn property() -> Property {
    let w = default_workers();
    Property {
        id: "C09",
        level: "exploration",
        assumptions: &[
            "time is the harness's virtual monotonic clock (clock_gettime interposition); updates are at least 1 ms apart so every update is recorded",
            "only instants strictly after creation / reset / backwards seek are queried",
            "'largest rate observed' = largest delta_pos/delta_t between consecutive forward updates since the last reset-like event",
            "no constant of the estimator (15 s weighting) is assumed by the oracle",
        ],
        parts: vec![
            Box::new(Gen::<LawCase> {
                name: "laws",
                rule: "0-25 (thorough 60) steps of (gap 1 ms..10 days log-uniform, inc/set_position/tick/reset_eta/reset_elapsed/reset/set_length/inc_length/dec_length with boundary deltas/update(set_pos)/finish/abandon/same-instant bursts) then 0-8 stall queries; at every instant: per_sec finite >= 0 and <= largest observed rate, eta == remaining/per_sec (0 when finished/no length/no progress), duration == elapsed + eta against the length the history defines, per_sec ~ 0 after >= 1 h stall, per_sec non-increasing during the stall; non-trivial = >=3 updates with >=2 distinct gaps, or a reset/rewind",
                strategy: laws_strategy,
                cases: |t| t.pick(18_000, 1_200_000),
                run: run_laws,
                signature: laws_signature,
                essential: &["three_updates_two_gaps", "reset_or_rewind", "stall_queried", "rate_changed", "finished"],
                workers: w,
                decode: Some(decode_laws),
            }),
            Box::new(Gen::<SteadyCase> {
                name: "steady",
                rule: "positions exactly rate*t for a rate of 1..2^40 steps/ms at 1-40 (thorough 200) irregular gaps of 1 ms..10 days: |per_sec - rate| <= 1e-9 rate after every update, and per_sec non-increasing over 0-8 stall queries; non-trivial = >=3 updates with >=2 distinct gaps",
                strategy: steady_strategy,
                cases: |t| t.pick(12_000, 800_000),
                run: run_steady,
                signature: no_signature,
                essential: &["irregular_cadence", "stall_queried", "long_gap", "offset_beyond_2_53", "rewound_at_the_instant_of_an_update", "rewound_before_the_steady_phase"],
                workers: w,
                decode: None,
            }),
            Box::new(Gen::<TwinCase> {
                name: "indifference",
                rule: "two bars created at the same instant get different pre-histories, are brought to the same position and pass reset_eta / reset_elapsed / reset / a common backwards seek, then an identical suffix: per_sec (bit-equal), eta and position must agree at every later instant; non-trivial = pre-histories differ and the suffix makes progress",
                strategy: twin_strategy,
                cases: |t| t.pick(15_000, 1_000_000),
                run: run_twin,
                signature: no_signature,
                essential: &["different_prehistories_then_progress", "rewind", "reset_all", "reset_eta"],
                workers: w,
                decode: None,
            }),
            Box::new(Gen::<SharedCase> {
                name: "shared",
                rule: "2-8 real threads call inc(1) (and tick()) 100-20000 times on clones of one bar while another thread queries per_sec/eta/duration: every value read, during and after, must be finite and non-negative (time stamps taken before the state lock may arrive out of order); real clock, no virtual time",
                strategy: |_| (2u8..=8, 100u16..20_000, any::<bool>()).prop_map(|(threads, updates, tick)| SharedCase { threads, updates, tick }).boxed(),
                cases: |t| t.pick(6, 400),
                run: run_shared,
                signature: no_signature,
                essential: &["concurrent_updaters", "inc_and_tick"],
                workers: 2,
                decode: None,
            }),
        ],
    }
}
