//! C14 Every style the builder accepts can be rendered without panicking.
use std::time::Duration;

use indicatif::{ProgressBar, ProgressDrawTarget, ProgressState, ProgressStyle};
use proptest::prelude::*;
use serde::{Deserialize, Serialize};
use unicode_width::UnicodeWidthStr;

use crate::clock;
use crate::props::c10;
use crate::runner::*;
use crate::vterm::VTerm;

#[derive(Debug, Clone, Serialize, Deserialize)]
pub enum BCall {
    WithTemplate(String),
    Template(String),
    TickChars(String),
    TickStrings(Vec<String>),
    ProgressChars(String),
    WithKey,
}

#[derive(Debug, Clone, Serialize, Deserialize)]
pub struct StyleCase {
    calls: Vec<BCall>,
    len: Option<u64>,
    pos: u64,
    cols: u16,
    ticks: u8,
    finish: bool,
    msg: String,
    advance_ms: u64,
    /// set_tab_width(n) on the bar: before set_style (flag false) or after it (flag true)
    #[serde(default)]
    tab_width: Option<(usize, bool)>,
}

fn cluster_pool() -> BoxedStrategy<String> {
    prop_oneof![
        10 => prop_oneof![Just('#'), Just('>'), Just('-'), Just('='), Just('.'), Just(' '), Just('█'), Just('░'), Just('⠁'), Just('é')].prop_map(String::from),
        4 => prop_oneof![Just('世'), Just('界'), Just('😀')].prop_map(String::from),
        2 => prop_oneof![Just('\u{300}'), Just('\u{301}'), Just('\u{200b}')].prop_map(String::from),
        // several code points that form one grapheme cluster (one progress character when the crate is
        // built with `improved_unicode`, several otherwise): sun + VS16, a flag, e + acute
        1 => prop_oneof![Just("\u{2600}\u{fe0f}"), Just("\u{1f1e9}\u{1f1ea}"), Just("e\u{301}"), Just("\u{2600}")].prop_map(String::from),
    ]
    .boxed()
}

/// the progress characters as the crate segments them: grapheme clusters with `improved_unicode`,
/// single code points otherwise
fn segments(s: &str) -> Vec<String> {
    #[cfg(feature = "improved_unicode")]
    {
        unicode_segmentation::UnicodeSegmentation::graphemes(s, true).map(String::from).collect()
    }
    #[cfg(not(feature = "improved_unicode"))]
    {
        s.chars().map(String::from).collect()
    }
}

fn key_template() -> BoxedStrategy<String> {
    // documented keys with grammar-conforming specs, joined by literals and newlines
    // (one key in twelve is not a documented one: names that share a prefix or a suffix with the built-in
    // families are accepted by the parser and render as nothing)
    let key = prop_oneof![
        11 => proptest::sample::select(c10::DOCUMENTED[..28].to_vec()),
        1 => proptest::sample::select(vec!["items_per_sec", "bits_per_sec", "_per_sec", "x_bytes_per_sec", "etaa", "eta_", "pos_", "binary_", "total_", "human_", "wide_", "elapsed_", "duration_x", "percent_", "ck2"]),
    ];
    let spec = (
        proptest::option::weighted(0.5, prop_oneof![Just("<"), Just("^"), Just(">")]),
        proptest::option::weighted(0.7, prop_oneof![6 => 0u32..30, 2 => 30u32..300, 1 => prop_oneof![Just(1000u32), Just(65535)], 1 => prop_oneof![Just(65536u32), Just(65537), Just(70000)]]),
        any::<bool>(),
        proptest::option::weighted(0.3, "[a-z_]{1,6}(/[a-z_]{1,6})?"),
    );
    let ph = (key, proptest::option::weighted(0.6, spec)).prop_map(|(k, spec)| {
        let mut s = format!("{{{k}");
        if let Some((a, w, t, st)) = spec {
            s.push(':');
            if let Some(a) = a {
                s.push_str(a);
            }
            if let Some(w) = w {
                s.push_str(&w.to_string());
            }
            if t {
                s.push('!');
            }
            if let Some(st) = st {
                s.push('.');
                s.push_str(&st);
            }
        }
        s.push('}');
        s
    });
    let piece = prop_oneof![4 => ph, 2 => "[a-z \\[\\]/:\t]{0,5}", 1 => Just("\n".to_string()), 1 => Just("{ck}".to_string()), 1 => prop_oneof![Just("{x:y}".to_string()), Just("}".to_string()), Just("{bar:99999}".to_string())],
        // a brace that stands for itself (followed by whitespace), with literal text - possibly a TAB - behind it
        1 => prop_oneof![Just("{ ".to_string()), Just("{pos is".to_string()), Just("{\t".to_string()), Just("{ \"k\":".to_string())]];
    proptest::collection::vec(piece, 0..7).prop_map(|v| v.concat()).boxed()
}

fn call_strategy() -> BoxedStrategy<BCall> {
    let chars = |max: usize| proptest::collection::vec(cluster_pool(), 0..max).prop_map(|v| v.into_iter().collect::<String>());
    prop_oneof![
        3 => key_template().prop_map(BCall::WithTemplate),
        2 => key_template().prop_map(BCall::Template),
        2 => chars(6).prop_map(BCall::TickChars),
        2 => proptest::collection::vec(chars(3), 0..5).prop_map(BCall::TickStrings),
        3 => chars(7).prop_map(BCall::ProgressChars),
        2 => Just(BCall::WithKey),
    ]
    .boxed()
}

fn case_strategy() -> BoxedStrategy<StyleCase> {
    let len_pos = prop_oneof![
        3 => (0u64..50).prop_flat_map(|l| (Just(Some(l)), 0..=l + 2)),
        2 => (any::<u64>(), any::<u64>()).prop_map(|(l, p)| (Some(l), p)),
        1 => any::<u64>().prop_map(|p| (None, p)),
        1 => Just((Some(u64::MAX), u64::MAX)),
        1 => Just((Some(0), 0)),
        // a huge length hardly begun: with a slow first step the eta saturates
        2 => (prop_oneof![Just(u64::MAX), (1u64 << 62)..u64::MAX], 0u64..4).prop_map(|(l, p)| (Some(l), p)),
    ];
    (
        proptest::collection::vec(call_strategy(), 1..6),
        len_pos,
        // (a terminal may report 0 columns)
        prop_oneof![1 => Just(0u16), 6 => 1u16..30, 4 => 30u16..200],
        0u8..12,
        any::<bool>(),
        "[a-z \t\u{4e16}]{0,6}",
        prop_oneof![Just(0u64), 1u64..5000, Just(3_600_000), Just(u32::MAX as u64 * 1000)],
        proptest::option::weighted(0.4, (prop_oneof![3 => 0usize..10, 2 => 10usize..70, 1 => prop_oneof![Just(255usize), Just(256), Just(1000), Just(4096)]], any::<bool>())),
    )
        .prop_map(|(calls, (len, pos), cols, ticks, finish, msg, advance_ms, tab_width)| StyleCase { calls, len, pos, cols, ticks, finish, msg, advance_ms, tab_width })
        .boxed()
}

fn widths(s: &str) -> Vec<usize> {
    segments(s).iter().map(|c| UnicodeWidthStr::width(c.as_str())).collect()
}

/// Must the builder reject this call (documented rejections)?
fn must_reject(call: &BCall) -> Option<&'static str> {
    match call {
        BCall::TickChars(s) if s.chars().count() < 2 => Some("fewer than two tick chars"),
        BCall::TickStrings(v) if v.len() < 2 => Some("fewer than two tick strings"),
        BCall::ProgressChars(s) if segments(s).len() < 2 => Some("fewer than two progress characters"),
        BCall::ProgressChars(s) => {
            let w = widths(s);
            if w.iter().any(|x| *x != w[0]) {
                Some("progress characters of unequal width")
            } else {
                None
            }
        }
        _ => None,
    }
}

fn run_style(c: &StyleCase) -> CaseResult {
    let _clk = clock::Armed::new();
    let mut v = Verdict::default();
    let mut style = ProgressStyle::default_bar();
    let mut custom_table = false;
    for call in &c.calls {
        let st = style.clone();
        let r = catch(move || -> Result<ProgressStyle, String> {
            Ok(match call {
                BCall::WithTemplate(t) => match ProgressStyle::with_template(t) {
                    Ok(s) => s,
                    Err(e) => return Err(e.to_string()),
                },
                BCall::Template(t) => match st.template(t) {
                    Ok(s) => s,
                    Err(e) => return Err(e.to_string()),
                },
                BCall::TickChars(s) => st.tick_chars(s),
                BCall::TickStrings(v) => st.tick_strings(&v.iter().map(|s| s.as_str()).collect::<Vec<_>>()),
                BCall::ProgressChars(s) => st.progress_chars(s),
                BCall::WithKey => st.with_key("ck", |_: &ProgressState, w: &mut dyn std::fmt::Write| {
                    let _ = w.write_str("c\tk");
                }),
            })
        });
        match r {
            Err(_panic) => {
                // explicit rejection at build time: fine, the case ends here
                v.label("builder_rejected");
                v.label_if(must_reject(call).is_some(), "documented_rejection");
                return Ok(v);
            }
            Ok(Err(_template_error)) => {
                v.label("template_error");
            }
            Ok(Ok(s)) => {
                if let Some(why) = must_reject(call) {
                    return Err(Fail::new("accepted_unrenderable", format!("builder accepted {call:?} ({why}); the statement requires an explicit panic at build time")));
                }
                if matches!(call, BCall::TickChars(_) | BCall::TickStrings(_) | BCall::ProgressChars(_)) {
                    custom_table = true;
                }
                if matches!(call, BCall::WithTemplate(_)) {
                    // with_template starts from a fresh style
                    custom_table = false;
                }
                style = s;
            }
        }
    }
    // every draw of an accepted style must not unwind
    let vt = VTerm::raw(1000, c.cols as usize);
    let st = style.clone();
    let r = catch(|| {
        let pb = ProgressBar::with_draw_target(c.len, ProgressDrawTarget::term_like(vt.boxed())).with_message(c.msg.clone());
        // (in half of the cases the bar starts at its position - no progress has been seen then and the one
        // step below is the whole history: with a long gap the rate is tiny and the eta saturates)
        let pb = if c.ticks % 2 == 1 { pb.with_position(c.pos) } else { pb };
        if let Some((tw, false)) = c.tab_width {
            pb.set_tab_width(tw);
        }
        pb.set_style(st.clone());
        if let Some((tw, true)) = c.tab_width {
            pb.set_tab_width(tw);
        }
        pb.set_position(c.pos);
        pb.tick();
        clock::advance(Duration::from_millis(c.advance_ms));
        pb.inc(1);
        for _ in 0..c.ticks {
            pb.tick();
        }
        pb.println("log");
        if c.finish {
            pb.finish_with_message("done");
        } else {
            pb.abandon();
        }
        pb.tick();
        drop(pb);
        // the public tick-string accessors for every tick value
        for t in [0u64, 1, 2, 3, 4, 5, 6, 7, u32::MAX as u64, u32::MAX as u64 + 1, u64::MAX - 1, u64::MAX] {
            let _ = st.get_tick_str(t);
        }
        let _ = st.get_final_tick_str();
    });
    if let Err(p) = r {
        return Err(Fail::new("draw_panic", format!("style built by {:?} panicked while rendering (len {:?}, pos {}, {} columns, tab width {:?}): {p}", c.calls, c.len, c.pos, c.cols, c.tab_width)));
    }
    v.nontrivial = custom_table;
    v.label_if(custom_table, "custom_table_accepted");
    v.label("rendered");
    v.label_if(c.advance_ms >= 1000 && c.pos < 4 && c.len.map_or(false, |l| l > 1 << 62), "eta_saturates");
    v.label_if(matches!(c.tab_width, Some((w, _)) if w > 32) && c.calls.iter().any(|k| matches!(k, BCall::WithKey)), "custom_key_tab_at_width_gt_32");
    Ok(v)
}

fn decode_style(u: &mut FuzzInput) -> StyleCase {
    let cluster = |u: &mut FuzzInput| u.pick(&['#', '>', '-', ' ', '\u{2588}', '\u{e9}', '\u{4e16}', '\u{1F600}', '\u{300}', '\u{200b}']);
    let template = |u: &mut FuzzInput| -> String {
        let mut t = String::new();
        for _ in 0..u.n(6) {
            match u.n(7) {
                0 => t.push_str(&(0..u.n(4)).map(|_| u.pick(&['a', ' ', '[', ']', '/', ':', '\t'])).collect::<String>()),
                1 => t.push('\n'),
                2 => t.push_str(u.pick(&["{x:y}", "}", "{bar:99999}", "{ck}", "{ ", "{pos is", "{per_sec:65536}"])),
                _ => {
                    let key = c10::DOCUMENTED[u.n(27)];
                    t.push('{');
                    t.push_str(key);
                    if u.bool() {
                        t.push(':');
                        t.push_str(u.pick(&["", "<", "^", ">"]));
                        if u.n(3) > 0 {
                            t.push_str(&[u.n(29), u.n(299), 1000, 65535][u.n(3)].to_string());
                        }
                        if u.bool() {
                            t.push('!');
                        }
                        if u.n(3) == 0 {
                            t.push_str(".red/blue");
                        }
                    }
                    t.push('}');
                }
            }
        }
        t
    };
    let mut calls = vec![];
    for _ in 0..=u.n(4) {
        calls.push(match u.n(12) {
            0..=2 => BCall::WithTemplate(template(u)),
            3 | 4 => BCall::Template(template(u)),
            5 | 6 => BCall::TickChars((0..u.n(5)).map(|_| cluster(u)).collect()),
            7 | 8 => BCall::TickStrings((0..u.n(4)).map(|_| (0..u.n(2)).map(|_| cluster(u)).collect()).collect()),
            9..=11 => BCall::ProgressChars((0..u.n(6)).map(|_| cluster(u)).collect()),
            _ => BCall::WithKey,
        });
    }
    let (len, pos) = match u.n(6) {
        0 | 1 | 2 => {
            let l = u.n(49) as u64;
            (Some(l), u.n(l as usize + 2) as u64)
        }
        3 => (Some(u.u64()), u.u64()),
        4 => (None, u.u64()),
        5 => (Some(u64::MAX), u64::MAX),
        _ => (Some(0), 0),
    };
    StyleCase { calls, len, pos, cols: u.n(199) as u16, ticks: u.n(11) as u8, finish: u.bool(), msg: u.short(8), advance_ms: [0u64, 1, 4999, 3_600_000, u32::MAX as u64 * 1000][u.n(4)], tab_width: if u.bool() { Some(([0usize, 1, 4, 8, 31, 32, 33, 64, 255, 1000][u.n(9)], u.bool())) } else { None } }
}

pub fn property() -> Property {
    let w = default_workers();
    Property {
        id: "C14",
        level: "exploration",
        assumptions: &[
            "a panic inside a builder method counts as the explicit rejection the statement allows",
            "cluster widths are measured per char with unicode-width (default feature set)",
            "custom keys used by the harness never panic",
        ],
        parts: vec![Box::new(Gen::<StyleCase> {
            name: if cfg!(feature = "improved_unicode") { "builder_improved_unicode" } else { "builder" },
            rule: "1-5 builder calls (with_template/template over all 28 documented keys with grammar-conforming specs, tick_chars, tick_strings, progress_chars with 0..6 clusters of width 0/1/2 mixed, with_key) each under catch_unwind; documented rejections must panic at build; an accepted style is drawn on a bar with tab width 0..4096 set before or after the style (tick, inc, println, finish/abandon, drop) for pos/len extremes, 1..200 columns, virtual elapsed up to 49 days, and get_tick_str for ticks up to u64::MAX; non-trivial = a non-default tick/progress table was accepted",
            strategy: |_| case_strategy(),
            cases: |t| t.pick(36_000, 2_400_000),
            run: run_style,
            signature: no_signature,
            essential: &["builder_rejected", "documented_rejection", "custom_table_accepted", "rendered", "template_error", "custom_key_tab_at_width_gt_32", "eta_saturates"],
            workers: w,
            decode: Some(decode_style),
        })],
    }
}
