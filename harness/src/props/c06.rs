//! C06 Hidden or non-terminal targets are silent and state-equivalent.
use std::os::fd::FromRawFd;
use std::time::Duration;

use indicatif::{MultiProgress, ProgressBar, ProgressDrawTarget, ProgressStyle};
use proptest::prelude::*;
use serde::{Deserialize, Serialize};

use crate::clock;
use crate::ensure;
use crate::props::c01::{self, BOp};
use crate::runner::*;
use crate::vterm::VTerm;

#[derive(Debug, Clone, Serialize, Deserialize)]
pub struct HiddenCase {
    /// 0 hidden target, 1 Term that is not a tty, 2 member of a hidden MultiProgress, 3 removed from a visible MultiProgress
    way: u8,
    len: Option<u64>,
    /// executed before the bar is removed (way 3 only; the bar is a visible member then)
    pre: Vec<BOp>,
    ops: Vec<BOp>,
    /// afterwards both twins drive an adaptor to its end: (kind, items, finish behaviour);
    /// kind 0 wrap_iter forwards, 1 wrap_iter from the back, 2 wrap_stream (futures), 3 wrap_read
    #[serde(default)]
    adaptor: Option<(u8, u8, u8)>,
    /// 25 ordinary ticks at the creation instant first: the refresh limiter's burst is used up, so that
    /// the forced draws of the history meet an empty bucket
    #[serde(default)]
    burn: bool,
    /// finally, calls with arguments from the whole u64 range on both twins:
    /// 0 inc_length, 1 dec_length, 2 set_length, 3 inc, 4 dec, 5 set_position
    #[serde(default)]
    big: Vec<(u8, u64)>,
}

/// a stream of `n` ready items
struct Ready(u8);
impl futures_core::Stream for Ready {
    type Item = u8;
    fn poll_next(mut self: std::pin::Pin<&mut Self>, _: &mut std::task::Context<'_>) -> std::task::Poll<Option<u8>> {
        if self.0 == 0 {
            std::task::Poll::Ready(None)
        } else {
            self.0 -= 1;
            std::task::Poll::Ready(Some(self.0))
        }
    }
}

fn drive_adaptor(pb: &ProgressBar, kind: u8, n: u8, k: u8) {
    use futures_core::Stream;
    // (k == 5: the bar keeps the finish behaviour it was created with)
    let pb = if k % 6 == 5 { pb.clone() } else { pb.clone().with_finish(crate::multi::finish_of(k)) };
    match kind % 6 {
        4 => {
            use indicatif::ParallelProgressIterator;
            use rayon::prelude::*;
            let sum: u64 = (0..n as u64).into_par_iter().progress_with(pb).map(|x| x + 1).sum();
            assert_eq!(sum, (1..=n as u64).sum::<u64>());
        }
        5 => {
            use indicatif::ParallelProgressIterator;
            use rayon::prelude::*;
            let items: Vec<u64> = (0..n as u64).collect();
            let v: Vec<(usize, u64)> = items.into_par_iter().progress_with(pb).enumerate().collect();
            assert_eq!(v.len(), n as usize);
        }
        0 => assert_eq!(pb.wrap_iter(0..n).count(), n as usize),
        1 => assert_eq!(pb.wrap_iter(0..n).rev().count(), n as usize),
        2 => {
            let mut st = Box::pin(pb.wrap_stream(Ready(n)));
            let waker = std::task::Waker::noop();
            let mut cx = std::task::Context::from_waker(&waker);
            let mut got = 0;
            while let std::task::Poll::Ready(Some(_)) = st.as_mut().poll_next(&mut cx) {
                got += 1;
            }
            assert_eq!(got, n as usize);
        }
        _ => {
            use std::io::Read;
            let data = vec![7u8; n as usize];
            let mut out = vec![];
            pb.wrap_read(&data[..]).read_to_end(&mut out).unwrap();
            assert_eq!(out.len(), n as usize);
        }
    }
}

fn memfd() -> std::fs::File {
    let fd = unsafe { libc::memfd_create(b"vh-c06\0".as_ptr() as *const libc::c_char, 0) };
    assert!(fd >= 0, "memfd_create failed");
    unsafe { std::fs::File::from_raw_fd(fd) }
}

type Snap = (u64, Option<u64>, String, String, bool, Duration, Duration, u64);
fn snap(pb: &ProgressBar) -> Snap {
    (pb.position(), pb.length(), pb.message(), pb.prefix(), pb.is_finished(), pb.elapsed(), pb.eta(), pb.per_sec().to_bits())
}

fn style() -> ProgressStyle {
    ProgressStyle::with_template("{prefix} {msg} {pos}/{len} {wide_bar} {eta}").unwrap()
}

fn exec_quiet(pb: &ProgressBar, op: &BOp) {
    match op {
        // the closure of a hidden bar's suspend must still run; it writes nothing here
        BOp::Suspend(lines) => {
            let n = pb.suspend(|| lines.len());
            assert_eq!(n, lines.len());
        }
        BOp::SetStyle(_) => pb.set_style(style()),
        o => {
            let dummy = VTerm::raw(1, 1);
            c01::exec(pb, &dummy, o)
        }
    }
}

/// A real terminal (a pseudo-terminal) is drawn to in this process before any `Term` that is not one is
/// looked at: whatever the crate finds out about a terminal belongs to that `Term` alone.
fn tty_first() {
    static ONCE: std::sync::Once = std::sync::Once::new();
    ONCE.call_once(|| {
        if let Ok(pty) = c01::open_pty(24, 80) {
            if let (Ok(r), Ok(w)) = (pty.slave.try_clone(), pty.slave.try_clone()) {
                let term = console::Term::read_write_pair(r, w);
                if term.is_term() {
                    let pb = ProgressBar::with_draw_target(Some(3), ProgressDrawTarget::term(term, 20));
                    pb.tick();
                    let _ = pb.is_hidden();
                    pb.finish_and_clear();
                }
            }
            drop(pty.master);
        }
    });
}

fn run_hidden(c: &HiddenCase) -> CaseResult {
    tty_first();
    let _clk = clock::Armed::new();
    // visible twin
    let vis_vt = VTerm::raw(200, 100);
    let vis = ProgressBar::with_draw_target(c.len, ProgressDrawTarget::term_like(vis_vt.boxed()));
    vis.set_style(style());
    // hidden twin
    let spy = VTerm::raw(200, 100);
    let file = memfd();
    let file_probe = file.try_clone().map_err(|e| Fail::new("harness", e.to_string()))?;
    let mut keep_mp: Option<MultiProgress> = None;
    let mut keep_old: Option<MultiProgress> = None;
    let mut keep_first: Option<ProgressBar> = None;
    let hid = match c.way % 7 {
        0 => ProgressBar::with_draw_target(c.len, ProgressDrawTarget::hidden()),
        1 => {
            let term = console::Term::read_write_pair(file.try_clone().unwrap(), file);
            ProgressBar::with_draw_target(c.len, ProgressDrawTarget::term(term, 20))
        }
        2 => {
            // the second of three members of a hidden MultiProgress; the third is dropped right away
            let mp = MultiProgress::with_draw_target(ProgressDrawTarget::hidden());
            keep_first = Some(mp.add(ProgressBar::new(3)));
            let pb = mp.add(ProgressBar::with_draw_target(c.len, ProgressDrawTarget::hidden()));
            drop(mp.add(ProgressBar::new(4)));
            keep_mp = Some(mp);
            pb
        }
        6 => {
            // the constructor for a hidden bar; it has no length, so both twins are given theirs afterwards
            let pb = ProgressBar::hidden();
            if let Some(l) = c.len {
                pb.set_length(l);
                vis.set_length(l);
            } else {
                pb.unset_length();
                vis.unset_length();
            }
            pb
        }
        5 => {
            // a member of a hidden MultiProgress, removed from it; then the MultiProgress gets the terminal
            let mp = MultiProgress::with_draw_target(ProgressDrawTarget::hidden());
            let pb = mp.add(ProgressBar::with_draw_target(c.len, ProgressDrawTarget::hidden()));
            if c.len.map_or(false, |l| l % 3 == 0) {
                pb.tick();
            }
            mp.remove(&pb);
            mp.set_draw_target(ProgressDrawTarget::term_like(spy.boxed()));
            keep_mp = Some(mp);
            pb
        }
        4 => {
            // a member of a visible MultiProgress that is then added to a hidden one (it moves there)
            let old = MultiProgress::with_draw_target(ProgressDrawTarget::term_like(spy.boxed()));
            let pb = old.add(ProgressBar::with_draw_target(c.len, ProgressDrawTarget::hidden()));
            let mp = MultiProgress::with_draw_target(ProgressDrawTarget::hidden());
            let pb = if c.len.map_or(false, |l| l % 2 == 0) { mp.add(pb) } else { mp.insert(0, pb) };
            keep_old = Some(old);
            keep_mp = Some(mp);
            pb
        }
        _ => {
            let mp = MultiProgress::with_draw_target(ProgressDrawTarget::term_like(spy.boxed()));
            let pb = mp.add(ProgressBar::with_draw_target(c.len, ProgressDrawTarget::hidden()));
            keep_mp = Some(mp);
            pb
        }
    };
    hid.set_style(style());
    ensure!(c.way % 7 == 3 || hid.is_hidden(), "not_hidden", "is_hidden() is false for hidden way {}", c.way % 7);
    let mut v = Verdict::default();
    let all: Vec<(bool, &BOp)> = c.pre.iter().map(|o| (true, o)).chain(c.ops.iter().map(|o| (false, o))).collect();
    let mut removed = c.way % 7 != 3;
    if c.burn && c.way % 7 != 3 {
        let calls0 = spy.ncalls();
        for _ in 0..25 {
            vis.tick();
            catch(|| hid.tick()).map_err(|p| Fail::new("panic", format!("hidden bar (way {}): tick panicked: {p}", c.way % 7)))?;
        }
        ensure!(spy.ncalls() == calls0, "not_silent", "hidden way {}: 25 ticks made {} terminal call(s)", c.way % 7, spy.ncalls() - calls0);
        v.label("limiter_burst_used_up_first");
    }
    let mut state_change = false;
    let mut forced = false;
    for (i, (is_pre, op)) in all.iter().enumerate() {
        if !is_pre && !removed {
            if let Some(mp) = &keep_mp {
                mp.remove(&hid);
            }
            removed = true;
        }
        if *is_pre && c.way % 7 != 3 {
            continue;
        }
        clock::advance(Duration::from_millis(3));
        let calls_before = spy.ncalls();
        catch(|| exec_quiet(&vis, op)).map_err(|p| Fail::new("panic", format!("visible twin: op #{i} {op:?} panicked: {p}")))?;
        catch(|| exec_quiet(&hid, op)).map_err(|p| Fail::new("panic", format!("hidden bar (way {}): op #{i} {op:?} panicked: {p}", c.way % 7)))?;
        if removed {
            let n = spy.ncalls() - calls_before;
            ensure!(n == 0, "not_silent", "hidden way {}: op #{i} {op:?} on the bar made {n} terminal call(s) (ops {:?} after pre {:?})", c.way % 7, &c.ops, &c.pre);
        }
        let (a, b) = (snap(&vis), snap(&hid));
        ensure!(a == b, "state_diverged", "hidden way {}: after op #{i} {op:?}: (position, length, message, prefix, finished, elapsed, eta, per_sec bits) = {b:?}, the visible twin has {a:?}", c.way % 7);
        state_change |= matches!(op, BOp::Inc(_) | BOp::SetPos(_) | BOp::SetMessage(_) | BOp::SetLength(_) | BOp::Reset);
        forced |= matches!(op, BOp::Println(_) | BOp::Suspend(_) | BOp::SetTabWidth(_) | BOp::Finish | BOp::FinishWithMessage(_) | BOp::FinishAndClear | BOp::Abandon | BOp::AbandonWithMessage(_));
    }
    if let Some((kind, n, k)) = c.adaptor {
        if !removed {
            if let Some(mp) = &keep_mp {
                mp.remove(&hid);
            }
        }
        clock::advance(Duration::from_millis(3));
        let calls_before = spy.ncalls();
        catch(|| drive_adaptor(&vis, kind, n, k)).map_err(|p| Fail::new("panic", format!("visible twin: adaptor {kind} panicked: {p}")))?;
        catch(|| drive_adaptor(&hid, kind, n, k)).map_err(|p| Fail::new("panic", format!("hidden bar (way {}): adaptor {kind} panicked: {p}", c.way % 7)))?;
        let n_calls = spy.ncalls() - calls_before;
        let what = ["wrap_iter", "wrap_iter(..).rev()", "wrap_stream", "wrap_read", "rayon progress_with(..).map().sum()", "rayon progress_with(..).enumerate().collect()"][(kind % 6) as usize];
        ensure!(n_calls == 0, "not_silent", "hidden way {}: driving {what} over {n} items made {n_calls} terminal call(s)", c.way % 7);
        let (a, b) = (snap(&vis), snap(&hid));
        ensure!(a == b, "state_diverged", "hidden way {}: after {what} over {n} items with finish behaviour {k} ended (ops {:?}): (position, length, message, prefix, finished, elapsed, eta, per_sec bits) = {b:?}, the visible twin has {a:?}", c.way % 7, c.ops);
        v.label("adaptor_driven_to_its_end");
    }
    for (j, (kind, x)) in c.big.iter().enumerate() {
        if !removed {
            if let Some(mp) = &keep_mp {
                mp.remove(&hid);
            }
            removed = true;
        }
        clock::advance(Duration::from_millis(3));
        let calls_before = spy.ncalls();
        let call = |pb: &ProgressBar| match kind % 6 {
            0 => pb.inc_length(*x),
            1 => pb.dec_length(*x),
            2 => pb.set_length(*x),
            3 => pb.inc(*x),
            4 => pb.dec(*x),
            _ => pb.set_position(*x),
        };
        let what = ["inc_length", "dec_length", "set_length", "inc", "dec", "set_position"][(kind % 6) as usize];
        catch(|| call(&vis)).map_err(|p| Fail::new("panic", format!("visible twin: {what}({x}) panicked: {p}")))?;
        catch(|| call(&hid)).map_err(|p| Fail::new("panic", format!("hidden bar (way {}): call #{j} {what}({x}) panicked: {p} (calls {:?})", c.way % 7, c.big)))?;
        ensure!(spy.ncalls() == calls_before, "not_silent", "hidden way {}: {what}({x}) made {} terminal call(s)", c.way % 7, spy.ncalls() - calls_before);
        let (a, b) = (snap(&vis), snap(&hid));
        ensure!(a == b, "state_diverged", "hidden way {}: after call #{j} {what}({x}) of {:?}: (position, length, message, prefix, finished, elapsed, eta, per_sec bits) = {b:?}, the visible twin has {a:?}", c.way % 7, c.big);
        v.label("arguments_over_the_whole_u64_range");
    }
    if matches!(c.way % 7, 1 | 2) && c.len.map_or(false, |l| l % 4 == 0) {
        // many lines printed through a bar that cannot draw them (a log that goes nowhere for the whole run)
        for k in 0..300 {
            let line = format!("line {k}");
            catch(|| vis.println(&line)).map_err(|p| Fail::new("panic", format!("visible twin: println #{k} panicked: {p}")))?;
            catch(|| hid.println(&line)).map_err(|p| Fail::new("panic", format!("hidden bar (way {}): println #{k} panicked: {p}", c.way % 7)))?;
        }
        let (a, b) = (snap(&vis), snap(&hid));
        ensure!(a == b, "state_diverged", "hidden way {}: after 300 println calls: {b:?}, the visible twin has {a:?}", c.way % 7);
        v.label("hundreds_of_lines_printed_through_a_hidden_bar");
    }
    if c.way % 7 == 2 {
        // the hidden MultiProgress keeps working as a container: another member, then the first one goes
        let mp = keep_mp.clone().expect("hidden multi");
        catch(|| {
            let late = mp.add(ProgressBar::new(2));
            late.inc(1);
            drop(keep_first.take());
            late.finish();
            mp.remove(&late);
        })
        .map_err(|p| Fail::new("panic", format!("hidden MultiProgress: add / drop of the first member / remove after a later member was dropped panicked: {p}")))?;
        let (a, b) = (snap(&vis), snap(&hid));
        ensure!(a == b, "state_diverged", "hidden way 2: after slots of the hidden MultiProgress were freed and reused: {b:?}, the visible twin has {a:?}");
    }
    drop(keep_first);
    drop(hid);
    drop(keep_mp);
    drop(keep_old);
    if c.way % 7 == 1 {
        let len = file_probe.metadata().map(|m| m.len()).unwrap_or(0);
        ensure!(len == 0, "not_silent", "Term that is not a tty: {len} bytes were written to it (ops {:?})", c.ops);
    }
    if c.way % 7 == 3 && removed {
        // dropping a removed bar is silent too (checked through the spy's counter during ops; the drop itself:)
    }
    v.nontrivial = state_change && forced;
    v.label(["way_hidden_target", "way_not_a_tty", "way_hidden_multi", "way_removed_from_multi", "way_moved_from_visible_to_hidden_multi", "way_removed_from_hidden_multi_that_becomes_visible", "way_hidden_constructor"][(c.way % 7) as usize]);
    v.label_if(state_change && forced, "state_change_and_forced_draw");
    v.label_if(c.way % 7 == 3 && c.pre.iter().any(|o| matches!(o, BOp::Finish | BOp::Abandon | BOp::FinishWithMessage(_))), "finished_before_removal");
    Ok(v)
}

fn case_strategy(tier: Tier) -> BoxedStrategy<HiddenCase> {
    let n = tier.pick(20, 40);
    let tab_msg = prop_oneof![Just(BOp::SetMessage("a\tb".into())), Just(BOp::SetPrefix("\tp".into())), (0u8..12).prop_map(BOp::SetTabWidth)];
    let op = prop_oneof![8 => c01::bop_strategy(20), 2 => tab_msg];
    let big = prop_oneof![2 => Just(vec![]), 1 => proptest::collection::vec((0u8..6, super::c07::special_u64()), 1..5)];
    (0u8..7, proptest::option::weighted(0.8, 0u64..100), proptest::collection::vec(op.clone(), 0..6), proptest::collection::vec(op, 0..n), proptest::option::weighted(0.4, (0u8..6, 0u8..8, 0u8..6)), proptest::bool::weighted(0.3), big)
        .prop_map(|(way, len, pre, ops, adaptor, burn, big)| HiddenCase { way, len, pre, ops, adaptor, burn, big })
        .boxed()
}

// ------------------------------------------------------------------------------------------
// removed while a steady ticker runs and the MultiProgress is busy (real threads)

#[derive(Debug, Clone, Serialize, Deserialize)]
pub struct TickerRemoveCase {
    /// flush of the shared terminal takes this many ms (1..=4)
    slow_ms: u8,
    /// steady tick interval of the bar that is removed, ms (1..=3)
    tick_ms: u8,
    incs: u8,
}

#[derive(Clone, Debug)]
struct SlowTerm(std::sync::Arc<std::sync::atomic::AtomicUsize>, Duration);
impl indicatif::TermLike for SlowTerm {
    fn width(&self) -> u16 {
        60
    }
    fn move_cursor_up(&self, _: usize) -> std::io::Result<()> {
        Ok(())
    }
    fn move_cursor_down(&self, _: usize) -> std::io::Result<()> {
        Ok(())
    }
    fn move_cursor_right(&self, _: usize) -> std::io::Result<()> {
        Ok(())
    }
    fn move_cursor_left(&self, _: usize) -> std::io::Result<()> {
        Ok(())
    }
    fn write_line(&self, _: &str) -> std::io::Result<()> {
        Ok(())
    }
    fn write_str(&self, _: &str) -> std::io::Result<()> {
        Ok(())
    }
    fn clear_line(&self) -> std::io::Result<()> {
        Ok(())
    }
    fn flush(&self) -> std::io::Result<()> {
        self.0.fetch_add(1, std::sync::atomic::Ordering::SeqCst);
        std::thread::sleep(self.1);
        Ok(())
    }
}

/// "A bar removed from its MultiProgress": the removal itself and every later call return, and the
/// getters follow the calls - also when the bar has a steady ticker and another member keeps the
/// MultiProgress busy on a slow terminal at that moment.
fn run_ticker_remove(c: &TickerRemoveCase) -> CaseResult {
    use std::sync::atomic::{AtomicBool, Ordering};
    use std::sync::Arc;
    let term = SlowTerm(Default::default(), Duration::from_millis(1 + c.slow_ms as u64 % 4));
    let mp = MultiProgress::with_draw_target(ProgressDrawTarget::term_like(Box::new(term.clone())));
    let busy = mp.add(ProgressBar::new(1_000_000));
    let victim = mp.add(ProgressBar::new(100));
    victim.enable_steady_tick(Duration::from_millis(1 + c.tick_ms as u64 % 3));
    let stop = Arc::new(AtomicBool::new(false));
    let worker = {
        let (busy, stop) = (busy.clone(), stop.clone());
        std::thread::spawn(move || {
            while !stop.load(Ordering::SeqCst) {
                busy.tick();
                // (the lock of the MultiProgress is not a fair one: leave the other threads a chance to get it)
                std::thread::sleep(Duration::from_micros(500));
            }
        })
    };
    std::thread::sleep(Duration::from_millis(20));
    let incs = 1 + c.incs as u64 % 5;
    let (tx, rx) = std::sync::mpsc::channel();
    {
        let (mp, victim) = (mp.clone(), victim.clone());
        std::thread::spawn(move || {
            let r = catch(|| {
                mp.remove(&victim);
                for _ in 0..incs {
                    victim.inc(1);
                }
                victim.set_message("gone");
                (victim.position(), victim.message(), victim.is_finished(), victim.is_hidden())
            });
            let _ = tx.send(r);
        });
    }
    let got = rx.recv_timeout(Duration::from_secs(15));
    stop.store(true, Ordering::SeqCst);
    let ctx = format!("bar with a {} ms steady ticker removed from a MultiProgress that another member keeps busy (flush takes {} ms)", 1 + c.tick_ms % 3, 1 + c.slow_ms % 4);
    let got = match got {
        Ok(r) => r.map_err(|p| Fail::new("panic", format!("{ctx}: panicked: {p}")))?,
        Err(_) => {
            // (the threads involved are stuck for good: leak them)
            std::mem::forget(worker);
            std::mem::forget(victim);
            std::mem::forget(busy);
            std::mem::forget(mp);
            return Err(Fail::new("removed_bar_hangs", format!("{ctx}: remove() and the calls after it did not return within 15 s")));
        }
    };
    let _ = worker.join();
    ensure!(got == (incs, "gone".to_string(), false, true), "state_diverged", "{ctx}: (position, message, finished, hidden) = {got:?} after {incs} inc(1) and set_message(\"gone\")");
    let mut v = Verdict::default();
    v.nontrivial = true;
    v.label("removed_while_ticker_runs_and_multi_progress_is_busy");
    Ok(v)
}

// ------------------------------------------------------------------------------------------
// steady tick switched on and off on a bar that is hidden (real threads)

#[derive(Debug, Clone, Serialize, Deserialize)]
pub struct HiddenTickerCase {
    /// 0 hidden target, 1 Term that is not a tty, 2 member of a hidden MultiProgress, 3 removed from a visible one
    way: u8,
    tick_ms: u8,
    incs: u8,
    /// enable_steady_tick a second time (replacing the ticker) before it is disabled
    replace: bool,
    /// milliseconds between enabling and the next call (0 = at once)
    pause_ms: u8,
}

fn run_hidden_ticker(c: &HiddenTickerCase) -> CaseResult {
    let (tx, rx) = std::sync::mpsc::channel();
    let c2 = c.clone();
    std::thread::spawn(move || {
        let r = catch(|| hidden_ticker_scenario(&c2));
        let _ = tx.send(r);
    });
    // (once a case has missed the bound in this process, shrinking re-runs use 3 s instead of 20 s; the
    // expected time is far below a millisecond)
    static MISSED_ONCE: std::sync::atomic::AtomicBool = std::sync::atomic::AtomicBool::new(false);
    let bound = Duration::from_secs(if MISSED_ONCE.load(std::sync::atomic::Ordering::SeqCst) { 3 } else { 20 });
    match rx.recv_timeout(bound) {
        Ok(Ok(r)) => r,
        Ok(Err(p)) => Err(Fail::new("panic", format!("{c:?} panicked: {p}"))),
        Err(_) => {
            MISSED_ONCE.store(true, std::sync::atomic::Ordering::SeqCst);
            Err(Fail::new(
                "hidden_bar_hangs",
                format!("{c:?}: enable_steady_tick / inc / disable_steady_tick on a hidden bar did not return within {bound:?} (the visible twin is not involved)"),
            ))
        }
    }
}

fn hidden_ticker_scenario(c: &HiddenTickerCase) -> CaseResult {
    tty_first();
    let spy = VTerm::raw(50, 80);
    let file = memfd();
    let probe = file.try_clone().map_err(|e| Fail::new("harness", e.to_string()))?;
    let mut keep = None;
    let way = c.way % 4;
    let hid = match way {
        0 => ProgressBar::with_draw_target(Some(50), ProgressDrawTarget::hidden()),
        1 => ProgressBar::with_draw_target(Some(50), ProgressDrawTarget::term(console::Term::read_write_pair(file.try_clone().unwrap(), file), 20)),
        2 => {
            let mp = MultiProgress::with_draw_target(ProgressDrawTarget::hidden());
            let pb = mp.add(ProgressBar::new(50));
            keep = Some(mp);
            pb
        }
        _ => {
            let mp = MultiProgress::with_draw_target(ProgressDrawTarget::term_like(spy.boxed()));
            let pb = mp.add(ProgressBar::new(50));
            mp.remove(&pb);
            keep = Some(mp);
            pb
        }
    };
    let vis = ProgressBar::with_draw_target(Some(50), ProgressDrawTarget::term_like(VTerm::raw(50, 80).boxed()));
    let calls0 = spy.ncalls();
    let d = Duration::from_millis(1 + c.tick_ms as u64 % 50);
    let pause = Duration::from_millis(c.pause_ms as u64 % 4);
    for round in 0..4u64 {
        for pb in [&vis, &hid] {
            pb.enable_steady_tick(d);
            if !pause.is_zero() {
                std::thread::sleep(pause);
            }
            if c.replace {
                pb.enable_steady_tick(d * 2);
            }
            for _ in 0..c.incs % 4 {
                pb.inc(1);
            }
            pb.set_message(format!("round {round}"));
            pb.disable_steady_tick();
        }
        let get = |pb: &ProgressBar| (pb.position(), pb.length(), pb.message(), pb.prefix(), pb.is_finished());
        let (a, b) = (get(&vis), get(&hid));
        ensure!(a == b, "state_diverged", "hidden way {way}, round {round}: (position, length, message, prefix, finished) = {b:?}, the visible twin has {a:?} ({c:?})");
    }
    ensure!(spy.ncalls() == calls0, "not_silent", "hidden way {way}: the hidden bar with a steady ticker made {} terminal call(s)", spy.ncalls() - calls0);
    drop(hid);
    drop(keep);
    let written = probe.metadata().map(|m| m.len()).unwrap_or(0);
    ensure!(written == 0, "not_silent", "hidden way {way}: {written} bytes were written to the Term that is not a tty");
    let mut v = Verdict::default();
    v.nontrivial = true;
    v.label(["ticker_on_hidden_target", "ticker_on_not_a_tty", "ticker_in_hidden_multi", "ticker_on_removed_member"][way as usize]);
    v.label_if(c.pause_ms % 4 == 0, "disabled_right_after_enabling");
    Ok(v)
}

// ------------------------------------------------------------------------------------------
// the process's own stdout / stderr, redirected to something that is not a terminal

#[derive(Debug, Clone, Serialize, Deserialize)]
pub struct StdCase {
    /// which constructor builds the target on the redirected stream
    ctor: u8,
    hz: u8,
    len: Option<u64>,
    ops: Vec<BOp>,
}

static STD_STREAMS: std::sync::Mutex<()> = std::sync::Mutex::new(());

const STD_CTORS: [&str; 12] = [
    "ProgressDrawTarget::stdout_with_hz",
    "ProgressDrawTarget::stderr_with_hz",
    "ProgressDrawTarget::stdout",
    "ProgressDrawTarget::stderr",
    "ProgressBar::new",
    "ProgressBar::new_spinner",
    "MultiProgress::new",
    "MultiProgress::with_draw_target(stdout_with_hz)",
    "MultiProgress::with_draw_target(stderr_with_hz)",
    "ProgressDrawTarget::term(Term::stdout())",
    "ProgressDrawTarget::term(Term::buffered_stderr())",
    "ProgressBar::with_draw_target(stderr) + with_style + with_message",
];

/// File descriptors 1 and 2 of the harness process point to an anonymous file while the case runs (one
/// case at a time; the harness itself prints nothing during a part), so "is not a tty" holds for them
/// whatever the check was started from, and every byte the crate writes is seen.
fn run_std(c: &StdCase) -> CaseResult {
    use std::io::Write;
    use std::os::fd::AsRawFd;
    let _clk = clock::Armed::new();
    let _one = STD_STREAMS.lock().unwrap_or_else(|e| e.into_inner());
    let file = memfd();
    let _ = std::io::stdout().flush();
    let _ = std::io::stderr().flush();
    let (saved1, saved2) = unsafe { (libc::dup(1), libc::dup(2)) };
    if saved1 < 0 || saved2 < 0 {
        return Err(Fail::new("harness", "dup failed".to_string()));
    }
    unsafe {
        libc::dup2(file.as_raw_fd(), 1);
        libc::dup2(file.as_raw_fd(), 2);
    }
    let which = c.ctor as usize % STD_CTORS.len();
    let hz = c.hz.max(1);
    let r = catch(|| -> Result<(), Fail> {
        let twin = ProgressBar::with_draw_target(c.len, ProgressDrawTarget::hidden());
        twin.set_style(style());
        let mut keep_mp = None;
        let hid = match which {
            0 => ProgressBar::with_draw_target(c.len, ProgressDrawTarget::stdout_with_hz(hz)),
            1 => ProgressBar::with_draw_target(c.len, ProgressDrawTarget::stderr_with_hz(hz)),
            2 => ProgressBar::with_draw_target(c.len, ProgressDrawTarget::stdout()),
            3 => ProgressBar::with_draw_target(c.len, ProgressDrawTarget::stderr()),
            4 | 5 => {
                let pb = if which == 4 { ProgressBar::new(0) } else { ProgressBar::new_spinner() };
                match c.len {
                    Some(l) => pb.set_length(l),
                    None => pb.unset_length(),
                }
                pb
            }
            6 | 7 | 8 => {
                let mp = match which {
                    6 => MultiProgress::new(),
                    7 => MultiProgress::with_draw_target(ProgressDrawTarget::stdout_with_hz(hz)),
                    _ => MultiProgress::with_draw_target(ProgressDrawTarget::stderr_with_hz(hz)),
                };
                let first = mp.add(ProgressBar::new(3));
                first.tick();
                let pb = mp.add(ProgressBar::with_draw_target(c.len, ProgressDrawTarget::hidden()));
                let _ = mp.println("a line for the terminal");
                mp.suspend(|| ());
                let _ = mp.clear();
                ensure!(mp.is_hidden(), "not_hidden", "{}: MultiProgress::is_hidden() is false although the stream is not a terminal", STD_CTORS[which]);
                first.finish();
                keep_mp = Some(mp);
                pb
            }
            9 => ProgressBar::with_draw_target(c.len, ProgressDrawTarget::term(console::Term::stdout(), hz)),
            10 => ProgressBar::with_draw_target(c.len, ProgressDrawTarget::term(console::Term::buffered_stderr(), hz)),
            _ => ProgressBar::with_draw_target(c.len, ProgressDrawTarget::stderr()).with_style(style()).with_message(""),
        };
        hid.set_style(style());
        ensure!(hid.is_hidden(), "not_hidden", "{}: is_hidden() is false although the stream is not a terminal", STD_CTORS[which]);
        for (i, op) in c.ops.iter().enumerate() {
            clock::advance(Duration::from_millis(120));
            exec_quiet(&twin, op);
            exec_quiet(&hid, op);
            let (a, b) = (snap(&twin), snap(&hid));
            ensure!(a == b, "state_diverged", "{}: after op #{i} {op:?}: (position, length, message, prefix, finished, elapsed, eta, per_sec bits) = {b:?}, a bar with a hidden target has {a:?}", STD_CTORS[which]);
        }
        drop(hid);
        drop(keep_mp);
        Ok(())
    });
    let _ = std::io::stdout().flush();
    let _ = std::io::stderr().flush();
    unsafe {
        libc::dup2(saved1, 1);
        libc::dup2(saved2, 2);
        libc::close(saved1);
        libc::close(saved2);
    }
    r.map_err(|p| Fail::new("panic", format!("{}: history panicked: {p} (ops {:?})", STD_CTORS[which], c.ops)))??;
    let written = file.metadata().map(|m| m.len()).unwrap_or(0);
    if written > 0 {
        use std::io::{Read, Seek};
        let mut f = file.try_clone().map_err(|e| Fail::new("harness", e.to_string()))?;
        let _ = f.rewind();
        let mut bytes = vec![];
        let _ = f.take(120).read_to_end(&mut bytes);
        return Err(Fail::new(
            "not_silent",
            format!("{} on a stream that is not a terminal: {written} bytes were written to it, starting {:?} (ops {:?})", STD_CTORS[which], String::from_utf8_lossy(&bytes), c.ops),
        ));
    }
    let mut v = Verdict::default();
    let forced = c.ops.iter().any(|o| matches!(o, BOp::Println(_) | BOp::Suspend(_) | BOp::Finish | BOp::FinishWithMessage(_) | BOp::Abandon | BOp::FinishAndClear | BOp::AbandonWithMessage(_)));
    v.nontrivial = !c.ops.is_empty();
    v.label(["ctor_with_hz", "ctor_with_hz", "ctor_plain", "ctor_plain", "ctor_bar_default", "ctor_bar_default", "ctor_multi_default", "ctor_multi_with_hz", "ctor_multi_with_hz", "ctor_term", "ctor_term", "ctor_plain"][which]);
    v.label_if(forced, "forced_draw");
    Ok(v)
}

fn std_strategy(tier: Tier) -> BoxedStrategy<StdCase> {
    let n = tier.pick(12, 30);
    (0u8..12, prop_oneof![Just(1u8), Just(20), Just(255), any::<u8>()], proptest::option::weighted(0.8, 0u64..100), proptest::collection::vec(c01::bop_strategy(20), 0..n))
        .prop_map(|(ctor, hz, len, ops)| StdCase { ctor, hz, len, ops })
        .boxed()
}

pub fn property() -> Property {
    let w = default_workers();
    Property {
        id: "C06",
        level: "exploration",
        assumptions: &[
            "'terminal operation' = a fallible TermLike call (moves, writes, clear, flush) resp. any byte written to the non-tty Term; size queries are not counted",
            "before the first case a bar is drawn to a pseudo-terminal once, so that a real terminal has been seen in the process before any Term that is not one",
            "Term that is not a tty = console::Term::read_write_pair over a memfd; in part std_streams the process's own stdout and stderr, pointed at a memfd for the duration of a case",
            "state equivalence is checked against a visible twin driven by the same calls under the same virtual clock (elapsed, eta and per_sec bit-equal as well)",
        ],
        parts: vec![Box::new(Gen::<HiddenCase> {
            name: "twins",
            rule: "the C01 op alphabet (plus texts with tabs and set_tab_width) applied to a visible bar and to a twin hidden in one of seven ways (ProgressBar::hidden(), hidden target, Term over a non-tty fd, member of a hidden MultiProgress with siblings that come and go, member of a visible MultiProgress removed after 0-5 ops incl. finishing, member of a visible MultiProgress moved into a hidden one, removed from a hidden MultiProgress that then gets the terminal), optionally followed by an adaptor driven to its end and by length/position calls with arguments from the whole u64 range; the hidden twin must make no terminal call / write no byte and all getters must agree after every op; non-trivial = a state change and a forced-draw op occurred",
            strategy: case_strategy,
            cases: |t| t.pick(20_000, 800_000),
            run: run_hidden,
            signature: no_signature,
            essential: &["way_hidden_target", "way_not_a_tty", "way_hidden_multi", "way_removed_from_multi", "way_moved_from_visible_to_hidden_multi", "way_removed_from_hidden_multi_that_becomes_visible", "way_hidden_constructor", "hundreds_of_lines_printed_through_a_hidden_bar", "arguments_over_the_whole_u64_range", "state_change_and_forced_draw", "finished_before_removal", "adaptor_driven_to_its_end", "limiter_burst_used_up_first"],
            workers: w,
            decode: None,
        }),
        Box::new(Gen::<TickerRemoveCase> {
            name: "removed_with_ticker",
            rule: "real threads: a member with a steady ticker (1-3 ms) is removed from a visible MultiProgress while another member is ticked in a loop on a terminal whose flush takes 1-4 ms; remove(), 1-5 inc(1) and set_message on the removed bar return within 15 s and the getters show exactly those calls",
            strategy: |_| (0u8..4, 0u8..3, 0u8..5).prop_map(|(slow_ms, tick_ms, incs)| TickerRemoveCase { slow_ms, tick_ms, incs }).boxed(),
            cases: |t| t.pick(4, 200),
            run: run_ticker_remove,
            signature: no_signature,
            essential: &["removed_while_ticker_runs_and_multi_progress_is_busy"],
            workers: 4,
            decode: None,
        }),
        Box::new(Gen::<HiddenTickerCase> {
            name: "hidden_ticker",
            rule: "real threads: on a bar hidden in one of four ways and on a visible twin, four rounds of enable_steady_tick(1-50 ms) [pause 0-3 ms] [enable again] inc x 0-3, set_message, disable_steady_tick; every call returns (20 s watchdog), the five getters agree after every round, the hidden bar makes no terminal call and writes no byte",
            strategy: |_| (0u8..4, any::<u8>(), 0u8..4, any::<bool>(), 0u8..4).prop_map(|(way, tick_ms, incs, replace, pause_ms)| HiddenTickerCase { way, tick_ms, incs, replace, pause_ms }).boxed(),
            cases: |t| t.pick(8, 400),
            run: run_hidden_ticker,
            signature: no_signature,
            essential: &["ticker_on_hidden_target", "ticker_on_not_a_tty", "ticker_in_hidden_multi", "ticker_on_removed_member", "disabled_right_after_enabling"],
            workers: 4,
            decode: None,
        }),
        Box::new(Gen::<StdCase> {
            name: "std_streams",
            rule: "file descriptors 1 and 2 of the harness process are pointed at an anonymous file (not a terminal) while a C01 history of 0-12 (thorough 30) ops runs on a bar or MultiProgress member built by each constructor that draws to stdout/stderr (stdout(), stderr(), stdout_with_hz, stderr_with_hz, term(Term::stdout()/buffered_stderr()), ProgressBar::new, new_spinner, MultiProgress::new, MultiProgress::with_draw_target(*_with_hz)); no byte may arrive in the file, is_hidden() is true, and the getters equal those of a bar with a hidden target after every op; one case at a time",
            strategy: std_strategy,
            cases: |t| t.pick(400, 20_000),
            run: run_std,
            signature: no_signature,
            essential: &["ctor_with_hz", "ctor_plain", "ctor_bar_default", "ctor_multi_default", "ctor_multi_with_hz", "ctor_term", "forced_draw"],
            workers: 1,
            decode: None,
        })],
    }
}
