//! C19 Terminal geometry: wrapped rows and height overflow are accounted for.
use std::time::Duration;

use proptest::prelude::*;

use crate::clock;
use crate::ensure;
use crate::hist::*;
use crate::multi::*;
use crate::runner::*;

fn run_geo(c: &MultiCase) -> CaseResult {
    let _clk = clock::Armed::new();
    let mut it = Interp::new(c);
    it.cut_to_height = true;
    it.model.fit = Some((it.rows, it.cols));
    let mut v = Verdict::default();
    let (mut overflow, mut fits_again, mut wraps, mut wide_wraps) = (false, false, false, false);
    let mut was_over = false;
    let mut max_rows_seen = it.rows;
    let mut skipped_draws = false;
    for (i, op) in c.ops.iter().enumerate() {
        clock::advance(Duration::from_millis(if c.hz.is_some() { c.step_ms } else { c.step_ms.max(2) } as u64));
        let out = catch(|| it.step(op)).map_err(|p| Fail::new("panic", format!("op #{i} {op:?} panicked: {p} ({}x{} terminal, ops {:?})", it.rows, it.cols, &c.ops[..=i])))??;
        if out.skipped {
            continue;
        }
        if c.hz.is_some() && out.frames.is_empty() && matches!(op, MOp::Tick(_) | MOp::Inc(..) | MOp::SetMessage(..)) && out.note != "inc_throttled" {
            skipped_draws = true;
        }
        if let Some(Err(e)) = &out.io_result {
            return Err(Fail::new("io", format!("op #{i} {op:?} returned an error: {e}")));
        }
        let ctx = format!("op #{i} {op:?} ({}x{} terminal, ops {:?})", it.rows, it.cols, &c.ops[..=i]);
        it.check_frames(&out, &ctx).map_err(|f| Fail::new(if it.stale_reap_seen { "geometry_stale_reap" } else { "geometry" }, f.msg))?;
        // the live frame never needs more than rows-1 upward moves; rows of retained (finished, dropped)
        // bars may have scrolled away and are only erased as far as they can be reached
        max_rows_seen = max_rows_seen.max(it.rows);
        v.label_if(out.note == "resize", "terminal_height_changed");
        let max_up = it.vt.lock().max_up;
        let retained: usize = it.model.blocks.iter().map(|b| height_of(&b.lines, it.cols)).sum();
        // (bottom alignment: after the region was emptied the cursor is parked on the row below it, one more row up)
        let below = usize::from(it.model.bottom_ever);
        // (after the terminal was made smaller, the taller region painted before still has to be erased once)
        ensure!(max_up <= max_rows_seen.saturating_sub(1) + retained + below, "cursor_up_too_far", "{ctx}: move_cursor_up({max_up}) on a terminal with {} rows ({retained} retained rows)", it.rows);
        if !out.frames.is_empty() {
            let full = it.model.frame();
            let h = height_of(&full, it.cols);
            let over = h > it.rows;
            overflow |= over;
            if was_over && !over && !full.is_empty() {
                fits_again = true;
            }
            was_over = over;
            wraps |= full.iter().any(|l| console::measure_text_width(l) > it.cols);
            v.label_if(full.iter().any(|l| l.len() >= 65536 * it.cols), "line_of_65536_rows_or_more");
            wide_wraps |= full.iter().any(|l| console::measure_text_width(l) > it.cols && l.chars().count() <= it.cols);
        }
    }
    it.teardown()?;
    v.nontrivial = wraps && overflow;
    v.label_if(wraps, "line_wraps");
    v.label_if(wide_wraps, "double_width_line_wraps_with_fewer_chars_than_columns");
    v.label_if(overflow, "frame_taller_than_terminal");
    v.label_if(fits_again, "fits_again_after_overflow");
    v.label_if(it.rows == 1 || it.cols == 1, "one_row_or_one_column");
    v.label_if(it.cols > 256, "terminal_wider_than_256_columns");
    v.label_if(!it.model.log.is_empty(), "log_lines");
    v.label_if(skipped_draws, "draws_skipped_by_the_limiter");
    v.label_if(c.ops.iter().any(|o| matches!(o, MOp::BarPrintln(_, t) if t.is_empty())), "empty_line_printed_through_a_member");
    Ok(v)
}

fn run_bottom(c: &MultiCase) -> CaseResult {
    let _clk = clock::Armed::new();
    let mut it = Interp::new(c);
    let mut v = Verdict::default();
    let (mut wraps, mut shrinks) = (false, false);
    let mut prev_h = 0;
    for (i, op) in c.ops.iter().enumerate() {
        clock::advance(Duration::from_millis(2));
        let out = catch(|| it.step(op)).map_err(|p| Fail::new("panic", format!("op #{i} {op:?} panicked: {p} ({}x{} terminal, ops {:?})", it.rows, it.cols, &c.ops[..=i])))??;
        if out.skipped {
            continue;
        }
        let ctx = format!("op #{i} {op:?} ({}x{} terminal, bottom alignment, ops {:?})", it.rows, it.cols, &c.ops[..=i]);
        it.check_frames(&out, &ctx).map_err(|f| Fail::new("geometry_bottom", f.msg))?;
        if !out.frames.is_empty() {
            let full = it.model.frame();
            let h = height_of(&full, it.cols);
            shrinks |= h < prev_h;
            prev_h = h;
            wraps |= full.iter().any(|l| console::measure_text_width(l) > it.cols);
        }
    }
    it.teardown()?;
    v.nontrivial = wraps;
    v.label_if(wraps, "line_wraps");
    v.label_if(shrinks, "region_shrinks_under_bottom_alignment");
    Ok(v)
}

fn geo_strategy(tier: Tier) -> BoxedStrategy<MultiCase> {
    let n = tier.pick(30, 50);
    let (max_rows, max_cols) = tier.pick((12u8, 40u16), (40, 200));
    // (one terminal in twenty is wider than 256 columns)
    // (one history in six runs on a rate-limited target whose burst is used up first, on a frozen or slow clock)
    let limiter = proptest::option::weighted(0.17, (prop_oneof![Just(1u8), Just(20), Just(255)], prop_oneof![3 => Just(0u32), 1 => Just(1u32), 1 => Just(200u32)]));
    (prop_oneof![1 => 1u8..3, 4 => 3u8..=max_rows], prop_oneof![4 => 1u16..4, 15 => 4u16..=max_cols, 1 => 257u16..400], limiter)
        .prop_flat_map(move |(rows, cols, limiter)| {
            let c = cols as usize;
            let s = || any::<u16>();
            // message lengths around multiples of the width: the line is "B<tag>:<pos> <msg>"
            let ascii = (0usize..4, -2i32..=2).prop_map(move |(k, d)| "w".repeat(((k * c) as i32 + d - 5).max(0) as usize));
            // double-width glyphs: fewer characters than columns, yet the line wraps
            let wide = (c / 4..c + 2).prop_map(|n| "\u{9032}".repeat(n));
            // on the narrowest terminals: a line that wraps into 65536 rows or a few more
            let huge = (-2i32..=6).prop_map(move |d| if c < 4 { "h".repeat(((65536 * c) as i32 + d - 5) as usize) } else { "w".repeat((2 * c) as usize) });
            let msg = prop_oneof![28 => ascii, 2 => wide, 1 => huge];
            let msg2 = msg.clone();
            let spec = (proptest::option::weighted(0.8, 1u64..50), prop_oneof![3 => Just(2u8), 2 => Just(0u8), 1 => 1u8..5], msg.clone())
                .prop_map(|(len, on_finish, msg)| BarSpec { two_lines: false, len, on_finish, msg, key_nl: false, blank_first: 0 });
            let log = prop_oneof![3 => "[a-z]{1,4}", 1 => Just(String::new()), 1 => (0usize..3, -1i32..=1).prop_map(move |(k, d)| "l".repeat(((k * c) as i32 + d).max(0) as usize)), 1 => (c / 2 + 1..c + 2).prop_map(move |n| if c % 2 == 0 { "\u{6357}".repeat(n) } else { "l".repeat(n) }),
                // several lines in one draw: a line that exactly fills k rows, a blank line, another line
                1 => (1usize..3, "[a-z]{0,3}").prop_map(move |(k, z)| format!("{}\n\n{z}", "f".repeat(k * c)))];
            let op = prop_oneof![
                6 => spec.prop_map(MOp::Add),
                2 => s().prop_map(MOp::Remove),
                6 => s().prop_map(MOp::Tick),
                2 => (s(), 1u64..4).prop_map(|(i, d)| MOp::Inc(i, d)),
                5 => (s(), msg2).prop_map(|(i, m)| MOp::SetMessage(i, m)),
                2 => s().prop_map(MOp::Finish),
                1 => s().prop_map(MOp::FinishAndClear),
                3 => s().prop_map(MOp::Drop),
                3 => log.clone().prop_map(MOp::MpPrintln),
                1 => (s(), log).prop_map(|(i, t)| MOp::BarPrintln(i, t)),
                1 => Just(MOp::MpClear),
                1 => (1u8..=max_rows).prop_map(MOp::Resize),
            ];
            (Just(rows), Just(cols), Just(limiter), proptest::collection::vec(op, 0..n))
        })
        .prop_map(|(rows, cols, limiter, ops)| match limiter {
            None => MultiCase { rows, cols, hz: None, step_ms: 2, ops, final_drops: vec![] },
            Some((hz, step_ms)) => {
                let mut all = vec![MOp::Add(BarSpec { two_lines: false, len: Some(5), on_finish: 0, msg: String::new(), key_nl: false, blank_first: 0 })];
                all.extend(std::iter::repeat(MOp::Tick(0)).take(22));
                all.extend(ops);
                MultiCase { rows, cols, hz: Some(hz), step_ms, ops: all, final_drops: vec![] }
            }
        })
        .boxed()
}

/// Bottom alignment with bars whose messages wrap: the region is at most 12 rows on a 16-row terminal (the
/// blank shift rows never scroll away) and nothing prints text, clears, suspends or drops a handle, so
/// the strict bottom-alignment oracle of C02 applies while the wrapped-row accounting is exercised.
fn bottom_strategy(tier: Tier) -> BoxedStrategy<MultiCase> {
    let n = tier.pick(24, 40);
    (4u8..=40)
        .prop_flat_map(move |cols| {
            let c = cols as usize;
            let s = || any::<u16>();
            let msg = (0usize..3, -2i32..=2).prop_map(move |(k, d)| "w".repeat(((k * c) as i32 + d - 5).max(0) as usize));
            let spec = (proptest::option::weighted(0.8, 1u64..50), prop_oneof![3 => Just(2u8), 2 => Just(0u8)], msg.clone()).prop_map(|(len, on_finish, msg)| BarSpec { two_lines: false, len, on_finish, msg, key_nl: false, blank_first: 0 });
            let op = prop_oneof![
                3 => spec.prop_map(MOp::Add),
                3 => s().prop_map(MOp::Remove),
                6 => s().prop_map(MOp::Tick),
                2 => (s(), 1u64..4).prop_map(|(i, d)| MOp::Inc(i, d)),
                6 => (s(), msg).prop_map(|(i, m)| MOp::SetMessage(i, m)),
                2 => s().prop_map(MOp::Finish),
                2 => s().prop_map(MOp::FinishAndClear),
            ];
            (Just(cols), proptest::collection::vec(op, 0..n))
        })
        .prop_map(|(cols, ops)| {
            let mut all = vec![MOp::SetAlignment(true)];
            let mut bars = 0;
            for op in ops {
                // at most four bars of at most three rows each
                if matches!(op, MOp::Add(_)) {
                    bars += 1;
                    if bars > 4 {
                        continue;
                    }
                }
                all.push(op);
            }
            MultiCase { rows: 16, cols: cols as u16, hz: None, step_ms: 2, ops: all, final_drops: vec![] }
        })
        .boxed()
}

/// Rows that come from a line break written by a custom key (not by the template or the message) are rows
/// of the frame like any other: top alignment, a terminal that is always taller than the region (at most four
/// bars of at most 3 + 1 rows on 40 rows), so that only the row accounting is exercised.
fn run_key_nl(c: &MultiCase) -> CaseResult {
    let _clk = clock::Armed::new();
    let mut it = Interp::new(c);
    let mut v = Verdict::default();
    let (mut wraps, mut redrawn) = (false, 0usize);
    for (i, op) in c.ops.iter().enumerate() {
        clock::advance(Duration::from_millis(2));
        let out = catch(|| it.step(op)).map_err(|p| Fail::new("panic", format!("op #{i} {op:?} panicked: {p} ({}x{} terminal, ops {:?})", it.rows, it.cols, &c.ops[..=i])))??;
        if out.skipped {
            continue;
        }
        let ctx = format!("op #{i} {op:?} ({}x{} terminal, ops {:?})", it.rows, it.cols, &c.ops[..=i]);
        it.check_frames(&out, &ctx).map_err(|f| Fail::new(if it.stale_reap_seen { "geometry_stale_reap" } else { "geometry_key_newline" }, f.msg))?;
        if !out.frames.is_empty() {
            let full = it.model.frame();
            wraps |= full.iter().any(|l| console::measure_text_width(l) > it.cols);
            if it.model.entries.iter().any(|e| e.drawn.as_ref().map_or(false, |d| d.len() >= 2)) {
                redrawn += 1;
            }
        }
    }
    it.teardown()?;
    v.nontrivial = redrawn >= 2;
    v.label_if(redrawn >= 2, "frame_with_a_key_written_line_break_redrawn");
    v.label_if(c.ops.iter().any(|o| matches!(o, MOp::Add(s) if s.blank_first > 0)), "first_line_of_blanks_that_fills_whole_rows");
    v.label_if(wraps, "line_wraps");
    Ok(v)
}

fn key_nl_strategy(tier: Tier) -> BoxedStrategy<MultiCase> {
    let n = tier.pick(24, 40);
    (4u8..=40)
        .prop_flat_map(move |cols| {
            let c = cols as usize;
            let s = || any::<u16>();
            let msg = (0usize..3, -2i32..=2).prop_map(move |(k, d)| "w".repeat(((k * c) as i32 + d - 5).max(0) as usize));
            let spec = (proptest::option::weighted(0.8, 1u64..50), prop_oneof![3 => Just(2u8), 2 => Just(0u8), 1 => 1u8..5], msg.clone(), proptest::bool::weighted(0.6), prop_oneof![5 => Just(0u8), 2 => Just(1u8), 1 => Just(2u8)])
                .prop_map(|(len, on_finish, msg, key_nl, blank_first)| BarSpec { two_lines: false, len, on_finish, msg, key_nl, blank_first });
            let op = prop_oneof![
                3 => spec.prop_map(MOp::Add),
                2 => s().prop_map(MOp::Remove),
                6 => s().prop_map(MOp::Tick),
                2 => (s(), 1u64..4).prop_map(|(i, d)| MOp::Inc(i, d)),
                5 => (s(), msg).prop_map(|(i, m)| MOp::SetMessage(i, m)),
                2 => s().prop_map(MOp::Finish),
                1 => s().prop_map(MOp::FinishAndClear),
                2 => s().prop_map(MOp::Drop),
                2 => "[a-z]{1,4}".prop_map(MOp::MpPrintln),
                1 => Just(MOp::MpClear),
            ];
            (Just(cols), proptest::collection::vec(op, 0..n))
        })
        .prop_map(|(cols, ops)| {
            let mut all = vec![];
            let mut bars = 0;
            for op in ops {
                if matches!(op, MOp::Add(_)) {
                    bars += 1;
                    if bars > 4 {
                        continue;
                    }
                }
                all.push(op);
            }
            MultiCase { rows: 40, cols: cols as u16, hz: None, step_ms: 2, ops: all, final_drops: vec![] }
        })
        .boxed()
}

// ------------------------------------------------------------------------------------------
// bottom alignment and height overflow together

#[derive(Debug, Clone, serde::Serialize, serde::Deserialize)]
pub struct BottomOverCase {
    rows: u8,
    cols: u8,
    bars: u8,
    /// (bar selector, message length in columns, then a tick of this bar selector)
    steps: Vec<(u8, u16, u8)>,
}

/// Redraws "remove all of their rows and nothing else", also when a bottom-aligned region is cut at the
/// terminal height in one frame and fits again in the next: the line printed before the bars existed is
/// the first row ever written and must stay what it is.
fn run_bottom_over(c: &BottomOverCase) -> CaseResult {
    use indicatif::{MultiProgress, MultiProgressAlignment, ProgressBar, ProgressDrawTarget, ProgressStyle};
    let _clk = clock::Armed::new();
    let (rows, cols) = (c.rows.clamp(3, 9) as usize, c.cols.clamp(6, 24) as usize);
    let vt = crate::vterm::VTerm::new(rows, cols);
    let mp = MultiProgress::with_draw_target(ProgressDrawTarget::term_like(vt.boxed()));
    let r = catch(|| -> Result<(bool, bool), Fail> {
        let _ = mp.println("~L~");
        mp.set_alignment(MultiProgressAlignment::Bottom);
        // (the log row and the bars fit on the screen as long as no message wraps)
        let n = (c.bars as usize % 3 + 1).min(rows - 2);
        let bars: Vec<ProgressBar> = (0..n)
            .map(|i| {
                let pb = mp.add(ProgressBar::with_draw_target(Some(9), ProgressDrawTarget::hidden()));
                pb.set_style(ProgressStyle::with_template(&format!("B{i}:{{msg}}")).unwrap());
                pb
            })
            .collect();
        let (mut cut, mut fits_again) = (false, false);
        let mut lens = vec![0usize; n];
        let check = |what: &str| -> Result<(), Fail> {
            let all = vt.rows();
            let hits = all.iter().filter(|r| r.contains("~L~")).count();
            ensure!(
                all.first().map_or(false, |r| r.trim_end() == "~L~") && hits == 1,
                "bottom_overflow_erases_above",
                "{what} ({rows}x{cols} terminal, bottom alignment, case {c:?}): the line printed before the bars is no longer the intact first row: rows {all:?}"
            );
            Ok(())
        };
        for b in &bars {
            clock::advance(Duration::from_millis(2));
            b.tick();
        }
        check("after the first frames")?;
        for (k, (sel, len, tick)) in c.steps.iter().enumerate() {
            clock::advance(Duration::from_millis(2));
            let i = *sel as usize % n;
            lens[i] = *len as usize % (rows * cols + 2 * cols);
            bars[i].set_message("m".repeat(lens[i]));
            check(&format!("step #{k}: set_message of {} columns on B{i}", lens[i]))?;
            clock::advance(Duration::from_millis(2));
            bars[*tick as usize % n].tick();
            check(&format!("step #{k}: tick after it"))?;
            let total: usize = lens.iter().map(|l| (l + 3 + cols - 1) / cols).sum();
            if total > rows {
                cut = true;
            } else if cut {
                fits_again = true;
            }
        }
        Ok((cut, fits_again))
    });
    let (cut, fits_again) = r.map_err(|p| Fail::new("panic", format!("{c:?} panicked: {p}")))??;
    let mut v = Verdict::default();
    v.nontrivial = cut;
    v.label_if(cut, "bottom_aligned_frame_cut_at_the_terminal_height");
    v.label_if(fits_again, "fits_again_after_the_cut");
    Ok(v)
}

pub fn property() -> Property {
    let w = default_workers();
    Property {
        id: "C19",
        level: "exploration",
        assumptions: &[
            "single-line bars (which wrap over several rows); the statement does not say whether a multi-line bar may be cut between its lines",
            "top alignment (bottom alignment is exercised by C02 on terminals that are tall enough; on a terminal that the region fills completely the blank shift rows scroll away, which no statement covers); full-screen oracle: scroll-back + visible rows must be exactly printed lines ++ retained blocks ++ the leading bar lines whose rows fit the height, so a bar row that scrolled out or survived a redraw shows up as a mismatch",
            "double-width glyphs only where none meets the last cell of a row: where such a glyph goes is terminal-dependent, those cases are discarded and counted under the label discarded_wide_glyph_at_right_margin",
        ],
        parts: vec![Box::new(Gen::<MultiCase> {
            name: "overflow",
            rule: "MultiProgress on terminals from 1x1 to 12x40 (thorough 40x200) with up to 8 single-line bars whose width sits at k*W-2..k*W+2 (1-4 rows each), ops add/remove/tick/inc/set_message/finish/finish_and_clear/drop/println (also through a member bar, also the empty line)/clear/resize, one history in six on a rate-limited target (1/20/255 Hz, burst used up, clock step 0/1/200 ms) so that the frame crosses the terminal height in both directions; at every flush the screen must equal log ++ retained blocks ++ the longest fitting prefix of the bar lines, and move_cursor_up never exceeds rows-1; non-trivial = a line wraps and the frame exceeded the height at least once",
            strategy: geo_strategy,
            cases: |t| t.pick(16_000, 800_000),
            run: run_geo,
            signature: crate::props::c02::signature,
            essential: &["line_wraps", "frame_taller_than_terminal", "fits_again_after_overflow", "one_row_or_one_column", "log_lines", "double_width_line_wraps_with_fewer_chars_than_columns", "terminal_height_changed", "terminal_wider_than_256_columns", "draws_skipped_by_the_limiter", "empty_line_printed_through_a_member", "line_of_65536_rows_or_more"],
            workers: w,
            decode: Some(|u| decode_multi(u, 2)),
        }),
        Box::new(Gen::<MultiCase> {
            name: "bottom_wrap",
            rule: "bottom-aligned MultiProgress on a 16-row x 4..40-column terminal, at most four single-line bars whose messages wrap over 1-3 rows; ops add/remove/tick/inc/set_message/finish/finish_and_clear (no text, clear, suspend or drop, so the strict bottom-alignment oracle applies): at every flush the screen is the blank shift rows followed by the drawn members, rows counted as wrapped; non-trivial = a line wraps",
            strategy: bottom_strategy,
            cases: |t| t.pick(4_000, 200_000),
            run: run_bottom,
            signature: crate::props::c02::signature,
            essential: &["line_wraps", "region_shrinks_under_bottom_alignment"],
            workers: w,
            decode: None,
        }),
        Box::new(Gen::<MultiCase> {
            name: "key_newline",
            rule: "MultiProgress on a 40-row x 4..40-column terminal, at most four bars whose messages wrap over 1-3 rows and of which 60% get one more line from a custom key that writes a line break (a row that neither the template nor the message announces) and 3 in 8 start with a template line of blanks that fills one or two whole rows; ops add/remove/tick/inc/set_message/finish/finish_and_clear/drop/println/clear; full-screen oracle at every flush: every redraw and clear removes all rows of the old frame, the kept rows of dropped bars are exact; non-trivial = a frame with such a line was redrawn at least twice",
            strategy: key_nl_strategy,
            cases: |t| t.pick(4_000, 200_000),
            run: run_key_nl,
            signature: crate::props::c02::signature,
            essential: &["frame_with_a_key_written_line_break_redrawn", "line_wraps", "first_line_of_blanks_that_fills_whole_rows"],
            workers: w,
            decode: None,
        }),
        Box::new(Gen::<BottomOverCase> {
            name: "bottom_overflow",
            rule: "one line is printed, then bottom alignment is switched on and 1-3 single-line bars are added to a terminal of 3-9 rows x 6-24 columns; 1-12 steps of set_message (0 .. rows*cols + 2*cols columns, so that the frame is cut at the terminal height in some frames and fits again in others) and a tick; after every call the printed line is still the intact first row ever written and exists once (redraws remove their own rows and nothing else); non-trivial = a frame was cut at the terminal height",
            strategy: |_| {
                (3u8..=9, 6u8..=24, 0u8..3, proptest::collection::vec((any::<u8>(), prop_oneof![2 => 0u16..30, 2 => 30u16..300, 1 => Just(0u16)], any::<u8>()), 1..12))
                    .prop_map(|(rows, cols, bars, steps)| BottomOverCase { rows, cols, bars, steps })
                    .boxed()
            },
            cases: |t| t.pick(3_000, 150_000),
            run: run_bottom_over,
            signature: no_signature,
            essential: &["bottom_aligned_frame_cut_at_the_terminal_height", "fits_again_after_the_cut"],
            workers: w,
            decode: None,
        })],
    }
}
