use crate::runner::Property;

pub mod c07;
pub mod c09;
pub mod c10;
pub mod c12;
pub mod c13;
pub mod c14;
pub mod c15;

pub fn get(id: &str) -> Option<Property> {
    Some(match id {
        "C07" => c07::property(),
        "C09" => c09::property(),
        "C10" => c10::property(),
        "C12" => c12::property(),
        "C13" => c13::property(),
        "C14" => c14::property(),
        "C15" => c15::property(),
        _ => return None,
    })
}
