use crate::runner::Property;

pub mod c10;
pub mod c15;

pub fn get(id: &str) -> Option<Property> {
    Some(match id {
        "C10" => c10::property(),
        "C15" => c15::property(),
        _ => return None,
    })
}
