//! C15 Human-readable formatters are total and faithful.
use std::collections::BTreeMap;
use std::time::Duration;

use indicatif::{
    BinaryBytes, DecimalBytes, FormattedDuration, HumanBytes, HumanCount, HumanDuration, HumanFloatCount,
};
use proptest::prelude::*;
use serde::{Deserialize, Serialize};
use serde_json::{json, Value};

use crate::ensure;
use crate::runner::*;

// ------------------------------------------------------------------------------------------
// reference pieces

/// Insert a comma after every third digit counted from the right of a digit string.
fn commas(digits: &str) -> String {
    let n = digits.len();
    let mut out = String::new();
    for (i, c) in digits.chars().enumerate() {
        out.push(c);
        let rest = n - i - 1;
        if rest > 0 && rest % 3 == 0 {
            out.push(',');
        }
    }
    out
}

/// Reference for HumanFloatCount: standard fixed-precision representation, trailing zeros (and a
/// bare '.') trimmed, commas in the integer digits, sign untouched, non-finite values as std prints.
fn ref_float_count(x: f64, precision: usize) -> String {
    let std = format!("{:.*}", precision, x);
    if !x.is_finite() {
        return std;
    }
    let (sign, body) = match std.strip_prefix('-') {
        Some(b) => ("-", b),
        None => ("", std.as_str()),
    };
    let (int, frac) = match body.split_once('.') {
        Some((i, f)) => (i, f.trim_end_matches('0')),
        None => (body, ""),
    };
    let mut out = format!("{sign}{}", commas(int));
    if !frac.is_empty() {
        out.push('.');
        out.push_str(frac);
    }
    out
}

fn u64_strategy() -> BoxedStrategy<u64> {
    prop_oneof![
        4 => any::<u64>(),
        2 => (0u32..20, -2i64..=2).prop_map(|(k, d)| (10u64.pow(k) as i128 + d as i128).clamp(0, u64::MAX as i128) as u64),
        2 => (0u32..64, -2i64..=2).prop_map(|(k, d)| ((1u128 << k) as i128 + d as i128).clamp(0, u64::MAX as i128) as u64),
        1 => 0u64..5000,
        1 => (0u32..64).prop_flat_map(|k| 0u64..=(u64::MAX >> k)),
    ]
    .boxed()
}

// ------------------------------------------------------------------------------------------
// part: count

#[derive(Debug, Clone, Serialize, Deserialize)]
pub struct CountCase {
    n: u64,
    /// first another count is written into a sink that accepts this many characters and then fails
    /// (a bounded buffer, a closed pipe): what it got is a prefix of that count's text, and the failure
    /// leaves nothing behind for the count formatted next
    #[serde(default)]
    prior: Option<(u64, u8)>,
}

struct Bounded(usize, String);
impl std::fmt::Write for Bounded {
    fn write_str(&mut self, s: &str) -> std::fmt::Result {
        for ch in s.chars() {
            if self.1.chars().count() >= self.0 {
                return Err(std::fmt::Error);
            }
            self.1.push(ch);
        }
        Ok(())
    }
}

fn run_count(c: &CountCase) -> CaseResult {
    let mut failed_before = false;
    if let Some((m, cap)) = c.prior {
        use std::fmt::Write;
        let mut sink = Bounded(cap as usize, String::new());
        let r = catch(|| write!(sink, "{}", HumanCount(m))).map_err(|p| Fail::new("panic", format!("HumanCount({m}) into a failing sink panicked: {p}")))?;
        let full = commas(&m.to_string());
        ensure!(full.starts_with(&sink.1), "count", "HumanCount({m}) wrote {:?} into a sink of {cap} characters, which is not a prefix of {full:?}", sink.1);
        ensure!(r.is_ok() == (full.chars().count() <= cap as usize), "count", "HumanCount({m}) into a sink of {cap} characters returned {r:?}");
        failed_before = r.is_err();
    }
    let got = catch(|| format!("{}", HumanCount(c.n))).map_err(|p| Fail::new("panic", format!("HumanCount({}) panicked: {p}", c.n)))?;
    let want = commas(&c.n.to_string());
    ensure!(got == want, "count", "HumanCount({}) = {:?}, expected {:?}", c.n, got, want);
    // the representation is fixed by the statement: a sign flag, a precision or the alternate flag in the
    // caller's format string do not change the digits and commas, whatever the magnitude
    let flagged = catch(|| [format!("{:+}", HumanCount(c.n)), format!("{:.1}", HumanCount(c.n)), format!("{:#}", HumanCount(c.n))]).map_err(|p| Fail::new("panic", format!("HumanCount({}) with format flags panicked: {p}", c.n)))?;
    for (f, spec) in flagged.iter().zip(["{:+}", "{:.1}", "{:#}"]) {
        ensure!(*f == want, "count", "HumanCount({}) formatted with {spec} = {f:?}, expected the standard representation {want:?}", c.n);
    }
    let mut v = Verdict::default();
    v.nontrivial = c.n >= 1000;
    v.label_if(c.n >= 1000, "has_comma");
    v.label_if(c.n < 1000, "no_comma");
    v.label_if(failed_before, "formatted_after_a_failed_write");
    Ok(v)
}

// ------------------------------------------------------------------------------------------
// part: floatcount

#[derive(Debug, Clone, Serialize, Deserialize)]
pub struct FloatCase {
    bits: u64,
    /// None = the wrapper's default precision (documented: 4)
    precision: Option<u8>,
}

fn f64_bits_strategy() -> BoxedStrategy<u64> {
    prop_oneof![
        3 => any::<u64>(),
        3 => (any::<bool>(), 0f64..1e7).prop_map(|(neg, x)| (if neg { -x } else { x }).to_bits()),
        2 => (any::<bool>(), 0u32..25, -1000i32..1000).prop_map(|(neg, k, d)| {
            let x = 10f64.powi(k as i32) + d as f64 / 1000.0;
            (if neg { -x } else { x }).to_bits()
        }),
        2 => (any::<bool>(), 0u64..100_000_000, 0u32..8).prop_map(|(neg, m, k)| {
            // values with a short decimal expansion around rounding boundaries (x.5, x.95 ...)
            let x = m as f64 / 10f64.powi(k as i32);
            (if neg { -x } else { x }).to_bits()
        }),
        // powers of two and their neighbours in f64 (integer conversions saturate or lose bits there:
        // 2^24, 2^31, 2^32, 2^53, 2^63, 2^64 ...), with either sign
        2 => (any::<bool>(), 0u32..130, -2i64..=2).prop_map(|(neg, k, ulps)| {
            let x = f64::from_bits((2f64.powi(k as i32).to_bits() as i64 + ulps) as u64);
            (if neg { -x } else { x }).to_bits()
        }),
        1 => prop_oneof![
            Just(f64::INFINITY.to_bits()),
            Just(f64::NEG_INFINITY.to_bits()),
            Just(f64::NAN.to_bits()),
            Just(0f64.to_bits()),
            Just((-0f64).to_bits()),
            Just(f64::MIN_POSITIVE.to_bits()),
            Just(1u64),
            Just(f64::MAX.to_bits()),
            Just(f64::MIN.to_bits()),
            Just((-123.0f64).to_bits()),
            Just(999.99995f64.to_bits()),
        ],
    ]
    .boxed()
}

/// a sink that formats another value of the same wrapper while it is being written to (a logger that
/// decorates what passes through it): formatting is re-entrant
struct Decorating(String, f64);
impl std::fmt::Write for Decorating {
    fn write_str(&mut self, s: &str) -> std::fmt::Result {
        let inner = format!("{}", HumanFloatCount(self.1));
        if inner.is_empty() {
            return Err(std::fmt::Error);
        }
        self.0.push_str(s);
        Ok(())
    }
}

fn run_float(c: &FloatCase) -> CaseResult {
    let x = f64::from_bits(c.bits);
    if c.bits % 16 == 3 {
        use std::fmt::Write;
        let r = catch(|| {
            let mut sink = Decorating(String::new(), x * 0.5);
            write!(sink, "{}", HumanFloatCount(x)).map(|_| sink.0)
        })
        .map_err(|p| Fail::new("panic", format!("HumanFloatCount({x:?}) written to a sink that formats another HumanFloatCount panicked: {p}")))?;
        let plain = format!("{}", HumanFloatCount(x));
        ensure!(r.as_deref() == Ok(plain.as_str()), "floatcount", "HumanFloatCount({x:?}) through a re-entrant sink gave {r:?}, plain formatting gives {plain:?}");
    }
    let got = catch(|| match c.precision {
        Some(p) => format!("{:.*}", p as usize, HumanFloatCount(x)),
        None => format!("{}", HumanFloatCount(x)),
    })
    .map_err(|p| Fail::new("panic", format!("HumanFloatCount({x:?}) precision {:?} panicked: {p}", c.precision)))?;
    let p = c.precision.map(|p| p as usize).unwrap_or(4);
    let want = ref_float_count(x, p);
    let kind = if x.is_sign_negative() && !x.is_nan() {
        "floatcount_negative"
    } else if !format!("{:.*}", p, x).contains('.') {
        "floatcount_no_fraction"
    } else {
        "floatcount"
    };
    ensure!(got == want, kind, "HumanFloatCount({x:?}) precision {:?} = {:?}, expected {:?}", c.precision, got, want);
    let mut v = Verdict::default();
    let big = x.is_finite() && x.abs() >= 999.5;
    v.nontrivial = big || !x.is_finite() || x < 0.0;
    v.label_if(big, "has_comma");
    v.label_if(x.is_sign_negative(), "negative");
    v.label_if(!x.is_finite(), "non_finite");
    v.label_if(c.precision == Some(0), "precision0");
    v.label_if(got.contains('.'), "fraction_kept");
    Ok(v)
}

// ------------------------------------------------------------------------------------------
// part: bytes

#[derive(Debug, Clone, Serialize, Deserialize)]
pub struct BytesCase {
    n: u64,
}

const BIN: [&str; 9] = ["", "Ki", "Mi", "Gi", "Ti", "Pi", "Ei", "Zi", "Yi"];
const DEC: [&str; 9] = ["", "k", "M", "G", "T", "P", "E", "Z", "Y"];

fn check_bytes(name: &str, s: &str, n: u64, base: u128, prefixes: &[&str; 9]) -> Result<usize, Fail> {
    let (val, unit) = s
        .split_once(' ')
        .ok_or_else(|| Fail::new("bytes", format!("{name}({n}) = {s:?}: no 'value unit' shape")))?;
    ensure!(unit.ends_with('B'), "bytes", "{name}({n}) = {s:?}: unit does not end in B");
    let pre = &unit[..unit.len() - 1];
    let k = prefixes
        .iter()
        .position(|p| *p == pre)
        .ok_or_else(|| Fail::new("bytes", format!("{name}({n}) = {s:?}: unknown prefix {pre:?}")))?;
    // largest fitting prefix: by the exact value, or by its nearest double (u64 -> f64 slack)
    let exact_k = {
        let mut k = 0;
        while k + 1 < 9 && (n as u128) >= base.pow(k as u32 + 1) {
            k += 1;
        }
        k
    };
    let float_k = {
        let x = n as f64;
        let mut k = 0;
        while k + 1 < 9 && x >= (base as f64).powi(k as i32 + 1) {
            k += 1;
        }
        k
    };
    ensure!(k == exact_k || k == float_k, "bytes", "{name}({n}) = {s:?}: prefix index {k}, expected {exact_k}");
    if k == 0 {
        ensure!(val == n.to_string(), "bytes", "{name}({n}) = {s:?}: plain bytes must be the whole number");
    } else {
        let (i, f) = val
            .split_once('.')
            .ok_or_else(|| Fail::new("bytes", format!("{name}({n}) = {s:?}: no decimals")))?;
        ensure!(
            f.len() == 2 && f.bytes().all(|b| b.is_ascii_digit()) && !i.is_empty() && i.bytes().all(|b| b.is_ascii_digit()),
            "bytes",
            "{name}({n}) = {s:?}: value is not <digits>.<2 digits>"
        );
        let hundredths: u128 = i.parse::<u128>().unwrap() * 100 + f.parse::<u128>().unwrap();
        // |value*unit - n| <= 0.005*unit  <=>  |hundredths*unit - 100 n| <= unit/2 ; allow f64 slack
        let unit = base.pow(k as u32);
        let lhs = (hundredths * unit).abs_diff(100 * n as u128);
        let slack = (n as u128 >> 50) * 100 + 1; // double rounding of huge u64 values
        ensure!(
            lhs <= unit / 2 + slack,
            "bytes",
            "{name}({n}) = {s:?}: value is not {n}/{unit} rounded to two decimals"
        );
    }
    Ok(k)
}

fn run_bytes(c: &BytesCase) -> CaseResult {
    let n = c.n;
    let (h, b, d) = catch(|| {
        (
            format!("{}", HumanBytes(n)),
            format!("{}", BinaryBytes(n)),
            format!("{}", DecimalBytes(n)),
        )
    })
    .map_err(|p| Fail::new("panic", format!("bytes formatter panicked for {n}: {p}")))?;
    let k1 = check_bytes("HumanBytes", &h, n, 1024, &BIN)?;
    check_bytes("BinaryBytes", &b, n, 1024, &BIN)?;
    let k2 = check_bytes("DecimalBytes", &d, n, 1000, &DEC)?;
    ensure!(h == b, "bytes", "HumanBytes({n}) = {h:?} differs from BinaryBytes = {b:?} (documented alias)");
    // "two decimals (whole numbers for plain bytes)", whatever precision or sign flag the caller's format string carries
    let flagged = catch(|| [format!("{:.1}", HumanBytes(n)), format!("{:.0}", DecimalBytes(n)), format!("{:.5}", BinaryBytes(n)), format!("{:+}", HumanBytes(n))]).map_err(|p| Fail::new("panic", format!("bytes formatter with format flags panicked for {n}: {p}")))?;
    for (f, (spec, plain)) in flagged.iter().zip([("{:.1} of HumanBytes", &h), ("{:.0} of DecimalBytes", &d), ("{:.5} of BinaryBytes", &b), ("{:+} of HumanBytes", &h)]) {
        ensure!(f == plain, "bytes", "{spec}({n}) = {f:?}, expected {plain:?} (value and unit with two decimals)");
    }
    let mut v = Verdict::default();
    v.nontrivial = k1 > 0 || k2 > 0;
    v.label_if(k1 == 0, "plain");
    v.label_if(k1 > 0, "prefixed");
    v.label_if(k1 >= 5, "peta_or_more");
    Ok(v)
}

// ------------------------------------------------------------------------------------------
// durations

const NS: u128 = 1_000_000_000;
const UNITS: [(u128, &str, &str); 6] = [
    (365 * 24 * 3600 * NS, "year", "y"),
    (7 * 24 * 3600 * NS, "week", "w"),
    (24 * 3600 * NS, "day", "d"),
    (3600 * NS, "hour", "h"),
    (60 * NS, "minute", "m"),
    (NS, "second", "s"),
];

fn ref_formatted(d: Duration) -> String {
    let t = d.as_secs();
    let (s, m, h, days) = (t % 60, (t / 60) % 60, (t / 3600) % 24, t / 86400);
    if days > 0 {
        format!("{days}d {h:02}:{m:02}:{s:02}")
    } else {
        format!("{h:02}:{m:02}:{s:02}")
    }
}

/// The stated rule: the unit is the largest one with `d + next/2 >= 1.5 unit` (seconds otherwise),
/// the count is the nearest whole number of units (half up), at least 2 above seconds.
fn ref_human_unit(d_ns: u128) -> usize {
    for i in 0..5 {
        let (u, _, _) = UNITS[i];
        let next = UNITS[i + 1].0;
        if d_ns + next / 2 >= u + u / 2 {
            return i;
        }
    }
    5
}

/// parse "<count> <name>[s]" or "<count><alt>"; returns (count, unit index)
fn parse_human(s: &str, alt: bool) -> Option<(u128, usize)> {
    if alt {
        let pos = s.find(|c: char| !c.is_ascii_digit())?;
        let (n, u) = s.split_at(pos);
        let i = UNITS.iter().position(|x| x.2 == u)?;
        Some((n.parse().ok()?, i))
    } else {
        let (n, u) = s.split_once(' ')?;
        let n: u128 = n.parse().ok()?;
        let i = UNITS.iter().position(|x| if n == 1 { x.1 == u } else { u.strip_suffix('s') == Some(x.1) })?;
        Some((n, i))
    }
}

fn check_human(d: Duration) -> Result<(u128, usize), Fail> {
    let (plain, alt) = catch(|| (format!("{}", HumanDuration(d)), format!("{:#}", HumanDuration(d))))
        .map_err(|p| Fail::new("panic", format!("HumanDuration({d:?}) panicked: {p}")))?;
    let d_ns = d.as_nanos();
    let (n, i) = parse_human(&plain, false)
        .ok_or_else(|| Fail::new("hduration", format!("HumanDuration({d:?}) = {plain:?}: not '<count> <unit>[s]' with correct plural")))?;
    let (n2, i2) = parse_human(&alt, true)
        .ok_or_else(|| Fail::new("hduration", format!("HumanDuration({d:?}) alternate = {alt:?}: not '<count><unit letter>'")))?;
    ensure!((n, i) == (n2, i2), "hduration", "HumanDuration({d:?}): plain {plain:?} and alternate {alt:?} disagree");
    let want_i = ref_human_unit(d_ns);
    ensure!(i == want_i, "hduration", "HumanDuration({d:?}) = {plain:?}: unit should be {}", UNITS[want_i].1);
    let u = UNITS[i].0;
    let exact = (d_ns + u / 2) / u; // nearest, half up
    let want = if i < 5 { exact.max(2) } else { exact };
    if n != want {
        // tolerate a one-off only where f64 cannot resolve the half-way point
        let q = d_ns as f64 / u as f64;
        let near_half = ((q - q.floor()) - 0.5).abs() <= q * 1e-12 + 1e-9;
        ensure!(
            near_half && n.abs_diff(want) <= 1 && d_ns > (1u128 << 53),
            "hduration",
            "HumanDuration({d:?}) = {plain:?}: count should be {want}"
        );
    }
    ensure!(i == 5 || n >= 2, "hduration", "HumanDuration({d:?}) = {plain:?}: '1 unit' above seconds");
    Ok((n * u, i))
}

#[derive(Debug, Clone, Serialize, Deserialize)]
pub struct DurCase {
    a_secs: u64,
    a_nanos: u32,
    b_secs: u64,
    b_nanos: u32,
}

fn dur_strategy() -> BoxedStrategy<(u64, u32)> {
    let secs = prop_oneof![
        3 => 0u64..200,
        3 => 0u64..(3 * 365 * 86400),
        2 => any::<u64>(),
        2 => (0usize..6, 0u64..6, -2i64..=2, 0u64..3).prop_map(|(u, n, d, half)| {
            let unit = (UNITS[u].0 / NS) as u64;
            ((n * unit + half * unit / 2) as i128 + d as i128).max(0) as u64
        }),
        1 => (0u32..64).prop_flat_map(|k| 0u64..=(u64::MAX >> k)),
    ];
    let nanos = prop_oneof![
        Just(0u32),
        Just(1),
        Just(499_999_999),
        Just(500_000_000),
        Just(500_000_001),
        Just(999_000_000),
        Just(999_999_999),
        0u32..1_000_000_000
    ];
    (secs, nanos).boxed()
}

fn run_dur(c: &DurCase) -> CaseResult {
    let a = Duration::new(c.a_secs, c.a_nanos % 1_000_000_000);
    let b = Duration::new(c.b_secs, c.b_nanos % 1_000_000_000);
    let mut v = Verdict::default();
    for d in [a, b] {
        let f = catch(|| format!("{}", FormattedDuration(d)))
            .map_err(|p| Fail::new("panic", format!("FormattedDuration({d:?}) panicked: {p}")))?;
        ensure!(f == ref_formatted(d), "fduration", "FormattedDuration({d:?}) = {f:?}, expected {:?}", ref_formatted(d));
        v.label_if(d.as_secs() >= 86400, "days");
    }
    let (va, ia) = check_human(a)?;
    let (vb, ib) = check_human(b)?;
    let (lo, hi, vlo, vhi) = if a <= b { (a, b, va, vb) } else { (b, a, vb, va) };
    ensure!(vlo <= vhi, "hduration_monotone", "HumanDuration not monotone: {lo:?} denotes {vlo} ns but {hi:?} denotes {vhi} ns");
    v.nontrivial = ia < 5 || ib < 5;
    v.label_if(ia != ib, "two_units");
    v.label_if(ia < 5, "above_seconds");
    Ok(v)
}

// ------------------------------------------------------------------------------------------
// exhaustive unit boundaries

fn boundary_points() -> Vec<Duration> {
    let mut pts: Vec<u128> = vec![0, 1, Duration::MAX.as_nanos(), Duration::MAX.as_nanos() - 1];
    let deltas: [i128; 9] = [-1_000_000_000, -1_000_000, -1000, -1, 0, 1, 1000, 1_000_000, 1_000_000_000];
    for (i, (u, _, _)) in UNITS.iter().enumerate() {
        let mut centers: Vec<u128> = vec![];
        for n in 0..=120u128 {
            centers.push(n * u);
            centers.push(n * u + u / 2);
        }
        if i + 1 < 6 {
            centers.push(u + u / 2 - UNITS[i + 1].0 / 2);
        }
        for c in centers {
            for d in deltas {
                let p = c as i128 + d;
                if p >= 0 {
                    pts.push(p as u128);
                }
            }
        }
    }
    pts.sort();
    pts.dedup();
    pts.into_iter()
        .filter(|p| *p <= Duration::MAX.as_nanos())
        .map(|p| Duration::new((p / NS) as u64, (p % NS) as u32))
        .collect()
}

fn run_boundaries(_tier: Tier, _seed: u64) -> EnumReport {
    let pts = boundary_points();
    let mut rep = EnumReport { exhaustive: true, ..Default::default() };
    let mut prev: Option<(Duration, u128)> = None;
    let mut labels: BTreeMap<String, u64> = BTreeMap::new();
    for d in &pts {
        rep.evaluations += 1;
        let case = json!({"secs": d.as_secs(), "nanos": d.subsec_nanos(), "prev_secs": prev.map(|p| p.0.as_secs()), "prev_nanos": prev.map(|p| p.0.subsec_nanos())});
        match check_human(*d) {
            Ok((val, i)) => {
                *labels.entry(format!("unit_{}", UNITS[i].1)).or_default() += 1;
                if let Some((pd, pv)) = prev {
                    if pv > val {
                        rep.failure = Some((
                            case,
                            Fail::new("hduration_monotone", format!("HumanDuration not monotone: {pd:?} denotes {pv} ns but {d:?} denotes {val} ns")),
                        ));
                        break;
                    }
                }
                prev = Some((*d, val));
                rep.distinct_nontrivial += 1;
            }
            Err(f) => {
                rep.failure = Some((case, f));
                break;
            }
        }
        let f = format!("{}", FormattedDuration(*d));
        if f != ref_formatted(*d) {
            rep.failure = Some((case, Fail::new("fduration", format!("FormattedDuration({d:?}) = {f:?}"))));
            break;
        }
        if rep.samples.len() < 3 && rep.evaluations % 1000 == 7 {
            rep.samples.push(case);
        }
    }
    rep.labels = labels;
    rep
}

fn replay_boundary(v: &Value) -> Result<CaseResult, String> {
    let d = Duration::new(v["secs"].as_u64().ok_or("secs")?, v["nanos"].as_u64().ok_or("nanos")? as u32);
    let mut r = check_human(d);
    if let (Ok((val, _)), Some(ps), Some(pn)) = (&r, v["prev_secs"].as_u64(), v["prev_nanos"].as_u64()) {
        let pd = Duration::new(ps, pn as u32);
        if let Ok((pv, _)) = check_human(pd) {
            if pv > *val {
                r = Err(Fail::new("hduration_monotone", format!("{pd:?} denotes {pv} ns but {d:?} denotes {val} ns")));
            }
        }
    }
    Ok(r.map(|_| Verdict::default()))
}

// ------------------------------------------------------------------------------------------

// ------------------------------------------------------------------------------------------
// formatting while the thread is being torn down

#[derive(Debug, Clone, Serialize, Deserialize)]
pub struct TeardownCase {
    n: u64,
    fbits: u64,
    secs: u64,
    /// the wrappers are used in the thread before it ends (so that whatever they keep per thread exists and
    /// is destroyed before the value below)
    warm: bool,
}

fn all_wrappers(n: u64, f: f64, secs: u64) -> String {
    let d = Duration::from_secs(secs);
    format!("{}|{}|{:.3}|{}|{}|{}|{}|{:#}|{}", HumanCount(n), HumanFloatCount(f), HumanFloatCount(f), HumanBytes(n), BinaryBytes(n), DecimalBytes(n), HumanDuration(d), HumanDuration(d), FormattedDuration(d))
}

struct FormatsWhenDropped(u64, f64, u64, std::sync::mpsc::Sender<Result<String, String>>);

impl Drop for FormatsWhenDropped {
    fn drop(&mut self) {
        let (n, f, secs) = (self.0, self.1, self.2);
        let _ = self.3.send(catch(move || all_wrappers(n, f, secs)));
    }
}

thread_local! {
    static AT_EXIT: std::cell::RefCell<Option<FormatsWhenDropped>> = const { std::cell::RefCell::new(None) };
}

/// "never panic": also when a value is formatted from the destructor of a thread-local while the thread
/// ends (a progress bar kept in a thread_local! that paints its last frame there) - after anything the
/// wrappers may keep per thread has been destroyed.
fn run_teardown(c: &TeardownCase) -> CaseResult {
    let f = f64::from_bits(c.fbits);
    let want = all_wrappers(c.n, f, c.secs);
    let (tx, rx) = std::sync::mpsc::channel();
    let (n, secs, warm) = (c.n, c.secs, c.warm);
    let h = std::thread::spawn(move || {
        // registered first, destroyed last
        AT_EXIT.with(|slot| *slot.borrow_mut() = Some(FormatsWhenDropped(n, f, secs, tx)));
        if warm {
            let _ = all_wrappers(n ^ 1, f, secs);
        }
    });
    let joined = h.join();
    let got = rx.recv_timeout(Duration::from_secs(10)).map_err(|_| Fail::new("harness", "the thread-local destructor did not report".to_string()))?;
    ensure!(joined.is_ok(), "panic", "the thread panicked");
    let got = got.map_err(|p| Fail::new("panic", format!("formatting {} / {f:?} / {} s from a thread-local destructor at thread exit panicked: {p}", c.n, c.secs)))?;
    ensure!(got == want, "teardown_differs", "formatted at thread exit: {got:?}, in a running thread: {want:?}");
    let mut v = Verdict::default();
    v.nontrivial = c.warm;
    v.label_if(c.warm, "wrappers_used_in_the_thread_before_it_ended");
    Ok(v)
}

pub fn property() -> Property {
    let w = default_workers();
    Property {
        id: "C15",
        level: "exploration",
        assumptions: &[
            "reference formatters in the harness (commas, fixed-precision via std, integer-ns duration rule) are correct",
            "HumanDuration count may differ by one only where f64 cannot resolve the half-way point (d > 2^53 ns)",
        ],
        parts: vec![
            Box::new(Gen::<CountCase> {
                name: "count",
                rule: "u64 from any/10^k+-2/2^k+-2/small; in a third of the cases another count is first written into a sink that fails after 0-26 characters (it must have received a prefix of the right text, and the count formatted next on the same thread is unaffected); non-trivial = value >= 1000 (a comma is needed)",
                strategy: |_| (u64_strategy(), proptest::option::weighted(0.33, (u64_strategy(), 0u8..27))).prop_map(|(n, prior)| CountCase { n, prior }).boxed(),
                cases: |t| t.pick(40_000, 1_000_000),
                run: run_count,
                signature: no_signature,
                essential: &["has_comma", "no_comma", "formatted_after_a_failed_write"],
                workers: w,
                decode: None,
            }),
            Box::new(Gen::<FloatCase> {
                name: "floatcount",
                rule: "f64 from raw bit patterns, decimal-boundary values, specials (inf, NaN, -0, subnormal, MAX) x precision None|0..=25; non-trivial = |x| >= 999.5, negative or non-finite",
                strategy: |_| {
                    (f64_bits_strategy(), prop_oneof![1 => Just(None), 3 => (0u8..=25).prop_map(Some)])
                        .prop_map(|(bits, precision)| FloatCase { bits, precision })
                        .boxed()
                },
                cases: |t| t.pick(60_000, 2_000_000),
                run: run_float,
                signature: no_signature,
                essential: &["has_comma", "negative", "non_finite", "precision0", "fraction_kept"],
                workers: w,
                decode: Some(|u| FloatCase { bits: u.u64(), precision: if u.n(3) == 0 { None } else { Some(u.n(25) as u8) } }),
            }),
            Box::new(Gen::<BytesCase> {
                name: "bytes",
                rule: "u64 as for count, through HumanBytes/BinaryBytes/DecimalBytes; non-trivial = a prefix is needed",
                strategy: |_| u64_strategy().prop_map(|n| BytesCase { n }).boxed(),
                cases: |t| t.pick(40_000, 1_000_000),
                run: run_bytes,
                signature: no_signature,
                essential: &["plain", "prefixed", "peta_or_more"],
                workers: w,
                decode: None,
            }),
            Box::new(Gen::<DurCase> {
                name: "durations",
                rule: "pairs of Durations (small, up to 3 years, any u64 secs, unit multiples +-2 s, x special nanos): FormattedDuration reference, HumanDuration rule, monotonicity of the pair; non-trivial = a unit above seconds is involved",
                strategy: |_| {
                    (dur_strategy(), dur_strategy())
                        .prop_map(|(a, b)| DurCase { a_secs: a.0, a_nanos: a.1, b_secs: b.0, b_nanos: b.1 })
                        .boxed()
                },
                cases: |t| t.pick(60_000, 1_500_000),
                run: run_dur,
                signature: no_signature,
                essential: &["two_units", "above_seconds", "days"],
                workers: w,
                decode: Some(|u| DurCase { a_secs: u.u64() >> u.n(63), a_nanos: u.u32() % 1_000_000_000, b_secs: u.u64() >> u.n(63), b_nanos: u.u32() % 1_000_000_000 }),
            }),
            Box::new(Gen::<TeardownCase> {
                name: "thread_exit",
                rule: "all wrappers formatted from the destructor of a thread-local value while its thread ends (after the wrappers were used in that thread, so that anything they keep per thread is destroyed first): no panic, same text as in a running thread; non-trivial = the wrappers were used in the thread before",
                strategy: |_| (any::<u64>(), any::<u64>(), 0u64..400_000_000, proptest::bool::weighted(0.8)).prop_map(|(n, fbits, secs, warm)| TeardownCase { n, fbits, secs, warm }).boxed(),
                cases: |t| t.pick(100, 5_000),
                run: run_teardown,
                signature: no_signature,
                essential: &["wrappers_used_in_the_thread_before_it_ended"],
                workers: w,
                decode: None,
            }),
            Box::new(Enumerated {
                name: "boundaries",
                rule: "exhaustive: every n*unit and n*unit+unit/2 for n in 0..=120, and every 1.5-unit switch point, each +-{0,1ns,1us,1ms,1s}, plus 0 and Duration::MAX; sorted, checked against the rule and for monotonicity along the whole list",
                run: run_boundaries,
                replay: replay_boundary,
            }),
        ],
    }
}
