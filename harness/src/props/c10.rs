//! C10 Template parsing is total and preserves literal text.
use indicatif::{ProgressState, ProgressStyle};
use proptest::prelude::*;
use serde::{Deserialize, Serialize};

use crate::ensure;
use crate::model::{self, Align, PadExpect};
use crate::render::{render, BarSetup, RenderErr};
use crate::runner::*;

/// custom keys registered by the harness and their fixed expansions
pub const CUSTOM: [(&str, &str); 7] = [
    ("k", "V"),
    ("kk", "hello world"),
    ("key_1", ""),
    ("x.y", "0123456789"),
    ("ключ", "ok"),
    // fewer columns than bytes / more columns than characters (SGR content is C12's subject)
    ("acc", "\u{e9}\u{e9}"),
    ("cjk", "\u{4e16}\u{754c}x"),
];
/// built-ins whose output does not depend on time: (key, expansion for the BarSetup default)
pub const BUILTIN: [(&str, &str); 4] = [("msg", "Msg"), ("prefix", "Pre"), ("pos", "7"), ("len", "42")];

pub const DOCUMENTED: [&str; 30] = [
    "bar", "wide_bar", "spinner", "prefix", "msg", "wide_msg", "pos", "human_pos", "len", "human_len",
    "percent", "percent_precise", "bytes", "total_bytes", "decimal_bytes", "decimal_total_bytes",
    "binary_bytes", "binary_total_bytes", "elapsed_precise", "elapsed", "per_sec", "bytes_per_sec",
    "decimal_bytes_per_sec", "binary_bytes_per_sec", "eta_precise", "eta", "duration_precise", "duration",
    "", "",
];

#[derive(Debug, Clone, Serialize, Deserialize, PartialEq)]
pub enum KeyRef {
    Custom(usize),
    Builtin(usize),
    Unknown(String),
}

#[derive(Debug, Clone, Serialize, Deserialize, PartialEq)]
pub struct Spec {
    pub align: Option<Align>,
    pub width: Option<u32>,
    pub truncate: bool,
    pub style: Option<String>,
    pub alt: Option<String>,
    /// leading zeros written in front of the width (`{msg:0006}` is the width 6)
    #[serde(default)]
    pub zeros: u8,
}

#[derive(Debug, Clone, Serialize, Deserialize, PartialEq)]
pub enum TPart {
    Lit(String),
    /// `{` followed by this whitespace character, standing for itself
    BraceWs(char),
    NewLine,
    Ph { key: KeyRef, spec: Option<Spec> },
    /// `{wide_msg}`: the message, cut or padded so that the line fills the terminal (at most one per line)
    WideMsg,
    /// `{wide_msg:>}`: the same, right-aligned in what the rest of its line leaves
    WideMsgRight,
}

/// marks the reference entry of a `{wide_msg}` part (handled by `matches`)
const WIDE: &str = "\u{0}wide_msg";
const WIDE_R: &str = "\u{0}wide_msg_right";

#[derive(Debug, Clone, Serialize, Deserialize)]
pub struct FidCase {
    pub parts: Vec<TPart>,
    /// Some(w): the bar has tab width w and the template reaches it through
    /// `pb.style().template(..)` + `set_style` instead of `with_template`
    #[serde(default)]
    pub via_bar_style: Option<u8>,
    /// a custom key is registered under the name `wide_msg`: like any custom key it takes the place of the
    /// built-in one (its output, no filling)
    #[serde(default)]
    pub shadow_wide: bool,
}

pub fn key_name(k: &KeyRef) -> String {
    match k {
        KeyRef::Custom(i) => CUSTOM[*i % CUSTOM.len()].0.to_string(),
        KeyRef::Builtin(i) => BUILTIN[*i % BUILTIN.len()].0.to_string(),
        KeyRef::Unknown(s) => s.clone(),
    }
}

fn key_expansion(k: &KeyRef) -> String {
    match k {
        KeyRef::Custom(i) => CUSTOM[*i % CUSTOM.len()].1.to_string(),
        KeyRef::Builtin(i) => BUILTIN[*i % BUILTIN.len()].1.to_string(),
        KeyRef::Unknown(_) => String::new(),
    }
}

pub fn encode(parts: &[TPart]) -> String {
    let mut t = String::new();
    for p in parts {
        match p {
            TPart::Lit(s) => {
                for c in s.chars() {
                    match c {
                        '{' => t.push_str("{{"),
                        '}' => t.push_str("}}"),
                        c => t.push(c),
                    }
                }
            }
            TPart::BraceWs(c) => {
                t.push('{');
                t.push(*c);
            }
            TPart::NewLine => t.push('\n'),
            TPart::WideMsg => t.push_str("{wide_msg}"),
            TPart::WideMsgRight => t.push_str("{wide_msg:>}"),
            TPart::Ph { key, spec } => {
                t.push('{');
                t.push_str(&key_name(key));
                if let Some(s) = spec {
                    t.push(':');
                    if let Some(a) = s.align {
                        t.push_str(a.flag());
                    }
                    if let Some(w) = s.width {
                        t.push_str(&"0".repeat(s.zeros as usize));
                        t.push_str(&w.to_string());
                    }
                    if s.truncate {
                        t.push('!');
                    }
                    if let Some(st) = &s.style {
                        t.push('.');
                        t.push_str(st);
                        if let Some(a) = &s.alt {
                            t.push('/');
                            t.push_str(a);
                        }
                    }
                }
                t.push('}');
            }
        }
    }
    t
}

pub fn with_custom_keys(mut style: ProgressStyle) -> ProgressStyle {
    for (k, v) in CUSTOM {
        style = style.with_key(k, move |_: &ProgressState, w: &mut dyn std::fmt::Write| {
            let _ = w.write_str(v);
        });
    }
    style
}

/// acceptable renderings of each part, in order
fn reference(parts: &[TPart], tab_width: usize) -> Vec<Vec<String>> {
    parts
        .iter()
        .map(|p| match p {
            TPart::Lit(s) => vec![model::expand_tabs(s, tab_width)],
            TPart::BraceWs(c) => vec![model::expand_tabs(&format!("{{{c}"), tab_width)],
            TPart::NewLine => vec!["\n".to_string()],
            TPart::WideMsg => vec![WIDE.to_string()],
            TPart::WideMsgRight => vec![WIDE_R.to_string()],
            TPart::Ph { key, spec } => {
                let e = key_expansion(key);
                match spec.as_ref().and_then(|s| s.width.map(|w| (s, w))) {
                    None => vec![e],
                    Some((s, w)) => match model::pad_ref(&e, w as usize, s.align.unwrap_or(Align::Left), s.truncate) {
                        PadExpect::Exact(v) => v,
                        PadExpect::Truncated { visible } => visible,
                    },
                }
            }
        })
        .collect()
}

fn matches(alts: &[Vec<String>], got: &str) -> bool {
    match alts.split_first() {
        None => got.is_empty(),
        Some((first, rest)) if first.len() == 1 && first[0] == WIDE => {
            // a prefix of the message followed by padding; how much is decided by the rest of the line
            let msg = BarSetup::default().msg;
            let cuts: Vec<usize> = msg.char_indices().map(|(i, _)| i).chain([msg.len()]).collect();
            for cut in cuts.into_iter().rev() {
                if let Some(tail) = got.strip_prefix(&msg[..cut]) {
                    let spaces = tail.len() - tail.trim_start_matches(' ').len();
                    for k in (0..=spaces).rev() {
                        if matches(rest, &tail[k..]) {
                            return true;
                        }
                    }
                }
            }
            false
        }
        Some((first, rest)) if first.len() == 1 && first[0] == WIDE_R => {
            // padding followed by the message
            let msg = BarSetup::default().msg;
            let spaces = got.len() - got.trim_start_matches(' ').len();
            // (where the rest of the line leaves fewer columns than the message has, a part of it is shown)
            let mut pieces: Vec<&str> = vec![];
            for i in 0..=msg.len() {
                for j in i..=msg.len() {
                    if msg.is_char_boundary(i) && msg.is_char_boundary(j) && (i == 0 && j == msg.len() || j - i < msg.len()) {
                        pieces.push(&msg[i..j]);
                    }
                }
            }
            (0..=spaces).rev().any(|k| pieces.iter().any(|p| (p.len() == msg.len() || k == 0) && got[k..].strip_prefix(p).map_or(false, |tail| matches(rest, tail))))
        }
        Some((first, rest)) => {
            let mut seen: Vec<&String> = vec![];
            for a in first {
                if seen.contains(&a) {
                    continue;
                }
                seen.push(a);
                if let Some(tail) = got.strip_prefix(a.as_str()) {
                    if matches(rest, tail) {
                        return true;
                    }
                }
            }
            false
        }
    }
}

/// at most one `{wide_msg}` per template line (a second one on a line is dropped)
fn normalise(parts: &[TPart]) -> Vec<TPart> {
    let mut out = vec![];
    let mut wide_on_line = false;
    for p in parts {
        match p {
            TPart::NewLine => wide_on_line = false,
            TPart::WideMsg | TPart::WideMsgRight if wide_on_line => continue,
            TPart::WideMsg | TPart::WideMsgRight => wide_on_line = true,
            _ => {}
        }
        out.push(p.clone());
    }
    out
}

fn run_fidelity(c0: &FidCase) -> CaseResult {
    let c = &FidCase { parts: normalise(&c0.parts), via_bar_style: c0.via_bar_style, shadow_wide: c0.shadow_wide };
    let template = encode(&c.parts);
    let max_width = c
        .parts
        .iter()
        .filter_map(|p| match p {
            TPart::Ph { spec: Some(s), .. } => s.width,
            _ => None,
        })
        .max()
        .unwrap_or(0);
    let parsed = catch(|| ProgressStyle::with_template(&template))
        .map_err(|p| Fail::new("parse_panic", format!("with_template({template:?}) panicked: {p}")))?;
    let mut v = Verdict::default();
    let style = match parsed {
        Ok(s) => s,
        Err(e) => {
            ensure!(
                max_width > u16::MAX as u32,
                "rejected",
                "with_template({template:?}) rejected a well-formed template: {e}"
            );
            v.label("width_beyond_u16_rejected");
            v.nontrivial = true;
            return Ok(v);
        }
    };
    let mut setup = BarSetup { cols: u16::MAX, rows: u16::MAX, ..Default::default() };
    let style = match c.via_bar_style {
        Some(w) => {
            setup.tab_width = Some(w as usize % 17);
            setup.retemplate = Some(template.clone());
            drop(style);
            ProgressStyle::with_template("placeholder").unwrap()
        }
        None => style,
    };
    let tab_width = setup.tab_width.unwrap_or(8);
    let style = if c.shadow_wide {
        style.with_key("wide_msg", |_: &ProgressState, w: &mut dyn std::fmt::Write| {
            let _ = w.write_str("SHADOW");
        })
    } else {
        style
    };
    let lines = match render(with_custom_keys(style), &setup) {
        Ok(l) => l,
        Err(RenderErr::Panic(p)) => return Err(Fail::new("render_panic", format!("rendering {template:?} panicked: {p}"))),
        Err(RenderErr::Pattern(p)) => return Err(Fail::new("harness", format!("rendering {template:?}: {p}"))),
    };
    let mut alts = reference(&c.parts, tab_width);
    if c.shadow_wide {
        for a in &mut alts {
            if a[0] == WIDE || a[0] == WIDE_R {
                *a = vec!["SHADOW".to_string()];
            }
        }
    }
    let first: String = alts.iter().map(|a| if a[0] == WIDE || a[0] == WIDE_R { "Msg" } else { a[0].as_str() }).collect();
    // `lines()` convention: a final newline does not start another line
    let want_lines = if first.is_empty() { 0 } else { first.strip_suffix('\n').unwrap_or(&first).matches('\n').count() + 1 };
    // "{" + line break at the very end of a template: whether the empty rest counts as a line is not stated
    let mut lines = lines;
    let brace_nl = c.parts.iter().any(|p| matches!(p, TPart::BraceWs('\n')));
    if brace_nl && lines.len() == want_lines + 1 && lines.last().map_or(false, |l| l.is_empty()) {
        lines.pop();
    }
    // the joined lines, with the final newline (which does not start another line) put back
    let mut got = lines.join("\n");
    if first.ends_with('\n') {
        got.push('\n');
    }
    let kind = if c.parts.windows(2).any(|w| matches!((&w[0], &w[1]), (TPart::Lit(s), TPart::BraceWs(_)) if !s.is_empty())) {
        "fidelity_brace_ws_after_literal"
    } else {
        "fidelity"
    };
    ensure!(
        lines.len() == want_lines && matches(&alts, &got),
        kind,
        "template {template:?} rendered {lines:?}, expected {:?}",
        if want_lines == 0 { vec![] } else { first.strip_suffix('\n').unwrap_or(&first).split('\n').collect::<Vec<_>>() }
    );
    // a line with {wide_msg} fills the terminal exactly, unless the rest alone is wider
    let has_wide = !c.shadow_wide && c.parts.iter().any(|p| matches!(p, TPart::WideMsg | TPart::WideMsgRight));
    v.label_if(c.shadow_wide && c.parts.iter().any(|p| matches!(p, TPart::WideMsg | TPart::WideMsgRight)), "custom_key_named_wide_msg");
    // (only where template lines and output lines coincide: no line break inside a literal or an expansion)
    if has_wide && !brace_nl && !c.parts.iter().any(|p| matches!(p, TPart::Ph { key, .. } if key_expansion(key).contains('\n'))) {
        let mut line = 0;
        let mut rest_width = vec![0usize; want_lines.max(1)];
        let mut wide_line = vec![false; want_lines.max(1)];
        // columns that follow the wide element on its line: padding at the very end of a line is not required
        let mut after_wide = vec![0usize; want_lines.max(1)];
        for (p, a) in c.parts.iter().zip(alts.iter()) {
            match p {
                TPart::NewLine => line += 1,
                TPart::WideMsg | TPart::WideMsgRight => wide_line[line.min(want_lines.saturating_sub(1))] = true,
                _ => {
                    let i = line.min(want_lines.saturating_sub(1));
                    let w = console::measure_text_width(&a[0]);
                    rest_width[i] += w;
                    if wide_line[i] {
                        after_wide[i] += a[0].trim_end_matches(' ').chars().count().min(1) * w;
                    }
                }
            }
        }
        for (i, l) in lines.iter().enumerate() {
            if wide_line.get(i).copied().unwrap_or(false) && after_wide[i] > 0 {
                let w = console::measure_text_width(l);
                let want_w = rest_width[i].max(setup.cols as usize);
                // a truncated alternative may be one column narrower where a double-width character straddles the cut
                ensure!(w == want_w || (w + 8 >= want_w && w <= want_w && rest_width[i] > 0), "wide_msg_fill", "template {template:?}: line {i} with {{wide_msg}} is {w} columns wide on a {}-column terminal (the rest of the line takes {})", setup.cols, rest_width[i]);
            }
        }
    }
    let nph = c.parts.iter().filter(|p| matches!(p, TPart::Ph { .. })).count();
    let brace_adjacent = c.parts.windows(2).any(|w| {
        matches!((&w[0], &w[1]), (TPart::Lit(s), TPart::BraceWs(_)) if !s.is_empty())
            || matches!((&w[0], &w[1]), (TPart::BraceWs(_), TPart::Lit(s)) if !s.is_empty())
    });
    let multiline = want_lines >= 2;
    v.nontrivial = nph >= 2 || brace_adjacent || multiline;
    v.label_if(nph >= 2, "two_placeholders");
    v.label_if(brace_adjacent, "brace_ws_adjacent_to_literal");
    v.label_if(multiline, "multi_line");
    v.label_if(has_wide, "wide_msg");
    v.label_if(c.via_bar_style.is_some(), "template_set_through_the_bars_own_style");
    v.label_if(has_wide && multiline, "wide_msg_in_multi_line_template");
    v.label_if(c.parts.iter().any(|p| matches!(p, TPart::BraceWs('\n'))), "brace_followed_by_line_break");
    v.label_if(c.parts.iter().any(|p| matches!(p, TPart::Lit(s) if s.contains('{') || s.contains('}'))), "escaped_braces");
    v.label_if(c.parts.iter().any(|p| matches!(p, TPart::Ph { key: KeyRef::Unknown(_), .. })), "unknown_key");
    v.label_if(c.parts.iter().any(|p| matches!(p, TPart::Ph { spec: Some(Spec { width: Some(_), .. }), .. })), "width");
    v.label_if(c.parts.iter().any(|p| matches!(p, TPart::Ph { spec: Some(Spec { truncate: true, width: Some(_), .. }), .. })), "truncate");
    v.label_if(c.parts.iter().any(|p| matches!(p, TPart::Ph { spec: Some(Spec { style: Some(_), .. }), .. })), "style");
    v.label_if(c.parts.iter().any(|p| matches!(p, TPart::Ph { spec: Some(Spec { width: Some(_), zeros, .. }), .. } if *zeros >= 4)), "width_written_with_leading_zeros");
    v.label_if(c.parts.iter().any(|p| matches!(p, TPart::WideMsgRight)), "wide_msg_right_aligned");
    v.label_if(max_width > 255, "width_gt_255");
    v.label_if(max_width > u16::MAX as u32, "width_beyond_u16_accepted");
    Ok(v)
}

fn lit_strategy() -> BoxedStrategy<String> {
    prop_oneof![
        4 => "[a-zA-Z0-9 .,:;/!<>^_\"'\\[\\]-]{1,8}",
        2 => "[{}]{1,3}",
        2 => "[a-z{}: \"]{1,8}",
        1 => "[ -~\u{e9}\u{4e16}\u{1F600}\t]{1,6}",
        1 => Just("{".to_string()),
        1 => Just("}".to_string()),
    ]
    .boxed()
}

fn key_strategy() -> BoxedStrategy<KeyRef> {
    prop_oneof![
        4 => (0..CUSTOM.len()).prop_map(KeyRef::Custom),
        2 => (0..BUILTIN.len()).prop_map(KeyRef::Builtin),
        2 => "[a-z_][a-z_0-9./!]{0,7}"
            .prop_filter("not a known key", |s| !DOCUMENTED.contains(&s.as_str()) && !CUSTOM.iter().any(|k| k.0 == s))
            .prop_map(KeyRef::Unknown),
        // near misses: a documented key with one of the affixes other documented keys carry
        2 => (0..DOCUMENTED.len(), 0..AFFIXES.len())
            .prop_map(|(k, a)| { let (pre, suf) = AFFIXES[a]; format!("{pre}{}{suf}", DOCUMENTED[k]) })
            .prop_filter("not a known key", |s| !DOCUMENTED.contains(&s.as_str()) && !CUSTOM.iter().any(|k| k.0 == s))
            .prop_map(KeyRef::Unknown),
        // key characters that are white space outside ASCII, or the vertical tab: ordinary key characters
        1 => ("[a-z]{0,3}", prop_oneof![Just('\u{a0}'), Just('\u{2003}'), Just('\u{3000}'), Just('\u{85}'), Just('\u{b}'), Just('\u{202f}')], "[a-z]{0,3}")
            .prop_map(|(a, c, b)| KeyRef::Unknown(format!("{a}{c}{b}"))),
    ]
    .boxed()
}

const AFFIXES: &[(&str, &str)] = &[
    ("", "_precise"), ("", "_bytes"), ("", "_per_sec"), ("", "s"), ("", "_"), ("", "2"), ("", "_msg"), ("", "_bar"),
    ("wide_", ""), ("binary_", ""), ("decimal_", ""), ("human_", ""), ("total_", ""), ("_", ""), ("per_", ""),
];

fn width_strategy() -> BoxedStrategy<u32> {
    prop_oneof![
        8 => 0u32..24,
        2 => 24u32..300,
        1 => prop_oneof![Just(255u32), Just(256), Just(257), Just(65534), Just(65535)],
        1 => 300u32..=65535,
        1 => prop_oneof![Just(65536u32), Just(65537), Just(70000), Just(99999), Just(4294967295)],
    ]
    .boxed()
}

fn spec_strategy() -> BoxedStrategy<Option<Spec>> {
    let style = proptest::option::weighted(0.3, "[a-z_]{1,6}(\\.[a-z_0-9]{1,6}){0,2}");
    let alt = proptest::option::weighted(0.4, "[a-z_]{1,6}");
    let spec = (
        proptest::option::weighted(0.6, prop_oneof![Just(Align::Left), Just(Align::Center), Just(Align::Right)]),
        proptest::option::weighted(0.8, width_strategy()),
        any::<bool>(),
        style,
        alt,
    )
        .prop_map(|(align, width, truncate, style, alt)| Spec { align, width, truncate, alt: if style.is_some() { alt } else { None }, style, zeros: 0 });
    let spec = (spec, prop_oneof![6 => Just(0u8), 1 => 1u8..4, 1 => 4u8..12]).prop_map(|(s, zeros)| Spec { zeros, ..s });
    proptest::option::weighted(0.7, spec).boxed()
}

fn part_strategy() -> BoxedStrategy<TPart> {
    prop_oneof![
        4 => lit_strategy().prop_map(TPart::Lit),
        2 => prop_oneof![4 => Just(' '), 1 => Just('\t'), 1 => Just('\n')].prop_map(TPart::BraceWs),
        1 => Just(TPart::NewLine),
        1 => prop_oneof![Just(TPart::WideMsg), Just(TPart::WideMsgRight)],
        4 => (key_strategy(), spec_strategy()).prop_map(|(key, spec)| TPart::Ph { key, spec }),
    ]
    .boxed()
}

pub fn fid_strategy() -> BoxedStrategy<FidCase> {
    (proptest::collection::vec(part_strategy(), 0..9), proptest::option::weighted(0.2, 0u8..17), proptest::bool::weighted(0.15)).prop_map(|(parts, via_bar_style, shadow_wide)| FidCase { parts, via_bar_style, shadow_wide }).boxed()
}

// ------------------------------------------------------------------------------------------
// totality

#[derive(Debug, Clone, Serialize, Deserialize)]
pub struct TotCase {
    pub s: String,
}

fn run_totality(c: &TotCase) -> CaseResult {
    let a = catch(|| ProgressStyle::with_template(&c.s).is_ok())
        .map_err(|p| Fail::new("parse_panic", format!("with_template({:?}) panicked: {p}", c.s)))?;
    let b = catch(|| ProgressStyle::default_spinner().template(&c.s).is_ok())
        .map_err(|p| Fail::new("parse_panic", format!("template({:?}) panicked: {p}", c.s)))?;
    ensure!(a == b, "inconsistent", "with_template and template disagree on {:?}: {a} vs {b}", c.s);
    let mut v = Verdict::default();
    v.nontrivial = c.s.contains('{');
    v.label_if(a, "accepted");
    v.label_if(!a, "rejected");
    v.label_if(c.s.contains('{') && a, "accepted_with_brace");
    Ok(v)
}

fn tot_strategy() -> BoxedStrategy<TotCase> {
    let mutated = (fid_strategy(), proptest::collection::vec((any::<u16>(), 0u8..3, "[{}:./!<^>0-9a-z \n\t\u{e9}]"), 0..4)).prop_map(|(f, edits)| {
        let mut chars: Vec<char> = encode(&f.parts).chars().collect();
        for (pos, kind, s) in edits {
            let c = s.chars().next().unwrap_or('{');
            let i = if chars.is_empty() { 0 } else { (pos as usize * (chars.len() + 1)) >> 16 };
            match kind {
                0 if i < chars.len() => {
                    chars.remove(i);
                }
                1 => chars.insert(i.min(chars.len()), c),
                _ if i < chars.len() => chars[i] = c,
                _ => chars.push(c),
            }
        }
        chars.into_iter().collect::<String>()
    });
    prop_oneof![
        2 => any::<String>(),
        4 => "[{}:./!<^>0-9a-z \n\t]{0,24}",
        2 => "\\{[a-z]{0,3}:[<^>]?[0-9]{0,24}!?(\\.[a-z]{0,4}(/[a-z]{0,4})?)?\\}?",
        4 => mutated,
    ]
    .prop_map(|s| TotCase { s })
    .boxed()
}

fn decode_tot(u: &mut FuzzInput) -> TotCase {
    // raw bytes as text (lossy), or bytes mapped onto the template alphabet
    let n = u.n(64);
    if u.bool() {
        let bytes: Vec<u8> = (0..n).map(|_| u.u8()).collect();
        TotCase { s: String::from_utf8_lossy(&bytes).into_owned() }
    } else {
        const A: [char; 24] = ['{', '}', ':', '.', '/', '!', '<', '^', '>', '0', '1', '5', '6', '9', 'a', 'b', 'm', 's', 'g', ' ', '\n', '\t', '\u{e9}', '_'];
        TotCase { s: (0..n).map(|_| u.pick(&A)).collect() }
    }
}

fn decode_fid(u: &mut FuzzInput) -> FidCase {
    let mut parts = vec![];
    while !u.empty() && parts.len() < 10 {
        parts.push(match u.n(10) {
            0..=3 => TPart::Lit((0..=u.n(6)).map(|_| u.pick(&['a', 'Z', '0', ' ', ':', '.', '/', '!', '<', '{', '}', '"', '\t', '\u{e9}', '\u{4e16}'])).collect()),
            4 | 5 => TPart::BraceWs([' ', ' ', '\t', '\n'][u.n(3)]),
            6 => match u.n(3) { 0 => TPart::WideMsg, 1 => TPart::WideMsgRight, _ => TPart::NewLine },
            _ => {
                let key = match u.n(7) {
                    0..=3 => KeyRef::Custom(u.n(CUSTOM.len() - 1)),
                    4 | 5 => KeyRef::Builtin(u.n(BUILTIN.len() - 1)),
                    _ => KeyRef::Unknown(format!("u{}", (0..u.n(3)).map(|_| u.pick(&['x', 'y', '_', '.', '/', '7'])).collect::<String>())),
                };
                let spec = if u.n(9) < 3 {
                    None
                } else {
                    let style = if u.n(9) < 3 { Some(u.pick(&["red", "on_blue", "bold.dim", "nonsense", "x1.y2"]).to_string()) } else { None };
                    Some(Spec {
                        align: [None, Some(Align::Left), Some(Align::Center), Some(Align::Right)][u.n(3)],
                        width: if u.n(4) == 0 { None } else { Some(match u.n(11) { 0 => 255, 1 => 256, 2 => 65535, 3 => 65536, 4 => 70000, 5 => u.u32(), 6 => u.n(300) as u32, _ => u.n(23) as u32 }) },
                        truncate: u.bool(),
                        alt: if style.is_some() && u.bool() { Some("blue".into()) } else { None },
                        style,
                        zeros: [0u8, 0, 0, 1, 7][u.n(4)],
                    })
                };
                TPart::Ph { key, spec }
            }
        });
    }
    let via_bar_style = if parts.len() % 4 == 3 { Some(parts.len() as u8 * 3 % 17) } else { None };
    FidCase { parts, via_bar_style, shadow_wide: false }
}

pub fn property() -> Property {
    let w = default_workers();
    Property {
        id: "C10",
        level: "exploration",
        assumptions: &[
            "fidelity literals contain no C0 control characters except TAB (expanded to 8 spaces by default)",
            "a template's lines follow the str::lines() convention (a final newline does not start another line)",
            "unknown key with a width renders the padding of an empty field",
            "centre alignment may put the odd column on either side",
        ],
        parts: vec![
            Box::new(Gen::<TotCase> {
                name: "totality",
                rule: "arbitrary Unicode strings, strings over the template alphabet, placeholder-shaped strings with long digit runs, and grammar-generated templates with 0-3 random character edits -> with_template and template must return Ok/Err and agree; non-trivial = contains '{'",
                strategy: |_| tot_strategy(),
                cases: |t| t.pick(30_000, 1_500_000),
                run: run_totality,
                signature: no_signature,
                essential: &["accepted", "rejected", "accepted_with_brace"],
                workers: w,
                decode: Some(decode_tot),
            }),
            Box::new(Gen::<FidCase> {
                name: "fidelity",
                rule: "templates generated from the documented grammar (literals with doubled braces, '{'+whitespace, newlines, placeholders {key[:[<^>][width][!][.style[/style]]]} over custom, built-in and unknown keys, widths 0..2^32) rendered on a 65535-column terminal and compared with the in-order concatenation of reference expansions; non-trivial = >=2 placeholders, '{ ' adjacent to literal text, or multi-line",
                strategy: |_| fid_strategy(),
                cases: |t| t.pick(12_000, 1_600_000),
                run: run_fidelity,
                signature: no_signature,
                essential: &["two_placeholders", "brace_ws_adjacent_to_literal", "multi_line", "escaped_braces", "unknown_key", "width", "truncate", "style", "width_gt_255", "width_written_with_leading_zeros", "wide_msg_right_aligned", "custom_key_named_wide_msg"],
                workers: w,
                decode: Some(decode_fid),
            }),
        ],
    }
}
