//! C13 Progress-bar geometry.
use crate::ensure;
use std::collections::BTreeMap;
use std::sync::atomic::{AtomicU32, Ordering};
use std::sync::Arc;

use indicatif::{ProgressBar, ProgressDrawTarget, ProgressState, ProgressStyle};
use proptest::prelude::*;
use rayon::prelude::*;
use serde::{Deserialize, Serialize};
use serde_json::{json, Value};

use crate::runner::*;
use crate::vterm::VTerm;

/// pools of distinct clusters (one `char` each, as the default feature set segments by char)
const NARROW: [char; 12] = ['#', '>', '-', '=', '+', '.', '█', '▉', '▊', '▋', '░', 'x'];
const WIDE: [char; 10] = ['世', '界', '中', '文', '字', '日', '本', '語', '한', '국'];

#[derive(Debug, Clone, Serialize, Deserialize)]
pub struct GeoCase {
    /// characters of the set, all of the same width
    chars: String,
    width: u32,
    len: Option<u64>,
    pos: u64,
    /// Some(terminal width, left literal, right literal) = wide_bar
    wide: Option<(u16, String, String)>,
    /// wide_bar only: literal template lines above / below the line that holds the bar
    #[serde(default)]
    extra: (Option<String>, Option<String>),
    /// wide_bar only: the bar is a member of a MultiProgress / the terminal had this other width when the
    /// previous frame was drawn (the frame under test must fit the width the terminal reports now)
    #[serde(default)]
    in_multi: bool,
    #[serde(default)]
    resized_from: Option<u16>,
    /// `{bar}` without a width in the template: 20 columns
    #[serde(default)]
    default_width: bool,
    /// how the style came about: 0 with_template(t).progress_chars(c); 1 default_bar().progress_chars(c).template(t);
    /// 2 progress_chars(c) installed on the bar first, then pb.set_style(pb.style().template(t))
    #[serde(default)]
    order: u8,
    /// the bar is finished when the frame is drawn: 0 abandon() after the position was set;
    /// 1 finish() first, then length and position are set; 2 abandon_with_message()
    #[serde(default)]
    end: Option<u8>,
    /// wide_bar only: the bar's tab width is `.0` while a first frame is drawn and `.1` for the frame under
    /// test (TABs in the literals around the bar are expanded at the width in force)
    #[serde(default)]
    retab: Option<(u8, u8)>,
    /// wide_bar only: the template line above the bar's line is `{wide_msg}` (its own wide element), not a literal
    #[serde(default)]
    msg_line_above: bool,
    /// wide_bar only: the bar's line starts with `{prefix} ` and the prefix is text wrapped in colour escape
    /// sequences by the caller (zero columns; the harness runs with template colours switched off)
    #[serde(default)]
    sgr_prefix: bool,
    /// wide_bar with resized_from: the frame under test is the one that println() repaints below its log line
    /// (the first thing drawn after the terminal changed its width)
    #[serde(default)]
    via_println: bool,
    /// {bar:W} only: the terminal has this many columns (a fixed-width bar keeps its W columns however
    /// narrow the terminal is; the line simply wraps)
    #[serde(default)]
    narrow_term: Option<u16>,
}

struct Parsed {
    filled: usize,
    partial: Option<String>,
    bg: usize,
}

/// the progress characters / the cells of a rendered bar as the crate segments them: grapheme clusters
/// when it is built with `improved_unicode`, single code points otherwise
fn cells_of(s: &str) -> Vec<String> {
    #[cfg(feature = "improved_unicode")]
    {
        unicode_segmentation::UnicodeSegmentation::graphemes(s, true).map(String::from).collect()
    }
    #[cfg(not(feature = "improved_unicode"))]
    {
        s.chars().map(String::from).collect()
    }
}

fn cell_width(c: &str) -> usize {
    unicode_width::UnicodeWidthStr::width(c).max(1)
}

fn parse_bar(bar: &str, chars: &[String]) -> Result<Parsed, String> {
    let n = chars.len();
    let cs: Vec<String> = cells_of(bar);
    let mut i = 0;
    while i < cs.len() && cs[i] == chars[0] {
        i += 1;
    }
    let filled = i;
    let mut partial = None;
    if n >= 3 && i < cs.len() && chars[1..n - 1].contains(&cs[i]) {
        partial = Some(cs[i].clone());
        i += 1;
    }
    let mut bg = 0;
    while i < cs.len() && cs[i] == chars[n - 1] {
        i += 1;
        bg += 1;
    }
    if i != cs.len() {
        return Err(format!("bar {bar:?} is not <filled*><at most one partial><background*> over {chars:?} (stopped at cell {i})"));
    }
    Ok(Parsed { filled, partial, bg })
}

/// All geometry laws for one rendered bar. `fraction` is the library's own `ProgressState::fraction()`.
fn check_bar(bar: &str, chars: &[String], cwidth: usize, n_cols: usize, len: Option<u64>, pos: u64, fraction: f32) -> Result<(usize, usize, bool), Fail> {
    let p = parse_bar(bar, chars).map_err(|m| Fail::new("shape", m))?;
    let cells = n_cols / cwidth;
    let n = chars.len();
    let total = p.filled + usize::from(p.partial.is_some()) + p.bg;
    if total != cells {
        return Err(Fail::new("cells", format!("bar {bar:?} has {total} cells, expected floor({n_cols}/{cwidth}) = {cells}")));
    }
    if !(0.0..=1.0).contains(&fraction) {
        return Err(Fail::new("fraction", format!("fraction() = {fraction} outside [0,1]")));
    }
    // filled == floor(fraction * cells), one f32 ulp of the product tolerated
    let prod = fraction as f64 * cells as f64;
    let eps = prod.abs() * 2f64.powi(-23) + 1e-12;
    let lo = (prod - eps).floor().max(0.0) as usize;
    let hi = ((prod + eps).floor() as usize).min(cells);
    // with two characters the partial cell is drawn with the background character: it parses as background
    if p.filled < lo || p.filled > hi {
        return Err(Fail::new("filled", format!("bar {bar:?}: {} filled cells, expected floor({fraction} * {cells}) = {lo}..={hi} (pos {pos}, len {len:?})", p.filled)));
    }
    if let Some(l) = len.filter(|l| *l <= 1 << 24) {
        let want = if l == 0 || pos >= l { 1.0 } else if pos == 0 { 0.0 } else { fraction };
        if fraction != want || (pos > 0 && pos < l && !(fraction > 0.0 && fraction < 1.0)) {
            return Err(Fail::new("fraction_exact", format!("fraction() = {fraction} for pos {pos}, len {l}: must be 0 at 0, 1 at pos >= len and strictly between otherwise")));
        }
    }
    // (for pos < len <= 2^24 the f32 quotient is at most 1 - 2^-24 and its product with any cell count
    // rounds below the cell count, so 'full only when pos >= len' is exact up to 2^24 as the statement says)
    let small = len.map_or(true, |l| l <= 1 << 24);
    let full = match len {
        Some(l) => pos >= l,
        None => false,
    };
    let empty = len.is_none() || (pos == 0 && len != Some(0));
    if empty {
        if p.filled != 0 || p.partial.is_some() {
            return Err(Fail::new("empty", format!("bar {bar:?} must be empty at pos {pos} len {len:?}")));
        }
    } else if full {
        if p.filled != cells || p.partial.is_some() {
            return Err(Fail::new("full", format!("bar {bar:?} must be full at pos {pos} >= len {len:?}")));
        }
    } else if small {
        // neither empty nor full: not all cells filled, exactly one partial cell (when there is a cell)
        if cells > 0 && p.filled >= cells {
            return Err(Fail::new("full_early", format!("bar {bar:?} is full although pos {pos} < len {len:?}")));
        }
        if n >= 3 && cells > 0 && p.partial.is_none() {
            return Err(Fail::new("partial_missing", format!("bar {bar:?} has no partial cell although it is neither empty nor full (pos {pos}, len {len:?})")));
        }
    }
    if let Some(pc) = &p.partial {
        if !chars[1..n - 1].contains(pc) {
            return Err(Fail::new("partial_char", format!("partial cell {pc:?} is not one of the configured characters")));
        }
    }
    Ok((p.filled, cells, p.partial.is_some()))
}

/// `{bar:N}` is a field of width N: the bar's floor(N/c) cells are followed by N mod c padding columns.
fn strip_field_pad(bar: &str, n_cols: usize, cwidth: usize) -> Result<&str, Fail> {
    let pad = n_cols % cwidth;
    let stripped = bar.strip_suffix(&" ".repeat(pad)).ok_or_else(|| Fail::new("field_pad", format!("{{bar:{n_cols}}} rendered {bar:?}: expected {pad} padding column(s) after the cells")))?;
    if console::measure_text_width(bar) != n_cols {
        return Err(Fail::new("field_pad", format!("{{bar:{n_cols}}} rendered {bar:?}: {} columns instead of {n_cols}", console::measure_text_width(bar))));
    }
    Ok(stripped)
}

fn frac_key(slot: Arc<AtomicU32>) -> impl Fn(&ProgressState, &mut dyn std::fmt::Write) + Send + Sync + Clone + 'static {
    move |s: &ProgressState, _w: &mut dyn std::fmt::Write| {
        slot.store(s.fraction().to_bits(), Ordering::SeqCst);
    }
}

struct Rig {
    pb: ProgressBar,
    _mp: Option<indicatif::MultiProgress>,
    vt: VTerm,
    frac: Arc<AtomicU32>,
    /// lines the template yields and which of them holds the bar
    nlines: usize,
    bar_line: usize,
}

fn rig(chars: &str, template: &str, cols: u16) -> Result<Rig, String> {
    rig_in(chars, template, cols, false, 0)
}

fn rig_in(chars: &str, template: &str, cols: u16, in_multi: bool, order: u8) -> Result<Rig, String> {
    let frac = Arc::new(AtomicU32::new(0));
    let f2 = frac.clone();
    let chars = chars.to_string();
    let template = template.to_string();
    let vt = VTerm::raw(500, cols as usize);
    let vt2 = vt.clone();
    let pb = catch(move || {
        let style = match order % 4 {
            // (the characters are set twice: first a set of the other column width, then the real one)
            3 => {
                let other = if unicode_width::UnicodeWidthStr::width(chars.as_str()) == chars.chars().count() { "\u{4e16}\u{754c}\u{ff0d}" } else { "#>-" };
                ProgressStyle::with_template(&template).expect("template").progress_chars(other).progress_chars(&chars)
            }
            0 => ProgressStyle::with_template(&template).expect("template").progress_chars(&chars),
            _ => ProgressStyle::default_bar().progress_chars(&chars).template(if order % 4 == 1 { &template } else { "{pos}" }).expect("template"),
        }
        .with_key("frac", frac_key(f2));
        let (pb, mp) = if in_multi {
            let mp = indicatif::MultiProgress::with_draw_target(ProgressDrawTarget::term_like(vt2.boxed()));
            (mp.add(ProgressBar::new(1)), Some(mp))
        } else {
            (ProgressBar::with_draw_target(Some(1), ProgressDrawTarget::term_like(vt2.boxed())), None)
        };
        pb.set_style(style);
        if order % 4 == 2 {
            pb.set_style(pb.style().template(&template).expect("template"));
        }
        (pb, mp)
    })?;
    let (pb, mp) = pb;
    Ok(Rig { pb, _mp: mp, vt, frac, nlines: 1, bar_line: 0 })
}

impl Rig {
    /// set (len, pos), draw, return (line, fraction)
    fn draw(&self, len: Option<u64>, pos: u64) -> Result<(String, f32), String> {
        self.draw_end(len, pos, None)
    }

    fn draw_end(&self, len: Option<u64>, pos: u64, end: Option<u8>) -> Result<(String, f32), String> {
        let pb = &self.pb;
        catch(|| {
            if end.map(|e| e % 3) == Some(1) {
                pb.finish();
            }
            match len {
                Some(l) => pb.update(|s| {
                    s.set_len(l);
                    s.set_pos(pos);
                }),
                None => {
                    pb.unset_length();
                    pb.update(|s| s.set_pos(pos));
                }
            };
            match end.map(|e| e % 3) {
                Some(0) => pb.abandon(),
                Some(2) => pb.abandon_with_message("stopped"),
                _ => {}
            }
        })?;
        let lines = self.vt.last_frame_lines()?;
        if lines.len() != self.nlines {
            return Err(format!("expected {} line(s), got {lines:?}", self.nlines));
        }
        Ok((lines[self.bar_line].clone(), f32::from_bits(self.frac.load(Ordering::SeqCst))))
    }
}

fn run_geo(c: &GeoCase) -> CaseResult {
    let chars: Vec<String> = cells_of(&c.chars);
    let cwidth = cell_width(&chars[0]);
    let mut v = Verdict::default();
    match &c.wide {
        None => {
            let template = if c.default_width { "{bar}|{frac}".to_string() } else { format!("{{bar:{}}}|{{frac}}", c.width) };
            let c = &GeoCase { width: if c.default_width { 20 } else { c.width }, ..c.clone() };
            v.label_if(c.default_width, "bar_without_a_width");
            let term = c.narrow_term.map_or(u16::MAX, |t| t.max(1));
            v.label_if((term as u32) < c.width, "fixed_width_bar_wider_than_the_terminal");
            let r = rig_in(&c.chars, &template, term, false, c.order).map_err(|p| Fail::new("panic", format!("building {template:?} chars {:?} panicked: {p}", c.chars)))?;
            let (line, frac) = r.draw_end(c.len, c.pos, c.end).map_err(|p| Fail::new("panic", format!("drawing {template:?} chars {:?} len {:?} pos {}: {p}", c.chars, c.len, c.pos)))?;
            let bar = line.strip_suffix('|').ok_or_else(|| Fail::new("shape", format!("line {line:?} lost its literal")))?;
            let bar = strip_field_pad(bar, c.width as usize, cwidth)?;
            let (filled, cells, _) = check_bar(bar, &chars, cwidth, c.width as usize, c.len, c.pos, frac)?;
            v.nontrivial = cells >= 2 && c.len.map_or(false, |l| c.pos > 0 && c.pos < l);
            v.label_if(v.nontrivial, "partial_progress");
            v.label_if(filled == cells && cells > 0, "full");
            v.label_if(cwidth == 2, "double_width_cells");
            v.label_if(c.len.map_or(false, |l| l > 1 << 32), "huge_len");
            v.label_if(chars.len() == 2, "two_chars");
            v.label_if(chars.last().map_or(false, |c| c.chars().all(char::is_whitespace)), "blank_background_glyph");
        }
        Some((term, left, right)) => {
            let lead = if c.sgr_prefix { "{prefix} " } else { "" };
            let mut template = format!("{lead}{left}{{wide_bar}}{right}{{frac}}");
            let (mut nlines, mut bar_line) = (1, 0);
            if c.msg_line_above {
                template = format!("{{wide_msg}}\n{template}");
                nlines += 1;
                bar_line = 1;
                v.label("wide_msg_line_above_the_wide_bar_line");
            } else if let Some(a) = &c.extra.0 {
                template = format!("{a}\n{template}");
                nlines += 1;
                bar_line = 1;
            }
            if let Some(b) = &c.extra.1 {
                // (a final empty template line yields no output line)
                if !b.is_empty() {
                    template = format!("{template}\n{b}");
                    nlines += 1;
                }
            }
            let mut r = rig_in(&c.chars, &template, *term, c.in_multi, c.order).map_err(|p| Fail::new("panic", format!("building {template:?} panicked: {p}")))?;
            r.nlines = nlines;
            r.bar_line = bar_line;
            if let Some(w0) = c.resized_from {
                // a frame at the old width first, then the terminal is resized
                r.vt.lock().report_cols = Some(w0.max(1));
                let _ = r.draw(Some(7), 3);
                r.vt.lock().report_cols = Some(*term);
                v.label("terminal_resized_between_frames");
            }
            v.label_if(c.in_multi, "wide_bar_inside_multi_progress");
            v.label_if(chars.last().map_or(false, |c| c.chars().all(char::is_whitespace)), "blank_background_glyph");
            v.label_if(nlines > 1, "wide_bar_in_multi_line_template");
            if c.sgr_prefix {
                r.pb.set_prefix("\u{1b}[31mjob\u{1b}[0m");
                v.label("caller_coloured_text_on_the_wide_bar_line");
            }
            if c.msg_line_above {
                r.pb.set_message("copying");
            }
            let tabbed = left.contains('\t') || right.contains('\t');
            if let Some((w1, w2)) = c.retab {
                r.pb.set_tab_width(w1 as usize % 13);
                let _ = r.draw(Some(7), 3);
                r.pb.set_tab_width(w2 as usize % 13);
                v.label_if(tabbed && w1 % 13 != w2 % 13, "tab_width_changed_between_two_frames_of_a_line_with_a_tab");
            }
            let tw = c.retab.map_or(8, |(_, w2)| w2 as usize % 13);
            let (left, right) = (&format!("{}{}", if c.sgr_prefix { "\u{1b}[31mjob\u{1b}[0m " } else { "" }, crate::model::expand_tabs(left, tw)), &crate::model::expand_tabs(right, tw));
            let via_println = c.via_println && c.resized_from.is_some() && c.end.is_none() && !c.in_multi;
            let (line, frac) = if via_println {
                // the state is set while the terminal still reports the old width, then it is resized
                r.vt.lock().report_cols = Some(c.resized_from.unwrap().max(1));
                let _ = r.draw(c.len, c.pos);
                r.vt.lock().report_cols = Some(*term);
                catch(|| r.pb.println("log")).map_err(|p| Fail::new("panic", format!("println on {term} columns: {p}")))?;
                let lines = r.vt.last_frame_lines().map_err(|e| Fail::new("harness", e))?;
                ensure!(lines.len() == r.nlines + 1 && lines[0] == "log", "shape", "println repainted {lines:?}, expected the log line and {} template line(s)", r.nlines);
                v.label("first_frame_after_a_resize_painted_by_println");
                (lines[1 + r.bar_line].clone(), f32::from_bits(r.frac.load(Ordering::SeqCst)))
            } else {
                r.draw_end(c.len, c.pos, c.end).map_err(|p| Fail::new("panic", format!("drawing {template:?} on {term} columns: {p}")))?
            };
            let rest = console::measure_text_width(left) + console::measure_text_width(right);
            let bar = line
                .strip_prefix(left.as_str())
                .and_then(|l| l.strip_suffix(right.as_str()))
                .ok_or_else(|| Fail::new("shape", format!("line {line:?} lost the literals around wide_bar")))?;
            let avail = (*term as usize).saturating_sub(rest);
            check_bar(bar, &chars, cwidth, avail, c.len, c.pos, frac)?;
            let cols = console::measure_text_width(&line);
            if rest <= *term as usize {
                let want = *term as usize - avail % cwidth;
                if cols != want {
                    return Err(Fail::new("wide_width", format!("{template:?} on {term} columns with {cwidth}-column cells: line {line:?} is {cols} columns wide, expected {want}")));
                }
            }
            v.nontrivial = avail / cwidth >= 2 && c.len.map_or(false, |l| c.pos > 0 && c.pos < l);
            v.label("wide_bar");
            v.label_if(rest > *term as usize, "rest_does_not_fit");
            v.label_if(cwidth == 2 && avail % 2 == 1, "odd_remainder");
        }
    }
    v.label_if(matches!(c.order % 4, 1 | 2), "template_set_after_progress_chars");
    v.label_if(c.order % 4 == 3, "progress_chars_set_twice_with_different_widths");
    v.label_if(chars.iter().any(|c| c.chars().count() > 1), "progress_characters_of_several_code_points");
    v.label_if(c.end.is_some() && c.len.map_or(false, |l| c.pos > 0 && c.pos < l), "finished_bar_short_of_its_length");
    Ok(v)
}

fn chars_strategy() -> BoxedStrategy<String> {
    // in a fifth of the sets the background glyph is a blank of the set's width
    (chars_strategy_visible(), 0u8..5)
        .prop_map(|(s, k)| {
            if k == 0 {
                let mut cs = cells_of(&s);
                let wide = cell_width(&cs[0]) == 2;
                *cs.last_mut().unwrap() = if wide { "\u{3000}".to_string() } else { " ".to_string() };
                cs.concat()
            } else {
                s
            }
        })
        .boxed()
}

/// progress characters that are grapheme clusters of several code points, two columns each (only a
/// build with `improved_unicode` accepts them as one character each)
#[cfg(feature = "improved_unicode")]
const CLUSTERS: [&str; 10] = [
    "\u{2600}\u{fe0f}", "\u{2764}\u{fe0f}", "\u{1f44d}\u{1f3fd}", "\u{1f1e9}\u{1f1ea}", "\u{270c}\u{fe0f}", "\u{1f44b}\u{1f3fb}",
    // a letter with a spacing mark (one extended grapheme cluster, two columns): Thai, Devanagari
    "\u{e01}\u{e33}", "\u{e04}\u{e33}", "\u{915}\u{93e}", "\u{928}\u{93f}",
];

fn chars_strategy_visible() -> BoxedStrategy<String> {
    #[cfg(feature = "improved_unicode")]
    {
        let plain = chars_strategy_plain();
        let clusters = (2usize..=5, proptest::sample::subsequence(CLUSTERS.to_vec(), 5), any::<bool>()).prop_map(|(n, mut pool, rev)| {
            if rev {
                pool.reverse();
            }
            pool.into_iter().take(n).collect::<String>()
        });
        return prop_oneof![3 => plain, 2 => clusters].boxed();
    }
    #[cfg(not(feature = "improved_unicode"))]
    chars_strategy_plain()
}

fn chars_strategy_plain() -> BoxedStrategy<String> {
    prop_oneof![
        3 => (2usize..=10, proptest::sample::subsequence(NARROW.to_vec(), 10), any::<bool>()).prop_map(|(n, mut pool, rev)| {
            if rev { pool.reverse(); }
            pool.into_iter().take(n).collect::<String>()
        }),
        2 => (2usize..=10, proptest::sample::subsequence(WIDE.to_vec(), 10), any::<bool>()).prop_map(|(n, mut pool, rev)| {
            if rev { pool.reverse(); }
            pool.into_iter().take(n).collect::<String>()
        }),
    ]
    .boxed()
}

fn len_pos_strategy() -> BoxedStrategy<(Option<u64>, u64)> {
    prop_oneof![
        4 => (0u64..200).prop_flat_map(|l| (Just(Some(l)), 0..=l + 2)),
        3 => (0u32..25).prop_flat_map(|k| 1u64..=(1u64 << k)).prop_flat_map(|l| {
            (Just(Some(l)), prop_oneof![Just(l), Just(l + 1), Just(l - 1), 0..=l, Just(l / 3), Just(u64::MAX)])
        }),
        // just below completion for lengths between 2^22 and 2^24
        2 => ((1u64 << 22)..=(1u64 << 24), 1u64..4).prop_map(|(l, d)| (Some(l), l - d)),
        3 => (0u32..64).prop_flat_map(|k| {
            let l = 1u64 << k;
            (Just(Some(l)), prop_oneof![0..=l, Just(l.saturating_sub(1)), Just(l + 1), Just(l / 2), Just(1u64)])
        }),
        2 => (any::<u64>(), any::<u64>()).prop_map(|(l, p)| (Some(l), p)),
        1 => any::<u64>().prop_map(|p| (None, p)),
        1 => Just((Some(u64::MAX), u64::MAX)),
        1 => Just((Some(u64::MAX), u64::MAX - 1)),
    ]
    .boxed()
}

fn geo_strategy() -> BoxedStrategy<GeoCase> {
    let width = prop_oneof![2 => 0u32..6, 5 => 0u32..80, 2 => 80u32..1000, 1 => 1000u32..=65535];
    let wide = proptest::option::weighted(
        0.35,
        (prop_oneof![3 => 1u16..60, 1 => 60u16..300], "[a-z\\[ \u{e9}\u{4e16}\t]{0,8}", "[a-z\\] \u{e9}\u{4e16}\t]{0,8}"),
    );
    let extra = (proptest::option::weighted(0.3, "[a-z:. \u{e9}\u{4e16}]{0,12}"), proptest::option::weighted(0.3, "[a-z:. \u{e9}\u{4e16}]{0,12}"));
    (chars_strategy(), width, len_pos_strategy(), wide, extra, any::<bool>(), proptest::option::weighted(0.3, 1u16..300), prop_oneof![3 => Just(0u8), 1 => Just(1u8), 1 => Just(2u8), 1 => Just(3u8)], proptest::option::weighted(0.25, 0u8..3), proptest::option::weighted(0.3, (0u8..13, 0u8..13)))
        .prop_map(|(chars, width, (len, pos), wide, extra, in_multi, resized_from, order, end, retab)| GeoCase { narrow_term: if wide.is_none() && width % 3 == 1 && width <= 600 { Some((width / 2 + 1) as u16) } else { None }, default_width: wide.is_none() && width % 7 == 0, msg_line_above: width % 5 == 1, sgr_prefix: width % 4 == 2, via_println: width % 3 == 0, chars, width, len, pos, wide, extra, in_multi, resized_from, order, end, retab })
        .boxed()
}

// ------------------------------------------------------------------------------------------
// bounded-exhaustive sweep

const SWEEP_SETS: [&str; 8] = ["#-", "#>-", "█▉▊▋░", "#=+.>x-", "#>=+.█▉▊▋░", "世界", "世中界", "世中文字界"];

fn sweep_one(set: &str, n: usize, max_len: u64) -> Result<(u64, u64), (Value, Fail)> {
    let chars: Vec<String> = cells_of(set);
    let cwidth = cell_width(&chars[0]);
    let template = format!("{{bar:{n}}}|{{frac}}");
    let mk = |len: u64, pos: u64| json!({"chars": set, "width": n, "len": len, "pos": pos, "wide": null});
    let r = rig(set, &template, u16::MAX).map_err(|p| (mk(0, 0), Fail::new("panic", p)))?;
    let (mut evals, mut nontrivial) = (0u64, 0u64);
    for len in 0..=max_len {
        let mut prev_filled = 0usize;
        for pos in 0..=len + 2 {
            evals += 1;
            let (line, frac) = r.draw(Some(len), pos).map_err(|p| (mk(len, pos), Fail::new("panic", p)))?;
            let bar = line.strip_suffix('|').unwrap_or(&line);
            let bar = strip_field_pad(bar, n, cwidth).map_err(|f| (mk(len, pos), f))?;
            let (filled, cells, _) = check_bar(bar, &chars, cwidth, n, Some(len), pos, frac).map_err(|f| (mk(len, pos), f))?;
            if filled < prev_filled {
                return Err((mk(len, pos), Fail::new("monotone", format!("filled cells decreased from {prev_filled} to {filled} when pos went to {pos} (len {len}, width {n}, chars {set:?})"))));
            }
            prev_filled = filled;
            if cells >= 2 && pos > 0 && pos < len {
                nontrivial += 1;
            }
        }
    }
    Ok((evals, nontrivial))
}

fn run_sweep(tier: Tier, _seed: u64) -> EnumReport {
    let max = tier.pick(40usize, 128);
    let jobs: Vec<(usize, &str)> = SWEEP_SETS.iter().flat_map(|s| (0..=max).map(move |n| (n, *s))).collect();
    let results: Vec<Result<(u64, u64), (Value, Fail)>> = jobs.par_iter().map(|(n, s)| sweep_one(s, *n, max as u64)).collect();
    let mut rep = EnumReport { exhaustive: true, ..Default::default() };
    let mut labels: BTreeMap<String, u64> = BTreeMap::new();
    for (r, (n, s)) in results.into_iter().zip(jobs.iter()) {
        match r {
            Ok((e, nt)) => {
                rep.evaluations += e;
                rep.distinct_nontrivial += nt;
                *labels.entry(format!("set_{}_chars", s.chars().count())).or_default() += e;
            }
            Err((case, f)) => {
                if rep.failure.is_none() {
                    rep.failure = Some((case, f));
                }
            }
        }
        if rep.samples.len() < 2 && *n == 7 {
            rep.samples.push(json!({"chars": s, "width": n, "len": format!("0..={max}"), "pos": "0..=len+2"}));
        }
    }
    rep.labels = labels;
    rep
}

fn replay_sweep(v: &Value) -> Result<CaseResult, String> {
    let c: GeoCase = serde_json::from_value(v.clone()).map_err(|e| e.to_string())?;
    // replay the single point and, for monotonicity, the whole pos sweep of that (chars, width, len)
    let r = run_geo(&c);
    if r.is_err() {
        return Ok(r);
    }
    if let Some(len) = c.len {
        if len <= 4096 {
            if let Err((_, f)) = sweep_one_len(&c.chars, c.width as usize, len) {
                return Ok(Err(f));
            }
        }
    }
    Ok(r)
}

fn sweep_one_len(set: &str, n: usize, len: u64) -> Result<(), (Value, Fail)> {
    let chars: Vec<String> = cells_of(set);
    let cwidth = cell_width(&chars[0]);
    let template = format!("{{bar:{n}}}|{{frac}}");
    let r = rig(set, &template, u16::MAX).map_err(|p| (Value::Null, Fail::new("panic", p)))?;
    let mut prev = 0;
    for pos in 0..=len + 2 {
        let (line, frac) = r.draw(Some(len), pos).map_err(|p| (Value::Null, Fail::new("panic", p)))?;
        let bar = line.strip_suffix('|').unwrap_or(&line);
        let bar = strip_field_pad(bar, n, cwidth).map_err(|f| (Value::Null, f))?;
        let (filled, _, _) = check_bar(bar, &chars, cwidth, n, Some(len), pos, frac).map_err(|f| (Value::Null, f))?;
        if filled < prev {
            return Err((Value::Null, Fail::new("monotone", format!("filled cells decreased from {prev} to {filled} at pos {pos} (len {len}, width {n}, chars {set:?})"))));
        }
        prev = filled;
    }
    Ok(())
}

// ------------------------------------------------------------------------------------------
// console::Term handed over as a TermLike

#[derive(Debug, Clone, Serialize, Deserialize)]
pub struct ConsoleTermCase {
    len: u64,
    pos: u64,
    /// 0 "{wide_bar}", 1 "{wide_bar} {pos}/{len}", 2 "[{wide_bar}]"
    tpl: u8,
}

/// `ProgressDrawTarget::term_like(Box::new(console::Term))`: the width the TermLike impl of `Term` reports
/// is the number of columns. The Term writes to an anonymous file; console falls back to 24 rows x 80
/// columns for it, so the line with the wide_bar is 80 columns wide.
fn run_console_term(c: &ConsoleTermCase) -> CaseResult {
    use std::io::{Read, Seek};
    use std::os::fd::FromRawFd;
    let fd = unsafe { libc::memfd_create(b"vh-c13\0".as_ptr() as *const libc::c_char, 0) };
    ensure!(fd >= 0, "harness", "memfd_create failed");
    let mut file = unsafe { std::fs::File::from_raw_fd(fd) };
    let dup = || file.try_clone().map_err(|e| Fail::new("harness", e.to_string()));
    let term = console::Term::read_write_pair(dup()?, dup()?);
    let (rows, cols) = term.size();
    ensure!((rows, cols) == (24, 80), "harness", "console reports {rows}x{cols} for a file");
    let tpl = ["{wide_bar}", "{wide_bar} {pos}/{len}", "[{wide_bar}]"][c.tpl as usize % 3];
    let r = catch(|| {
        let pb = ProgressBar::with_draw_target(Some(c.len), ProgressDrawTarget::term_like(Box::new(term)));
        pb.set_style(ProgressStyle::with_template(tpl).unwrap().progress_chars("#>-"));
        pb.set_position(c.pos);
        pb.tick();
        pb.abandon();
    });
    r.map_err(|p| Fail::new("panic", format!("drawing {tpl:?} to a console::Term used as TermLike panicked: {p}")))?;
    let mut bytes = vec![];
    let _ = file.rewind();
    file.read_to_end(&mut bytes).map_err(|e| Fail::new("harness", e.to_string()))?;
    let text = String::from_utf8_lossy(&bytes).into_owned();
    let plain = console::strip_ansi_codes(&text).into_owned();
    let last = plain.split(|ch| ch == '\n' || ch == '\r').filter(|l| !l.trim().is_empty()).last().unwrap_or("").to_string();
    let w = console::measure_text_width(&last);
    ensure!(
        w == cols as usize,
        "wide_bar_width",
        "template {tpl:?} (pos {}, len {}) on a console::Term of {rows} rows x {cols} columns handed over with term_like(): the line is {w} columns wide: {last:?}",
        c.pos,
        c.len
    );
    let mut v = Verdict::default();
    v.nontrivial = true;
    v.label("console_term_as_term_like");
    Ok(v)
}

pub fn property() -> Property {
    let w = default_workers();
    Property {
        id: "C13",
        level: "exploration",
        assumptions: &[
            "filled == floor(fraction*cells) is checked against the library's own f32 fraction() with one f32 ulp of the product tolerated",
            "'full only when pos >= len' and 'partial cell present' are required for len <= 2^24 (f32 exact enough); beyond that only the tolerance law, empty-at-0 and full-at-pos>=len",
            "with exactly two progress characters the partial cell is drawn with the background character and is not distinguishable",
            "progress characters are distinct single-char clusters (default feature set segments by char)",
        ],
        parts: {
            let mut parts: Vec<Box<dyn Part>> = vec![];
            // (the second build of this check, with indicatif's `improved_unicode`, runs the random part only)
            if !cfg!(feature = "improved_unicode") {
                parts.push(Box::new(Enumerated {
                name: "sweep",
                rule: "bounded-exhaustive: 8 character sets (2,3,5,7,10 single-width; 2,3,5 double-width) x width 0..=40 (thorough 128) x len 0..=40 (128) x pos 0..=len+2; all geometry laws per point plus monotonicity of the filled count along pos; non-trivial = 0 < pos < len with >= 2 cells",
                run: run_sweep,
                replay: replay_sweep,
            }));
            }
            parts.push(Box::new(Gen::<GeoCase> {
                name: if cfg!(feature = "improved_unicode") { "random_improved_unicode" } else { "random" },
                rule: "random distinct character sets of 2..=10 clusters (1 or 2 columns; in the build with improved_unicode two fifths of the sets consist of 2-5 grapheme clusters of several code points each - emoji with variation selector or skin tone, flags, letters with a spacing mark), width 0..=65535, (len,pos) incl. powers of two, u64::MAX, unknown length; 35% through literal{wide_bar}literal on terminals 1..300 columns (line width == W - (avail mod c)); the template set before or after the characters (with_template().progress_chars(), progress_chars().template(), style().template() on the bar); a quarter of the bars abandoned or finished-then-resized before the frame; non-trivial = 0 < pos < len with >= 2 cells",
                strategy: |_| geo_strategy(),
                cases: |t| t.pick(60_000, 1_000_000),
                run: run_geo,
                signature: no_signature,
                essential: &["partial_progress", "full", "double_width_cells", "huge_len", "two_chars", "wide_bar", "bar_without_a_width", "blank_background_glyph", "wide_bar_in_multi_line_template", "wide_bar_inside_multi_progress", "terminal_resized_between_frames", "rest_does_not_fit", "odd_remainder", "template_set_after_progress_chars", "finished_bar_short_of_its_length", "tab_width_changed_between_two_frames_of_a_line_with_a_tab", "wide_msg_line_above_the_wide_bar_line", "caller_coloured_text_on_the_wide_bar_line", "progress_chars_set_twice_with_different_widths", "first_frame_after_a_resize_painted_by_println", "fixed_width_bar_wider_than_the_terminal"],
                workers: w,
                decode: None,
            }));
            if !cfg!(feature = "improved_unicode") {
                parts.push(Box::new(Gen::<ConsoleTermCase> {
                    name: "console_term",
                    rule: "a console::Term (over an anonymous file: 24 rows x 80 columns by console's fallback) handed over with ProgressDrawTarget::term_like(); {wide_bar} alone, with a suffix and in brackets, len 0..1000, pos 0..len+2: the line written is exactly 80 columns wide; non-trivial = every case",
                    strategy: |_| (0u64..1000, 0u64..1002, 0u8..3).prop_map(|(len, pos, tpl)| ConsoleTermCase { len, pos: pos.min(len + 2), tpl }).boxed(),
                    cases: |t| t.pick(200, 5_000),
                    run: run_console_term,
                    signature: no_signature,
                    essential: &["console_term_as_term_like"],
                    workers: w,
                    decode: None,
                }));
            }
            parts
        },
    }
}
