//! C05 Redraw throttling: bounded frame rate and bounded staleness (virtual clock).
use indicatif::{MultiProgress, ProgressBar, ProgressDrawTarget, ProgressStyle};
use proptest::prelude::*;
use serde::{Deserialize, Serialize};

use crate::clock;
use crate::ensure;
use crate::runner::*;
use crate::vterm::VTerm;

#[derive(Debug, Clone, Copy, Serialize, Deserialize, PartialEq)]
pub enum Gap {
    Zero,
    Ns(u32),
    /// below one millisecond
    SubMs(u32),
    /// k refresh intervals (rounded up to whole ns) plus a delta of a few ns
    KInterval(u8, i8),
    HalfInterval,
    Millis(u16),
    Secs(u16),
    Hours(u8),
}

#[derive(Debug, Clone, Copy, Serialize, Deserialize, PartialEq)]
pub enum Call {
    Tick,
    SetMessage,
    SetLength,
    Inc,
    SetPosition,
    Dec,
    /// ProgressBar::reset() (position part only): must not hand out a fresh burst
    Reset,
    /// set_length with the value the bar already has: still an ordinary redraw request
    SetSameLength,
    /// inc(0): what the I/O adaptors issue at end of file - a position request like any other
    IncZero,
    /// update(|s| s.set_pos(..)): an ordinary redraw request like set_message
    Update,
    /// enable_steady_tick(Duration::ZERO) / disable_steady_tick() without a ticker: no ticker is started or
    /// stopped, nothing is requested, and the bar keeps redrawing on its own afterwards
    SteadyZero,
    SteadyOff,
    /// MultiProgress targets: finish and drop the next of six members that render nothing
    DropDecoy,
    /// two bars of one MultiProgress: update() of one bar whose closure takes this long (the clock advances
    /// inside it) and ticks the other bar - that request reaches the shared limiter first, with the later time
    /// stamp; the outer request follows with the time stamp taken before the closure ran
    NestedUpdate(Gap),
    /// finish() (a forced frame, not counted) and then reset(): the redraw reset() asks for is an ordinary
    /// request of a running bar at position 0
    FinishReset,
    /// unset_length() on a bar that has a length, set_length(the old one) on a bar that has none: ordinary
    /// redraw requests like set_length
    ToggleLength,
}

#[derive(Debug, Clone, Serialize, Deserialize)]
pub struct RateCase {
    /// the bars are created complete (length 0): position == length for the whole history unless a
    /// position call changes that - being complete must not switch the throttling off
    #[serde(default)]
    full: bool,
    rate: u8,
    /// 0 standalone, 1 first bar of a MultiProgress, 2 calls alternate between two bars of a MultiProgress
    mode: u8,
    calls: Vec<(Gap, Call)>,
}

fn gap_ns(g: Gap, rate: u64) -> i64 {
    let interval = (1_000_000_000u64 + rate - 1) / rate; // ceil(1e9 / R)
    match g {
        Gap::Zero => 0,
        Gap::Ns(n) => (n % 1000) as i64,
        Gap::SubMs(n) => (n % 1_000_000) as i64,
        Gap::KInterval(k, d) => ((k as u64 % 25) * 1_000_000_000 + rate - 1) as i64 / rate as i64 + (d as i64 % 3),
        Gap::HalfInterval => (interval / 2) as i64,
        Gap::Millis(m) => (m as i64 % 2000) * 1_000_000,
        Gap::Secs(s) => (s as i64 % 600) * 1_000_000_000,
        Gap::Hours(h) => (h as i64 % 48 + 1) * 3_600_000_000_000,
    }
    .max(0)
}

struct Bar {
    pb: ProgressBar,
    tag: &'static str,
    pos: u64,
    len: u64,
    msg: u64,
    /// unset_length() was the last length call: {len} shows the position
    no_len: bool,
}

impl Bar {
    fn line(&self) -> String {
        format!("{} {}|{}|m{}", self.tag, self.pos, if self.no_len { self.pos } else { self.len }, self.msg)
    }
}

fn run_rate(c: &RateCase) -> CaseResult {
    let _clk = clock::Armed::new();
    let r = c.rate.max(1) as u64;
    let vt = VTerm::raw(100, 200);
    let target = ProgressDrawTarget::term_like_with_hz(vt.boxed(), r as u8);
    let mk = |tag: &'static str| -> ProgressStyle { ProgressStyle::with_template(&format!("{tag} {{pos}}|{{len}}|{{msg}}")).unwrap() };
    let mut mp = None;
    let mut bars: Vec<Bar> = vec![];
    let mut decoys: Vec<Option<ProgressBar>> = vec![];
    let mut decoy_step = 0usize;
    let len0: u64 = if c.full { 0 } else { 100 };
    if c.mode % 4 == 0 {
        let pb = ProgressBar::with_draw_target(Some(len0), target).with_message("m0");
        pb.set_style(mk("A"));
        bars.push(Bar { pb, tag: "A", pos: 0, len: len0, msg: 0, no_len: false });
    } else {
        // (mode 3: the MultiProgress is created hidden, gets its members, and is given the terminal afterwards)
        let mut target = Some(target);
        let m = if c.mode % 4 == 3 { MultiProgress::with_draw_target(ProgressDrawTarget::hidden()) } else { MultiProgress::with_draw_target(target.take().unwrap()) };
        // members that render nothing, in front of the others: Call::DropDecoy finishes and drops them so that
        // dropped-but-still-listed members wait at the head of the list while ordinary requests arrive
        for _ in 0..6 {
            let d = m.add(ProgressBar::with_draw_target(Some(1), ProgressDrawTarget::hidden()).with_finish(indicatif::ProgressFinish::AndLeave));
            d.set_style(ProgressStyle::with_template("").unwrap());
            decoys.push(Some(d));
        }
        for tag in ["A", "B"] {
            let pb = m.add(ProgressBar::with_draw_target(Some(len0), ProgressDrawTarget::hidden()).with_message("m0"));
            pb.set_style(mk(tag));
            bars.push(Bar { pb, tag, pos: 0, len: len0, msg: 0, no_len: false });
        }
        if let Some(t) = target.take() {
            m.set_draw_target(t);
        }
        mp = Some(m);
    }
    let interval = ((1_000_000_000u64 + r - 1) / r) as i64;
    // (virtual ns, was the request a position update?) of every painted ordinary frame
    let mut paints: Vec<i64> = vec![];
    let mut last_paint: Option<i64> = None;
    // sliding minima for the two bucket laws
    let mut min_g: Option<i128> = None; // frames: k*1e9 - R*t_k
    let mut v = Verdict::default();
    let (mut skipped, mut painted_n, mut near_multiple) = (0u64, 0u64, false);
    let mut drawn: Vec<bool> = vec![false; bars.len()];
    // renderings a bar's slot may hold: the state at its last certain draw attempt; a position update
    // may or may not have passed the bar's own 1 ms bucket, so it adds an alternative
    let mut acceptable: Vec<Vec<String>> = bars.iter().map(|b| vec![b.line()]).collect();
    for (i, (gap, call)) in c.calls.iter().enumerate() {
        let g = gap_ns(*gap, r);
        clock::advance_ns(g);
        let now = clock::now_ns();
        if let Gap::KInterval(k, _) = gap {
            near_multiple |= *k % 25 > 0;
        }
        let bi = if c.mode % 4 == 2 { i % 2 } else { 0 };
        let call = &if c.full && matches!(call, Call::Inc | Call::SetPosition | Call::Dec | Call::SetLength | Call::Update | Call::ToggleLength | Call::FinishReset) { Call::SetSameLength } else { *call };
        let mut before = vt.nflush();
        if let Call::NestedUpdate(inner) = call {
            if bars.len() < 2 {
                continue;
            }
            let (a, b) = (bi, 1 - bi);
            bars[a].pos += 3;
            let p = bars[a].pos;
            let other = bars[b].pb.clone();
            let d = gap_ns(*inner, r);
            bars[a].pb.update(|s| {
                s.set_pos(p);
                clock::advance_ns(d);
                other.tick();
            });
            let now = clock::now_ns();
            let k_new = vt.nflush() - before;
            let ctx = format!("call #{i} {call:?} at t={now} ns (the closure took {d} ns, rate {r}/s, mode {})", c.mode % 4);
            ensure!(k_new <= 2, "double_frame", "{ctx}: two requests painted {k_new} frames");
            // both requests are ordinary: whatever they paint counts against the window bound, at the time it is on screen
            for _ in 0..k_new {
                painted_n += 1;
                let k = paints.len() as i128;
                let gk = k * 1_000_000_000 - r as i128 * now as i128;
                let m = min_g.map_or(gk, |m| m.min(gk));
                min_g = Some(m);
                ensure!(
                    gk - m <= 20 * 1_000_000_000,
                    "rate_bound",
                    "{ctx}: more than 20 + R*T + 1 ordinary frames in a window ending here: frame #{k} since the worst window start (last frames at {:?} ns)",
                    &paints[paints.len().saturating_sub(5)..]
                );
                paints.push(now);
                last_paint = Some(now);
            }
            drawn[a] = true;
            drawn[b] = true;
            acceptable[a] = vec![bars[a].line()];
            acceptable[b] = vec![bars[b].line()];
            v.label_if(d > 0, "request_with_an_older_time_stamp_than_the_last_frame");
            continue;
        }
        if matches!(call, Call::DropDecoy) {
            // order 1, 0, 3, 2, 5, 4: first the lower one of a pair (it stays listed behind the head), then the head
            let order = [1usize, 0, 3, 2, 5, 4];
            if let Some(d) = decoys.get_mut(*order.get(decoy_step).unwrap_or(&usize::MAX)).and_then(|d| d.take()) {
                decoy_step += 1;
                d.finish();
                drop(d);
                v.label("dropped_member_waits_at_the_head_of_the_list");
            }
            // (finish and drop force their own frames: not ordinary requests, not counted)
            continue;
        }
        if matches!(call, Call::SteadyZero | Call::SteadyOff) {
            match call {
                Call::SteadyZero => bars[bi].pb.enable_steady_tick(std::time::Duration::ZERO),
                _ => bars[bi].pb.disable_steady_tick(),
            }
            ensure!(vt.nflush() == before, "harness", "call #{i} {call:?} painted a frame");
            v.label("steady_tick_switch_without_a_ticker");
            continue;
        }
        {
            let b = &mut bars[bi];
            match call {
                Call::SteadyZero | Call::SteadyOff | Call::DropDecoy | Call::NestedUpdate(_) => unreachable!(),
                Call::Update => {
                    b.pos += 3;
                    let p = b.pos;
                    b.pb.update(|s| s.set_pos(p));
                }
                Call::Tick => b.pb.tick(),
                Call::SetMessage => {
                    b.msg += 1;
                    b.pb.set_message(format!("m{}", b.msg));
                }
                Call::SetLength => {
                    b.len += 1;
                    b.no_len = false;
                    b.pb.set_length(b.len);
                }
                Call::SetSameLength => {
                    b.no_len = false;
                    b.pb.set_length(b.len)
                }
                Call::ToggleLength => {
                    if b.no_len {
                        b.pb.set_length(b.len);
                    } else {
                        b.pb.unset_length();
                    }
                    b.no_len = !b.no_len;
                }
                Call::IncZero => b.pb.inc(0),
                Call::Inc => {
                    b.pos += 1;
                    b.pb.inc(1);
                }
                Call::SetPosition => {
                    b.pos += 2;
                    b.pb.set_position(b.pos);
                }
                Call::Reset => b.pb.tick(),
                Call::FinishReset => {
                    b.pb.finish();
                    before = vt.nflush();
                    b.pb.reset();
                    b.pos = 0;
                }
                Call::Dec => {
                    b.pos = b.pos.saturating_sub(1).max(1);
                    let cur = b.pb.position();
                    if cur > b.pos {
                        b.pb.dec(cur - b.pos);
                    } else {
                        b.pb.set_position(b.pos);
                    }
                }
            }
        }
        let painted = vt.nflush() > before;
        if matches!(call, Call::Inc | Call::SetPosition | Call::Dec | Call::IncZero) && !painted {
            let l = bars[bi].line();
            acceptable[bi].push(l);
        } else {
            acceptable[bi] = vec![bars[bi].line()];
        }
        let ctx = format!("call #{i} {call:?} at t={now} ns (gap {g} ns, rate {r}/s, mode {})", c.mode % 4);
        // staleness: a request one refresh interval after the last painted frame is painted
        let is_pos = matches!(call, Call::Inc | Call::SetPosition | Call::Dec | Call::IncZero);
        let due = match last_paint {
            None => true,
            Some(lp) => now - lp >= interval + if is_pos { 1_000_000 } else { 0 },
        };
        if due && !is_pos {
            ensure!(painted, "stale", "{ctx}: an ordinary redraw request {} ns after the last painted frame (refresh interval {} ns) was not painted", last_paint.map_or(-1, |lp| now - lp), interval);
        }
        if due && is_pos && last_paint.is_some() {
            ensure!(painted, "stale_position", "{ctx}: a position update {} ns after the last painted frame (interval {} ns + 1 ms) was not painted", now - last_paint.unwrap(), interval);
        }
        if painted {
            ensure!(vt.nflush() == before + 1, "double_frame", "{ctx}: one request painted {} frames", vt.nflush() - before);
            painted_n += 1;
            drawn[bi] = true;
            let k = paints.len() as i128;
            let gk = k * 1_000_000_000 - r as i128 * now as i128;
            let m = min_g.map_or(gk, |m| m.min(gk));
            min_g = Some(m);
            ensure!(
                gk - m <= 20 * 1_000_000_000,
                "rate_bound",
                "{ctx}: more than 20 + R*T + 1 ordinary frames in a window ending here: frame #{} since the worst window start ({} frames in total so far, last frames at {:?} ns)",
                k,
                paints.len() + 1,
                &paints[paints.len().saturating_sub(5)..]
            );
            paints.push(now);
            last_paint = Some(now);
            // nothing lost: the frame shows the latest state of every bar that has been drawn
            let lines = vt.last_frame_lines().map_err(|e| Fail::new("harness", e))?;
            let shown: Vec<usize> = (0..bars.len()).filter(|j| drawn[*j]).collect();
            let ok = lines.len() == shown.len() && shown.iter().zip(lines.iter()).all(|(j, l)| acceptable[*j].contains(l));
            let want: Vec<String> = shown.iter().map(|j| bars[*j].line()).collect();
            ensure!(ok, "frame_content", "{ctx}: painted frame {lines:?}, latest state {want:?} (skipped draws must lose nothing)");
        } else {
            skipped += 1;
            // a throttled bar inside a MultiProgress has still made a draw attempt
            drawn[bi] = drawn[bi] || c.mode % 4 != 0;
        }
    }
    drop(bars);
    drop(mp);
    v.nontrivial = skipped > 0 && painted_n > 0 && near_multiple;
    v.label_if(skipped > 0, "skipped_draw");
    v.label_if(painted_n > 20, "burst_exhausted");
    v.label_if(near_multiple, "gap_at_interval_multiple");
    v.label_if(c.calls.iter().any(|(g, _)| matches!(g, Gap::Hours(_) | Gap::Secs(_))), "refill_after_long_gap");
    v.label_if(c.mode % 4 != 0, "multi_progress_target");
    v.label_if(c.full, "bar_complete_the_whole_time");
    v.label_if(c.calls.iter().any(|(_, c)| matches!(c, Call::FinishReset)), "reset_of_a_finished_bar");
    v.label_if(c.calls.iter().filter(|(_, c)| matches!(c, Call::ToggleLength)).count() >= 2, "length_unset_and_set_again");
    Ok(v)
}

fn gap_strategy() -> BoxedStrategy<Gap> {
    prop_oneof![
        30 => Just(Gap::Zero),
        8 => any::<u32>().prop_map(Gap::Ns),
        16 => any::<u32>().prop_map(Gap::SubMs),
        8 => (prop_oneof![4 => 0u8..3, 1 => 0u8..25], -1i8..=1).prop_map(|(k, d)| Gap::KInterval(k, d)),
        5 => Just(Gap::HalfInterval),
        5 => (0u16..40).prop_map(Gap::Millis),
        1 => any::<u16>().prop_map(Gap::Millis),
        1 => any::<u16>().prop_map(Gap::Secs),
        1 => any::<u8>().prop_map(Gap::Hours),
    ]
    .boxed()
}

fn rate_strategy(tier: Tier) -> BoxedStrategy<RateCase> {
    let n = tier.pick(400, 2000);
    let call = prop_oneof![4 => Just(Call::Tick), 2 => Just(Call::SetMessage), 1 => Just(Call::SetLength), 1 => Just(Call::SetSameLength), 3 => Just(Call::Inc), 1 => Just(Call::SetPosition), 1 => Just(Call::Dec)];
    let rate = || prop_oneof![2 => prop_oneof![Just(1u8), Just(3), Just(7), Just(20), Just(30), Just(60), Just(255)], 1 => 1u8..=255];
    let call = prop_oneof![28 => call, 2 => Just(Call::FinishReset), 2 => Just(Call::ToggleLength), 2 => Just(Call::IncZero), 3 => Just(Call::Update), 1 => Just(Call::SteadyZero), 1 => Just(Call::SteadyOff), 1 => Just(Call::DropDecoy), 3 => gap_strategy().prop_map(Call::NestedUpdate)];
    let free = (rate(), 0u8..4, proptest::collection::vec((gap_strategy(), call.clone()), 30..n), proptest::bool::weighted(0.15)).prop_map(|(rate, mode, calls, full)| RateCase { full, rate, mode, calls });
    // the burst is used up at the creation instant, then requests arrive exactly at, one ns before and
    // one ns after whole refresh intervals (the boundary of "at least one refresh interval after the
    // last painted frame"), then anything
    let edge = (0u8..3, -1i8..=1).prop_map(|(k, d)| Gap::KInterval(k + 1, d));
    let boundary = (
        rate(),
        0u8..4,
        20usize..24,
        proptest::collection::vec((edge, prop_oneof![Just(Call::Tick), Just(Call::SetMessage), Just(Call::SetLength), Just(Call::SetSameLength)]), 5..60),
        proptest::collection::vec((gap_strategy(), call), 0..60),
    )
        .prop_map(|(rate, mode, burst, edges, tail)| {
            let mut calls: Vec<(Gap, Call)> = (0..burst).map(|_| (Gap::Zero, Call::Tick)).collect();
            calls.extend(edges);
            calls.extend(tail);
            RateCase { full: burst % 2 == 0 && rate % 3 == 0, rate, mode, calls }
        });
    prop_oneof![3 => free, 1 => boundary].boxed()
}

fn decode_rate(u: &mut FuzzInput) -> RateCase {
    let rate = if u.n(2) == 0 { 1 + u.n(254) as u8 } else { [1u8, 3, 7, 20, 30, 60, 255][u.n(6)] };
    let mode = u.n(3) as u8;
    let mut calls = vec![];
    // optionally use up the burst first
    if u.n(2) == 0 {
        calls.extend((0..20 + u.n(3)).map(|_| (Gap::Zero, Call::Tick)));
    }
    while !u.empty() && calls.len() < 400 {
        let gap = match u.n(15) {
            0..=5 => Gap::Zero,
            6 => Gap::Ns(u.u32()),
            7 | 8 => Gap::SubMs(u.u32()),
            9..=11 => Gap::KInterval(u.n(3) as u8, u.n(2) as i8 - 1),
            12 => Gap::HalfInterval,
            13 => Gap::Millis(u.n(40) as u16),
            14 => Gap::Secs(u.u16()),
            _ => Gap::Hours(u.u8()),
        };
        let call = [Call::Tick, Call::Tick, Call::SetMessage, Call::SetLength, Call::SetSameLength, Call::Inc, Call::Inc, Call::SetPosition, Call::Dec, Call::IncZero, Call::Update, Call::Update, Call::SteadyZero, Call::SteadyOff, Call::DropDecoy][u.n(14)];
        calls.push((gap, call));
    }
    RateCase { full: u.n(6) == 0, rate, mode, calls }
}

// position bucket: burst 10, one token per millisecond

#[derive(Debug, Clone, Serialize, Deserialize)]
pub struct PosCase {
    /// gaps in ns between consecutive inc/set_position/dec calls
    gaps: Vec<(Gap, Call)>,
}

fn run_pos(c: &PosCase) -> CaseResult {
    use std::sync::atomic::{AtomicU64, Ordering};
    use std::sync::Arc;
    let _clk = clock::Armed::new();
    // an unlimited target: every position-triggered tick paints, so frames count the ticks
    let vt = VTerm::raw(50, 100);
    let pb = ProgressBar::with_draw_target(Some(1_000_000), ProgressDrawTarget::term_like(vt.boxed()));
    let seen = Arc::new(AtomicU64::new(0));
    let s2 = seen.clone();
    pb.set_style(ProgressStyle::with_template("{pos} {k}").unwrap().with_key("k", move |st: &indicatif::ProgressState, _w: &mut dyn std::fmt::Write| {
        s2.store(st.pos(), Ordering::SeqCst);
    }));
    let mut pos = 0u64;
    let mut min_g: Option<i128> = None;
    let mut k = 0i128;
    let mut last_tick: Option<i64> = None;
    let (mut dropped, mut passed) = (0u64, 0u64);
    let (mut zero_run, mut long_gap_on_empty_bucket) = (0u32, false);
    for (i, (gap, call)) in c.gaps.iter().enumerate() {
        // (gaps are short, so that the bucket is usually empty - except Gap::Secs, which stands for a whole
        // multiple of 256 ms here, plus a fraction of a millisecond)
        let g = match gap {
            Gap::Secs(s) => (*s as i64 % 8 + 1) * 256_000_000 + (*s as i64 / 8 % 3) * 400_000,
            g => gap_ns(*g, 1000).min(50_000_000),
        };
        long_gap_on_empty_bucket |= matches!(gap, Gap::Secs(_)) && zero_run >= 10;
        zero_run = if g == 0 { zero_run + 1 } else { 0 };
        clock::advance_ns(g);
        let now = clock::now_ns();
        if matches!(call, Call::Reset) {
            // reset() redraws by itself (not a position-triggered redraw); the bucket must not be refilled by it
            pb.reset();
            pos = 0;
            // (the bar was redrawn just now: the staleness clock restarts)
            last_tick = Some(clock::now_ns());
            continue;
        }
        let before = vt.nflush();
        match call {
            Call::Dec if pos > 0 => {
                pos -= 1;
                pb.dec(1)
            }
            Call::SetPosition => {
                pos += 3;
                pb.set_position(pos)
            }
            _ => {
                pos += 1;
                pb.inc(1)
            }
        }
        let ctx = format!("position update #{i} {call:?} at t={now} ns");
        ensure!(pb.position() == pos, "position", "{ctx}: position() = {}, expected {pos}", pb.position());
        if vt.nflush() > before {
            passed += 1;
            let gk = k * 1_000_000 - now as i128;
            let m = min_g.map_or(gk, |m| m.min(gk));
            min_g = Some(m);
            ensure!(gk - m <= 10 * 1_000_000, "position_bucket", "{ctx}: more than 10 + T/1ms + 1 position-triggered redraws in a window ending here (#{k})");
            k += 1;
            last_tick = Some(now);
            ensure!(seen.load(Ordering::SeqCst) == pos, "frame_content", "{ctx}: the redraw saw position {} instead of {pos}", seen.load(Ordering::SeqCst));
        } else {
            dropped += 1;
            // an update arriving a full millisecond after the last position-triggered redraw passes
            if let Some(lt) = last_tick {
                ensure!(now - lt < 1_000_000, "position_stale", "{ctx}: update {} ns after the last position-triggered redraw was not redrawn", now - lt);
            }
        }
    }
    let mut v = Verdict::default();
    v.nontrivial = dropped > 0 && passed > 10;
    v.label_if(dropped > 0, "update_throttled");
    v.label_if(passed > 10, "burst_exhausted");
    v.label_if(c.gaps.iter().any(|(_, c)| matches!(c, Call::Reset)), "reset_interleaved");
    v.label_if(long_gap_on_empty_bucket, "multiple_of_256_ms_after_the_burst_was_used_up");
    Ok(v)
}

// ------------------------------------------------------------------------------------------
// real clock, real threads: requests that come from the steady ticker, and requests that meet a busy bar

/// records the real instant of every flush and what the frame showed; a flush may take a while
#[derive(Clone)]
struct TimedTerm {
    flushes: std::sync::Arc<std::sync::Mutex<Vec<(std::time::Instant, String)>>>,
    cur: std::sync::Arc<std::sync::Mutex<String>>,
    slow: std::time::Duration,
}

impl indicatif::TermLike for TimedTerm {
    fn width(&self) -> u16 {
        80
    }
    fn move_cursor_up(&self, _: usize) -> std::io::Result<()> {
        Ok(())
    }
    fn move_cursor_down(&self, _: usize) -> std::io::Result<()> {
        Ok(())
    }
    fn move_cursor_right(&self, _: usize) -> std::io::Result<()> {
        Ok(())
    }
    fn move_cursor_left(&self, _: usize) -> std::io::Result<()> {
        Ok(())
    }
    fn write_line(&self, _: &str) -> std::io::Result<()> {
        Ok(())
    }
    fn write_str(&self, s: &str) -> std::io::Result<()> {
        if s.starts_with('P') {
            *self.cur.lock().unwrap() = s.to_string();
        }
        Ok(())
    }
    fn clear_line(&self) -> std::io::Result<()> {
        Ok(())
    }
    fn flush(&self) -> std::io::Result<()> {
        if !self.slow.is_zero() {
            std::thread::sleep(self.slow);
        }
        let line = self.cur.lock().unwrap().clone();
        self.flushes.lock().unwrap().push((std::time::Instant::now(), line));
        Ok(())
    }
}

impl std::fmt::Debug for TimedTerm {
    fn fmt(&self, f: &mut std::fmt::Formatter<'_>) -> std::fmt::Result {
        f.write_str("TimedTerm")
    }
}

#[derive(Debug, Clone, Serialize, Deserialize)]
pub struct TickerCase {
    /// refresh rate of the target
    rate: u8,
    tick_ms: u8,
    /// the bar is suspended for this long (the ticker cannot draw meanwhile)
    stall_ms: u16,
    in_multi: bool,
    /// afterwards the bar is finished, reset and given a steady ticker with the very same interval again: it
    /// is redrawn regularly again
    #[serde(default)]
    restart: bool,
    /// the bar is hidden when its ticker is started and gets the terminal 30 ms later (set_draw_target, or -
    /// inside a MultiProgress - by being added to it): the ticker keeps it redrawn from then on
    #[serde(default)]
    start_hidden: bool,
}

/// The frame-rate bound also holds for the requests the steady ticker issues, in particular right after it
/// was held up for a while.
fn run_ticker(c: &TickerCase) -> CaseResult {
    use std::time::Duration;
    let rate = c.rate.clamp(20, 200) as f64;
    let term = TimedTerm { flushes: Default::default(), cur: Default::default(), slow: Duration::ZERO };
    let target = ProgressDrawTarget::term_like_with_hz(Box::new(term.clone()), rate as u8);
    let (mp, pb) = if c.start_hidden {
        let pb = ProgressBar::with_draw_target(Some(100), ProgressDrawTarget::hidden());
        pb.set_style(ProgressStyle::with_template("P{pos} {spinner}").unwrap());
        pb.enable_steady_tick(Duration::from_millis(1 + c.tick_ms as u64 % 4));
        std::thread::sleep(Duration::from_millis(30));
        if c.in_multi {
            let mp = MultiProgress::with_draw_target(target);
            let pb = mp.add(pb);
            (Some(mp), pb)
        } else {
            pb.set_draw_target(target);
            (None, pb)
        }
    } else if c.in_multi {
        let mp = MultiProgress::with_draw_target(target);
        let pb = mp.add(ProgressBar::new(100));
        (Some(mp), pb)
    } else {
        (None, ProgressBar::with_draw_target(Some(100), target))
    };
    pb.set_style(ProgressStyle::with_template("P{pos} {spinner}").unwrap());
    if !c.start_hidden {
        pb.enable_steady_tick(Duration::from_millis(1 + c.tick_ms as u64 % 4));
    }
    std::thread::sleep(Duration::from_millis(120));
    let stall = Duration::from_millis(200 + c.stall_ms as u64 % 500);
    pb.suspend(|| std::thread::sleep(stall));
    std::thread::sleep(Duration::from_millis(150));
    if c.restart {
        let d = Duration::from_millis(1 + c.tick_ms as u64 % 4);
        pb.finish();
        std::thread::sleep(Duration::from_millis(40));
        pb.reset();
        pb.enable_steady_tick(d);
        let n1 = term.flushes.lock().unwrap().len();
        std::thread::sleep(Duration::from_millis(400));
        let n2 = term.flushes.lock().unwrap().len();
        // (400 ms at 20 Hz or more: at least 8 refresh intervals have passed)
        ensure!(n2 >= n1 + 2, "stale_ticker", "finish(), reset(), enable_steady_tick({d:?}) again with the same interval on a {rate} Hz target: {} frame(s) were painted in the following 400 ms", n2 - n1);
    }
    let slow_ticker_text = c.stall_ms % 2 == 0;
    if slow_ticker_text {
        // a ticker with a long period is installed; a text update between two of its ticks is an ordinary
        // redraw request of its own: several refresh intervals after the last frame it is painted at once
        pb.set_style(ProgressStyle::with_template("P{pos} {spinner} {msg}").unwrap());
        pb.enable_steady_tick(Duration::from_secs(120));
        std::thread::sleep(Duration::from_millis(250));
        pb.set_message("stage two");
        let last = term.flushes.lock().unwrap().last().map(|f| f.1.clone()).unwrap_or_default();
        ensure!(
            last.contains("stage two"),
            "stale",
            "a steady ticker with a period of 120 s is installed on a {rate} Hz target; set_message() 250 ms after the last frame was not painted (the terminal still shows {last:?})"
        );
    }
    pb.disable_steady_tick();
    let frames: Vec<std::time::Instant> = term.flushes.lock().unwrap().iter().map(|f| f.0).collect();
    drop(pb);
    drop(mp);
    // every window [t_i, t_j]: (j - i + 1) <= 20 + R*(t_j - t_i) + 1 (+ slack for flushes delayed by the scheduler;
    // suspend paints 2 forced frames that do not count)
    let slack = 12.0;
    let t0 = frames.first().copied();
    let mut min_g = f64::INFINITY;
    for (k, t) in frames.iter().enumerate() {
        let g = k as f64 - rate * t.duration_since(t0.unwrap()).as_secs_f64();
        min_g = min_g.min(g);
        ensure!(
            g - min_g <= 20.0 + 1.0 + slack,
            "rate_bound_ticker",
            "steady tick every {} ms on a {rate} Hz target, suspended for {stall:?}: {} frames more than 20 + R*T + 1 in a window ending at frame #{k} ({} frames in total, the last ones {:?} after the first)",
            1 + c.tick_ms % 4,
            (g - min_g - 21.0) as i64,
            frames.len(),
            frames[k.saturating_sub(5)..=k].iter().map(|x| x.duration_since(t0.unwrap())).collect::<Vec<_>>()
        );
    }
    ensure!(frames.len() >= 10, if c.start_hidden { "stale_ticker" } else { "harness" }, "the steady ticker painted only {} frames{}", frames.len(), if c.start_hidden { " after the bar that was hidden when it started got the terminal" } else { "" });
    let mut v = Verdict::default();
    v.nontrivial = true;
    v.label("ticker_held_up_then_released");
    v.label_if(c.in_multi, "multi_progress_target");
    v.label_if(c.restart, "ticker_restarted_with_the_same_interval_after_finish_and_reset");
    v.label_if(c.start_hidden, "ticker_started_while_the_bar_was_hidden");
    v.label_if(slow_ticker_text, "text_update_between_two_ticks_of_a_slow_ticker");
    Ok(v)
}

#[derive(Debug, Clone, Serialize, Deserialize)]
pub struct BusyCase {
    incs: u8,
    flush_ms: u8,
    gap_ms: u8,
    via: u8,
}

/// A position update that arrives while another thread is painting is still a redraw request: once
/// both threads are done the last frame shows the final position (burst of 10 never used up here).
fn run_busy(c: &BusyCase) -> CaseResult {
    use std::time::Duration;
    let term = TimedTerm { flushes: Default::default(), cur: Default::default(), slow: Duration::from_millis(5 + c.flush_ms as u64 % 20) };
    let pb = ProgressBar::with_draw_target(Some(1000), ProgressDrawTarget::term_like_with_hz(Box::new(term.clone()), 255));
    pb.set_style(ProgressStyle::with_template("P{pos} {msg}").unwrap());
    pb.tick();
    let n = 1 + c.incs as u64 % 5;
    std::thread::scope(|s| {
        let a = pb.clone();
        s.spawn(move || {
            for k in 0..3 {
                a.set_message(format!("m{k}"));
            }
        });
        let b = pb.clone();
        let (gap, via) = (Duration::from_millis(c.gap_ms as u64 % 12), c.via);
        s.spawn(move || {
            std::thread::sleep(Duration::from_millis(2));
            for k in 1..=n {
                match via % 3 {
                    0 => b.inc(1),
                    1 => b.set_position(k),
                    _ => {
                        b.inc(2);
                        b.dec(1)
                    }
                }
                std::thread::sleep(gap);
            }
        });
    });
    // (more than 4 ms after the last frame: the refresh interval of a 255 Hz target has passed as well)
    let last = term.flushes.lock().unwrap().last().cloned();
    let shown = last.as_ref().map(|f| f.1.clone()).unwrap_or_default();
    ensure!(pb.position() == n, "harness", "position {}", pb.position());
    let want = format!("P{n} ");
    ensure!(
        shown.starts_with(&want),
        "stale_position_contended",
        "{n} position update(s) (kind {}) arrived while another thread was painting (flush takes {:?}); both threads are done, the last frame shows {shown:?} but the position is {n}",
        c.via % 3,
        term.slow
    );
    let mut v = Verdict::default();
    v.nontrivial = true;
    v.label("position_update_meets_busy_bar");
    Ok(v)
}

pub fn property() -> Property {
    let w = default_workers();
    Property {
        id: "C05",
        level: "exploration",
        assumptions: &[
            "time is the harness's virtual monotonic clock; every frame in these sequences is caused by an ordinary (non-forced) request",
            "refresh interval = 1/R s; a gap measured in whole nanoseconds is 'at least one interval' iff it is >= ceil(1e9/R) ns",
            "only the stated laws are checked (window bound, staleness bound, nothing lost); the exact allow/deny decisions of the token bucket are not predicted",
        ],
        parts: vec![
            Box::new(Gen::<RateCase> {
                name: "frames",
                rule: "refresh rate from {1,3,7,20,30,60,255} or 1..=255; standalone term_like_with_hz, first bar of a MultiProgress, two bars of a MultiProgress alternating, or a MultiProgress that is created hidden and given the terminal after its members were added (six further members that render nothing are finished and dropped on request, so that dropped-but-listed members reach the head of the list while ordinary requests arrive); 30-400 (thorough 2000) ordinary requests (tick/set_message/set_length/inc/inc(0)/set_position/dec/update(set_pos) with monotone payloads; enable_steady_tick(0) and disable_steady_tick() without a ticker interleaved as calls that request nothing; update() of one bar whose closure takes time and ticks the other bar, so that requests reach the shared limiter with time stamps out of order) at gaps from {0, ns, <1 ms, k*interval +-1 ns for k<25, interval/2, ms, s, hours}; window law via the running minimum of k*1e9 - R*t_k, staleness law per request, every painted frame compared with the latest state of all drawn bars; non-trivial = skipped and painted draws and a gap at an interval multiple",
                strategy: rate_strategy,
                cases: |t| t.pick(1_500, 48_000),
                run: run_rate,
                signature: no_signature,
                essential: &["skipped_draw", "burst_exhausted", "gap_at_interval_multiple", "refill_after_long_gap", "multi_progress_target", "reset_of_a_finished_bar", "length_unset_and_set_again"],
                workers: w,
                decode: Some(decode_rate),
            }),
            Box::new(Gen::<PosCase> {
                name: "position_bucket",
                rule: "30-400 (thorough 2000) inc/set_position/dec calls on an unlimited target (every position-triggered tick paints) at gaps from 0 to 50 ms and occasionally a whole multiple of 256 ms: at most 10 + T/1ms + 1 redraws per window, an update >= 1 ms after the last one is redrawn, position() exact, the redraw sees the latest position",
                strategy: |t| {
                    let n = t.pick(400, 2000);
                    let call = prop_oneof![12 => Just(Call::Inc), 2 => Just(Call::SetPosition), 2 => Just(Call::Dec), 1 => Just(Call::Reset)];
                    let gap = prop_oneof![40 => gap_strategy(), 1 => any::<u16>().prop_map(Gap::Secs)];
                    proptest::collection::vec((gap, call), 30..n).prop_map(|gaps| PosCase { gaps }).boxed()
                },
                cases: |t| t.pick(1_000, 32_000),
                run: run_pos,
                signature: no_signature,
                essential: &["update_throttled", "burst_exhausted", "reset_interleaved", "multiple_of_256_ms_after_the_burst_was_used_up"],
                workers: w,
                decode: None,
            }),
            Box::new(Gen::<TickerCase> {
                name: "ticker_requests",
                rule: "real clock: a steady ticker (1-4 ms) on a 20-200 Hz target (stand-alone or MultiProgress) runs 120 ms, is held up by suspend() for 200-700 ms and runs 150 ms more; in half of the cases the bar is then finished, reset and given a ticker with the same interval again (it must be redrawn again); the real flush instants must satisfy the window bound 20 + R*T + 1 (slack 12 for scheduling delays)",
                strategy: |_| (20u8..=200, 0u8..4, any::<u16>(), any::<bool>()).prop_map(|(rate, tick_ms, stall_ms, in_multi)| TickerCase { rate, tick_ms, stall_ms, in_multi, restart: stall_ms % 2 == 0, start_hidden: stall_ms % 3 == 0 }).boxed(),
                cases: |t| t.pick(2, 60),
                run: run_ticker,
                signature: no_signature,
                essential: &["ticker_held_up_then_released", "ticker_restarted_with_the_same_interval_after_finish_and_reset", "ticker_started_while_the_bar_was_hidden", "text_update_between_two_ticks_of_a_slow_ticker"],
                workers: 6,
                decode: None,
            }),
            Box::new(Gen::<BusyCase> {
                name: "busy_bar",
                rule: "real threads: while one thread repaints through a terminal whose flush takes 5-24 ms, another issues 1-5 inc/set_position/inc+dec calls; after both are done the last painted frame must show the final position",
                strategy: |_| (any::<u8>(), any::<u8>(), any::<u8>(), 0u8..3).prop_map(|(incs, flush_ms, gap_ms, via)| BusyCase { incs, flush_ms, gap_ms, via }).boxed(),
                cases: |t| t.pick(4, 200),
                run: run_busy,
                signature: no_signature,
                essential: &["position_update_meets_busy_bar"],
                workers: 8,
                decode: None,
            }),
        ],
    }
}
