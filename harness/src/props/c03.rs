//! C03 Printed log lines are never erased, duplicated or reordered.
use std::time::Duration;

use indicatif::{ProgressBar, ProgressDrawTarget};
use proptest::prelude::*;
use serde::{Deserialize, Serialize};

use crate::clock;
use crate::ensure;
use crate::hist::*;
use crate::multi::*;
use crate::props::c01::{self, BOp};
use crate::runner::*;
use crate::vterm::VTerm;

/// Token oracle: every emitted log line (unique token + padding) is on the terminal exactly once,
/// intact (all its wrapped rows, contiguous) and in emission order.
fn check_tokens(rows: &[String], log: &[String], cols: usize, ctx: &str) -> Result<usize, Fail> {
    let mut at = 0usize;
    for (n, line) in log.iter().enumerate() {
        if line.is_empty() {
            continue; // blank log lines carry no token: they are counted (see `check_blanks`)
        }
        let want = rows_of(std::slice::from_ref(line), cols);
        // exactly once: positions at which the line's wrapped rows occur
        let count = if want.len() <= rows.len() { (0..=rows.len() - want.len()).filter(|i| rows[*i..*i + want.len()] == want[..]).count() } else { 0 };
        let found = if want.len() <= rows.len() { (at..=rows.len() - want.len()).find(|i| rows[*i..*i + want.len()] == want[..]) } else { None };
        match found {
            Some(i) => at = i + want.len(),
            None => {
                let kind = if count == 0 { "log_erased_or_damaged" } else { "log_reordered" };
                return Err(Fail::new(kind, format!("{ctx}: log line #{n} {line:?} is not on the terminal (intact, after the previous ones); terminal rows {rows:?}; emitted so far {log:?}")));
            }
        }
        if count != 1 {
            return Err(Fail::new("log_duplicated", format!("{ctx}: token of log line #{n} {line:?} occurs {count} times; terminal rows {rows:?}")));
        }
    }
    Ok(at)
}

/// Blank log lines (`println("")`): every one emitted is on the terminal exactly once. No bar row of
/// the multi harness is ever blank, so the blank rows are counted.
fn check_blanks(rows: &[String], log: &[String], ctx: &str) -> Result<(), Fail> {
    let want = log.iter().filter(|l| l.is_empty()).count();
    // (the emulator reports no blank rows at the very end of the screen: blank lines that nothing follows yet
    // cannot be told from an untouched screen)
    let trailing = log.iter().rev().take_while(|l| l.is_empty()).count();
    let got = rows.iter().filter(|r| r.is_empty()).count();
    if got + trailing < want {
        return Err(Fail::new("log_erased_or_damaged", format!("{ctx}: {want} blank log line(s) were emitted ({trailing} of them last), the terminal holds {got} blank row(s); rows {rows:?}")));
    }
    if got > want {
        return Err(Fail::new("log_duplicated", format!("{ctx}: {want} blank log line(s) were emitted, the terminal holds {got} blank rows; rows {rows:?}")));
    }
    Ok(())
}

fn token_line(n: usize, pad: &str) -> String {
    // "~<n>~" ('~' occurs in no other generated text) + padding that keeps the requested length class
    // (digits only occur inside tokens: on a narrow terminal the wrapped rows of "~5~4" + "~6~" would otherwise
    // contain the rows of "~4~6" a second time)
    let p: String = pad.chars().filter(|c| c.is_ascii_alphanumeric()).map(|c| if c.is_ascii_digit() { (b'a' + (c as u8 - b'0')) as char } else { c }).collect();
    format!("~{n}~{p}")
}

/// Replace every log text of a multi history by unique token lines.
fn tokenize_multi(ops: &[MOp]) -> Vec<MOp> {
    let mut n = 0;
    let mut tok = |t: &str, keep_blank: bool| -> String {
        if t.is_empty() && keep_blank {
            return String::new(); // println(""): one blank line, counted instead of tagged
        }
        let lines: Vec<String> = println_lines(t)
            .iter()
            .map(|l| {
                n += 1;
                token_line(n, l)
            })
            .collect();
        // (log text may come with CRLF line ends - every third text does, with or without a final one)
        match (keep_blank, n % 6) {
            (true, 0) => lines.join("\r\n"),
            (true, 3) => lines.join("\r\n") + "\r\n",
            _ => lines.join("\n"),
        }
    };
    ops.iter()
        .map(|op| match op {
            MOp::MpPrintln(t) => MOp::MpPrintln(tok(t, true)),
            MOp::BarPrintln(s, t) => MOp::BarPrintln(*s, tok(t, true)),
            MOp::BarPrintlnUnwinding(s, t) => MOp::BarPrintlnUnwinding(*s, tok(t, false)),
            MOp::MpSuspend(ls) => MOp::MpSuspend(ls.iter().map(|l| tok(l, false)).collect()),
            MOp::BarSuspend(s, ls) => MOp::BarSuspend(*s, ls.iter().map(|l| tok(l, false)).collect()),
            o => o.clone(),
        })
        .collect()
}

fn run_multi(c: &MultiCase) -> CaseResult {
    let _clk = clock::Armed::new();
    let ops = tokenize_multi(&c.ops);
    let mut it = Interp::new(c);
    let mut v = Verdict::default();
    let mut skipped_draw = false;
    let mut zombie_present = false;
    let mut draws_after_log = 0;
    for (i, op) in ops.iter().enumerate() {
        clock::advance(Duration::from_millis(c.step_ms as u64));
        let log_before = it.model.log.len();
        let out = catch(|| it.step(op)).map_err(|p| Fail::new("panic", format!("op #{i} {op:?} panicked: {p}")))??;
        if let Some(Err(e)) = &out.io_result {
            return Err(Fail::new("io", format!("op #{i} {op:?} returned an error although the terminal never failed: {e}")));
        }
        if out.skipped {
            continue;
        }
        let ctx = format!("after op #{i} {op:?} ({}x{} terminal, hz {:?}, step {} ms, ops {:?})", it.rows, it.cols, c.hz, c.step_ms, &ops[..=i]);
        // also at every flush of this op (prefix of the log that existed then)
        for fr in &out.frames {
            let upto = if matches!(op, MOp::MpSuspend(_) | MOp::BarSuspend(..)) && std::ptr::eq(fr, &out.frames[0]) { log_before } else if it.pending_text { it.pending_from } else { it.model.log.len() };
            check_tokens(&fr.rows, &it.model.log[..upto], it.cols, &ctx).map_err(|f| sig_kind(f, &it))?;
        }
        // what was written has also been flushed: on a buffering terminal (the default stderr target is one)
        // a line that is written but not flushed is not on the terminal yet
        ensure!(it.vt.unflushed() == 0, "log_not_flushed", "{ctx}: the call returned with {} write(s) that were never flushed", it.vt.unflushed());
        let rows = it.vt.rows();
        // (a line printed while the thread was unwinding is painted by the next draw; until then it is pending)
        let shown = if it.pending_text { it.pending_from } else { it.model.log.len() };
        v.label_if(it.pending_text, "line_printed_while_unwinding_pending");
        let end = check_tokens(&rows, &it.model.log[..shown], it.cols, &ctx).map_err(|f| sig_kind(f, &it))?;
        if !it.model.bottom_ever {
            check_blanks(&rows, &it.model.log[..shown], &ctx).map_err(|f| sig_kind(f, &it))?;
        }
        // above the progress region: no live member's row above the last log row
        if !out.frames.is_empty() {
            for e in it.model.entries.iter().filter(|e| !e.zombie) {
                let tag = format!("B{}:", e.tag);
                if let Some(r) = rows.iter().position(|r| r.starts_with(&tag)) {
                    if r < end && matches!(op, MOp::MpPrintln(_) | MOp::BarPrintln(..)) && !it.model.bottom_ever {
                        return Err(Fail::new("log_below_bar", format!("{ctx}: live bar {tag} is painted above a log line; rows {rows:?}")));
                    }
                }
            }
        }
        let drawing = matches!(op, MOp::Tick(_) | MOp::Inc(..) | MOp::SetMessage(..));
        if drawing && out.frames.is_empty() && it.model.log.len() > 0 {
            skipped_draw = true;
        }
        if !out.frames.is_empty() && !it.model.log.is_empty() && it.model.log.len() == log_before {
            draws_after_log += 1;
        }
        zombie_present |= it.model.entries.iter().any(|e| e.zombie) || !it.model.blocks.is_empty();
        v.label_if(out.note == "bar_println", "bar_println");
    }
    it.teardown()?;
    let rows = it.vt.rows();
    // (a line still pending when everything is dropped: the final draws of dropped bars paint it, but a
    // program whose bars are all finished or gone never draws again - only the lines shown before are required)
    let shown = if it.pending_text { it.pending_from } else { it.model.log.len() };
    check_tokens(&rows, &it.model.log[..shown], it.cols, "after dropping everything").map_err(|f| sig_kind(f, &it))?;
    v.nontrivial = it.model.log.len() >= 2 && draws_after_log >= 1 && (skipped_draw || zombie_present);
    v.label_if(skipped_draw, "skipped_draw");
    v.label_if(zombie_present, "zombie_or_retained_block");
    v.label_if(it.model.log.len() >= 2, "two_log_lines");
    v.label_if(it.model.log.iter().any(|l| console::measure_text_width(l) > it.cols), "log_wraps");
    v.label_if(c.hz.is_some() && c.step_ms == 0, "frozen_clock_rate_limited");
    v.label_if(it.rows <= 8, "terminal_of_at_most_8_rows");
    v.label_if(it.model.log.iter().any(|l| l.is_empty()), "blank_log_line");
    Ok(v)
}

fn sig_kind(f: Fail, it: &Interp) -> Fail {
    if it.model.bottom_ever {
        Fail::new("log_bottom_alignment", f.msg)
    } else if it.stale_reap_seen {
        Fail::new("log_stale_reap", f.msg)
    } else {
        f
    }
}

/// The two recorded C02 findings also damage log lines; same signatures.
fn multi_signature(c: &MultiCase) -> Option<&'static str> {
    crate::props::c02::signature(c)
}

fn multi_strategy(tier: Tier) -> BoxedStrategy<MultiCase> {
    let n = tier.pick(30, 50);
    // scenario prefix named by the statement: a non-first bar finishes and is dropped before the
    // first, ticks while it waits to be reaped, then println / bar println / clear
    let leave = |msg: &str| BarSpec { two_lines: false, len: Some(5), on_finish: 0, msg: msg.to_string(), key_nl: false, blank_first: 0 };
    let prefix = (0usize..4).prop_map(move |k| {
        let mut v = vec![MOp::Add(leave("")), MOp::Add(leave("")), MOp::MpPrintln("first".into()), MOp::Tick(0), MOp::Tick(40000)];
        match k {
            0 => v.extend([MOp::Finish(40000), MOp::Drop(40000), MOp::Tick(0), MOp::Tick(0), MOp::MpPrintln("second".into()), MOp::Finish(0), MOp::Drop(0), MOp::MpPrintln("third".into())]),
            1 => v.extend([MOp::Finish(0), MOp::Drop(0), MOp::BarPrintln(0, "second".into()), MOp::MpPrintln("third".into())]),
            2 => {
                // exhaust the refresh limiter (burst of 20) so that the following ticks are skipped
                v.extend(std::iter::repeat(MOp::Tick(0)).take(22));
                v.extend([MOp::Drop(40000), MOp::Tick(0), MOp::Tick(0), MOp::Tick(0), MOp::MpClear, MOp::MpPrintln("second".into())]);
            }
            _ => {}
        }
        v
    });
    (
        4u8..=14,
        8u8..=30,
        proptest::option::weighted(0.7, prop_oneof![Just(1u8), Just(2), Just(20), Just(60), Just(255)]),
        prop_oneof![2 => Just(0u32), 1 => Just(1u32), 1 => Just(20u32), 1 => Just(2000u32)],
        // a quarter of the cases on a terminal of 1-8 rows: the bars (some wrapping) exceed its height
        prop_oneof![3 => Just(0u8), 1 => 1u8..=8],
    )
        .prop_flat_map(move |(rows, cols, hz, step_ms, tiny)| (Just((rows, cols, hz, step_ms, tiny)), prefix.clone(), proptest::collection::vec(mop_strategy(cols as usize, true), 0..n)))
        .prop_map(|((rows, cols, hz, step_ms, tiny), mut pre, ops)| {
            pre.extend(ops);
            // most cases keep every frame within the terminal height by using a tall terminal (the small
            // `rows` value only shortens it a little so that log lines scroll)
            let rows = if tiny > 0 { tiny } else { rows + 40 };
            MultiCase { rows, cols: cols as u16, hz, step_ms, ops: pre, final_drops: vec![] }
        })
        .boxed()
}

// ------------------------------------------------------------------------------------------
// a flush that fails after the text was written

#[derive(Debug, Clone, Serialize, Deserialize)]
pub struct LateFaultCase {
    multi: MultiCase,
    /// the `at`-th flush of the history and the `n - 1` flushes after it fail (everything written before a
    /// flush has reached the terminal)
    at: u8,
    n: u8,
    kind: u8,
}

/// Whatever else a failing terminal may cost: a line that did reach the terminal is never painted a
/// second time by a later draw.
fn run_late_fault(c: &LateFaultCase) -> CaseResult {
    use crate::vterm::{FaultMode, FaultPlan};
    let _clk = clock::Armed::new();
    let ops = tokenize_multi(&c.multi.ops);
    let mut it = Interp::new(&c.multi);
    let kinds = [std::io::ErrorKind::Other, std::io::ErrorKind::BrokenPipe, std::io::ErrorKind::WouldBlock, std::io::ErrorKind::Interrupted];
    it.vt.set_fault(Some(FaultPlan { at: c.at as usize, mode: FaultMode::Flushes(c.n.max(1)), kind: kinds[c.kind as usize % kinds.len()], os_code: None, bare: false }));
    let mut v = Verdict::default();
    let mut text_after_fault = false;
    for (i, op) in ops.iter().enumerate() {
        clock::advance(Duration::from_millis(c.multi.step_ms as u64));
        let fired_before = it.vt.lock().faults_fired;
        let out = catch(|| it.step(op)).map_err(|p| Fail::new("panic", format!("op #{i} {op:?} panicked: {p} (flushes {}..{} fail, ops {:?})", c.at, c.at as usize + c.n.max(1) as usize, &ops[..=i])))??;
        if out.skipped {
            continue;
        }
        let fired = it.vt.lock().faults_fired;
        let rows = it.vt.rows();
        for (n, line) in it.model.log.iter().enumerate() {
            let Some(token) = line.strip_prefix('~').and_then(|l| l.split('~').next()).map(|t| format!("~{t}~")) else { continue };
            let count = rows.iter().filter(|r| r.contains(&token)).count();
            ensure!(
                count <= 1,
                "log_duplicated_after_late_fault",
                "after op #{i} {op:?}: log line #{n} {line:?} is on the terminal {count} times; {fired} flush(es) failed so far (flushes {}..{} fail); terminal rows {rows:?}; ops {:?}",
                c.at,
                c.at as usize + c.n.max(1) as usize,
                &ops[..=i]
            );
        }
        if fired > fired_before && matches!(op, MOp::MpPrintln(_) | MOp::BarPrintln(..)) {
            v.label("flush_failed_in_a_draw_that_printed_text");
            text_after_fault = true;
        }
    }
    it.teardown()?;
    let fired = it.vt.lock().faults_fired;
    v.nontrivial = text_after_fault;
    v.label_if(fired > 0, "flush_failed");
    v.label_if(fired > 1, "several_flushes_failed");
    Ok(v)
}

fn late_fault_strategy(tier: Tier) -> BoxedStrategy<LateFaultCase> {
    (multi_strategy(tier), 0u8..40, 1u8..4, 0u8..4).prop_map(|(multi, at, n, kind)| LateFaultCase { multi, at, n, kind }).boxed()
}

// ------------------------------------------------------------------------------------------
// single bar, rate limited

#[derive(Debug, Clone, Serialize, Deserialize)]
pub struct SingleCase {
    rows: u8,
    cols: u8,
    hz: Option<u8>,
    step_ms: u32,
    tpl: STpl,
    ops: Vec<BOp>,
    /// exhaust the refresh limiter first (25 ticks at the creation instant)
    #[serde(default)]
    burn: bool,
}

fn run_single(c: &SingleCase) -> CaseResult {
    let _clk = clock::Armed::new();
    let (rows, cols) = (c.rows.max(1) as usize, c.cols.max(1) as usize);
    let vt = VTerm::new(rows, cols).with_snapshots();
    let target = match c.hz {
        Some(hz) => ProgressDrawTarget::term_like_with_hz(vt.boxed(), hz.max(1)),
        None => ProgressDrawTarget::term_like(vt.boxed()),
    };
    let mut st = BarState::new(Some(10), c.tpl.clone());
    let mut v = Verdict::default();
    if height_of(&st.frame(), cols) > rows {
        return Ok(v);
    }
    let pb = ProgressBar::with_draw_target(Some(10), target);
    pb.set_style(c.tpl.style());
    if c.burn {
        for _ in 0..25 {
            pb.tick();
        }
        vt.take_frames();
    }
    let mut log: Vec<String> = vec![];
    let mut n = 0;
    let mut skipped_draw = false;
    let mut text_while_empty = false;
    let mut draws_after_log = 0;
    for (i, op) in c.ops.iter().enumerate() {
        // unique tokens instead of the generated log texts
        let op = match op {
            BOp::Println(t) => {
                let j = println_lines(t)
                    .iter()
                    .map(|l| {
                        n += 1;
                        token_line(n, l)
                    })
                    .collect::<Vec<_>>()
                    .join("\n");
                // (log text may come with CRLF line ends, with or without a final one)
                BOp::Println(match n % 6 {
                    0 => j.replace('\n', "\r\n"),
                    3 => j.replace('\n', "\r\n") + "\r\n",
                    _ => j,
                })
            }
            BOp::Suspend(ls) => BOp::Suspend(
                ls.iter()
                    .map(|l| {
                        n += 1;
                        token_line(n, l)
                    })
                    .collect(),
            ),
            o => o.clone(),
        };
        let next = c01::apply_model(&st, &op);
        if height_of(&next.frame(), cols) > rows {
            continue;
        }
        clock::advance(Duration::from_millis(c.step_ms as u64));
        let before = log.len();
        catch(|| c01::exec(&pb, &vt, &op)).map_err(|p| Fail::new("panic", format!("op #{i} {op:?} panicked: {p}")))?;
        st = next;
        match &op {
            BOp::Println(t) => log.extend(println_lines(t)),
            BOp::Suspend(l) => log.extend(l.iter().cloned()),
            _ => {}
        }
        let frames = vt.take_frames();
        let ctx = format!("after op #{i} {op:?} ({rows}x{cols} terminal, hz {:?}, step {} ms, ops {:?})", c.hz, c.step_ms, &c.ops[..=i]);
        for (k, fr) in frames.iter().enumerate() {
            let upto = if matches!(op, BOp::Suspend(_)) && k == 0 { before } else { log.len() };
            check_tokens(&fr.rows, &log[..upto], cols, &ctx)?;
        }
        ensure!(vt.unflushed() == 0, "log_not_flushed", "{ctx}: the call returned with {} write(s) that were never flushed", vt.unflushed());
        check_tokens(&vt.rows(), &log, cols, &ctx)?;
        if frames.is_empty() && matches!(op, BOp::Tick | BOp::Inc(_) | BOp::SetMessage(_) | BOp::SetPrefix(_)) {
            skipped_draw = true;
        }
        if matches!(op, BOp::Println(_)) && st.frame().is_empty() {
            text_while_empty = true;
        }
        if !frames.is_empty() && log.len() == before && !log.is_empty() {
            draws_after_log += 1;
        }
    }
    drop(pb);
    check_tokens(&vt.rows(), &log, cols, "after dropping the bar")?;
    v.nontrivial = log.len() >= 2 && draws_after_log >= 1 && (skipped_draw || text_while_empty);
    v.label_if(skipped_draw, "skipped_draw");
    v.label_if(text_while_empty, "println_while_frame_empty");
    v.label_if(log.len() >= 2, "two_log_lines");
    Ok(v)
}

fn single_strategy(tier: Tier) -> BoxedStrategy<SingleCase> {
    let n = tier.pick(24, 40);
    (2u8..=10, prop_oneof![1 => 2u8..5, 4 => 5u8..=30])
        .prop_flat_map(move |(rows, cols)| {
            (
                Just(rows),
                Just(cols),
                proptest::option::weighted(0.75, prop_oneof![Just(1u8), Just(3), Just(20), Just(255)]),
                prop_oneof![2 => Just(0u32), 1 => Just(1u32), 1 => Just(30u32), 1 => Just(5000u32)],
                stpl_strategy(),
                proptest::collection::vec(c01::bop_strategy(cols as usize), 0..n),
                any::<bool>(),
            )
        })
        .prop_map(|(rows, cols, hz, step_ms, tpl, ops, burn)| SingleCase { rows, cols, hz, step_ms, tpl, ops, burn })
        .boxed()
}

fn decode_c03_multi(u: &mut FuzzInput) -> MultiCase {
    let mut c = decode_multi(u, 0);
    c.rows = 44 + u.n(10) as u8;
    c.cols = 8 + u.n(22) as u16;
    c.hz = if u.n(3) == 0 { None } else { Some([1u8, 2, 20, 60, 255][u.n(4)]) };
    c.step_ms = [0u32, 0, 1, 20, 2000][u.n(4)];
    // limiter exhausted first, as in the generated scenarios
    let mut pre = vec![MOp::Add(BarSpec { two_lines: false, len: Some(5), on_finish: 0, msg: String::new(), key_nl: false, blank_first: 0 }), MOp::Add(BarSpec { two_lines: false, len: Some(5), on_finish: 0, msg: String::new(), key_nl: false, blank_first: 0 })];
    pre.extend(std::iter::repeat(MOp::Tick(0)).take(22));
    pre.append(&mut c.ops);
    c.ops = pre;
    c
}

fn decode_c03_single(u: &mut FuzzInput) -> SingleCase {
    let b = c01::decode_case(u);
    SingleCase {
        rows: b.rows.max(2),
        cols: b.cols.max(2),
        hz: if u.n(3) == 0 { None } else { Some([1u8, 3, 20, 255][u.n(3)]) },
        step_ms: [0u32, 0, 1, 30, 5000][u.n(4)],
        tpl: b.tpl,
        ops: b.ops,
        burn: u.bool(),
    }
}

pub fn property() -> Property {
    let w = default_workers();
    Property {
        id: "C03",
        level: "exploration",
        assumptions: &[
            "every log line carries a unique token; the oracle only looks for these lines (intact wrapped rows, once, in order) and is indifferent to what the bars look like",
            "suspend closures write whole lines through the same terminal",
            "the recorded bottom-alignment finding of C02 also erases log lines and is excluded by the same signature (empty suspend lines cannot occur here: every line carries a token)",
        ],
        parts: vec![
            Box::new(Gen::<MultiCase> {
                name: "multi",
                rule: "MultiProgress histories (alphabet of C02 plus clock waits) on targets with refresh rate None/1/2/20/60/255 and a clock step of 0 (frozen: every limiter stays exhausted), 1, 20 or 2000 ms, each starting with one of the scenarios the statement names (non-first bar finished and dropped first, bar-level println after a reaped bar, skipped ticks while a dropped bar waits, then println/clear); after every op and at every flush each emitted token line must be on the terminal intact, once and in order; non-trivial = >=2 log lines, a draw after them, and a skipped draw or a dropped/retained bar",
                strategy: multi_strategy,
                cases: |t| t.pick(12_000, 800_000),
                run: run_multi,
                signature: multi_signature,
                essential: &["skipped_draw", "zombie_or_retained_block", "two_log_lines", "log_wraps", "frozen_clock_rate_limited", "bar_println"],
                workers: w,
                decode: Some(decode_c03_multi),
            }),
            Box::new(Gen::<LateFaultCase> {
                name: "late_fault",
                rule: "the multi histories again on a terminal whose k-th flush (k < 40) and up to two flushes after it fail with one of four error kinds - everything written before a flush has reached the screen: after every op no emitted token line is on the terminal more than once (a line that did get painted must not be painted again by a later draw); non-trivial = a flush failed in a draw that printed text",
                strategy: late_fault_strategy,
                cases: |t| t.pick(6_000, 400_000),
                run: run_late_fault,
                signature: no_signature,
                essential: &["flush_failed", "several_flushes_failed", "flush_failed_in_a_draw_that_printed_text"],
                workers: w,
                decode: None,
            }),
            Box::new(Gen::<SingleCase> {
                name: "single",
                rule: "single-bar histories of C01 on rate-limited targets (1/3/20/255 Hz or unlimited) with clock steps 0/1/30/5000 ms and tokenised println/suspend lines; same token oracle; non-trivial = >=2 log lines, a draw after them, and a skipped draw or a println while the frame is empty",
                strategy: single_strategy,
                cases: |t| t.pick(12_000, 800_000),
                run: run_single,
                signature: no_signature,
                essential: &["skipped_draw", "println_while_frame_empty", "two_log_lines"],
                workers: w,
                decode: Some(decode_c03_single),
            }),
        ],
    }
}
