//! C11 Placeholder values reflect the bar state at draw time.
use std::sync::{Arc, Mutex};
use std::time::{Duration, Instant};

use indicatif::style::ProgressTracker;
use indicatif::{
    BinaryBytes, DecimalBytes, FormattedDuration, HumanBytes, HumanCount, HumanDuration, HumanFloatCount, ProgressBar,
    ProgressDrawTarget, ProgressState, ProgressStyle,
};
use proptest::prelude::*;
use serde::{Deserialize, Serialize};

use crate::clock;
use crate::ensure;
use crate::model::{self, Align};
use crate::props::c07::special_u64;
use crate::runner::*;
use crate::vterm::VTerm;

const COLS: usize = 120;
const TICKS: [&str; 5] = ["t0", "t1", "t2", "t3", "FIN"];
/// a second set with another cycle length (installed by Op::OtherTicks)
const TICKS2: [&str; 8] = ["u0", "u1", "u2", "u3", "u4", "u5", "u6", "END"];

#[derive(Default, Debug, Clone)]
struct Seen {
    ticks: u64,
    resets: u64,
    /// state seen by the last `write`
    pos: u64,
    len: Option<u64>,
    finished: bool,
    fraction: f32,
    writes: u64,
    /// state seen by the last `tick`
    tick_pos: u64,
    /// what the state's estimator methods returned inside the last `tick`
    tick_rate_bits: u64,
    tick_eta: Duration,
    /// state seen by the last `reset`: (position, finished)
    reset_saw: Option<(u64, bool)>,
}

#[derive(Clone)]
struct Tracker(Arc<Mutex<Seen>>);

impl ProgressTracker for Tracker {
    fn clone_box(&self) -> Box<dyn ProgressTracker> {
        Box::new(self.clone())
    }
    fn tick(&mut self, state: &ProgressState, _now: Instant) {
        let mut s = self.0.lock().unwrap();
        s.ticks += 1;
        s.tick_pos = state.pos();
        s.tick_rate_bits = state.per_sec().to_bits();
        s.tick_eta = state.eta();
    }
    fn reset(&mut self, state: &ProgressState, _now: Instant) {
        let mut s = self.0.lock().unwrap();
        s.resets += 1;
        s.reset_saw = Some((state.pos(), state.is_finished()));
    }
    fn write(&self, state: &ProgressState, w: &mut dyn std::fmt::Write) {
        let mut s = self.0.lock().unwrap();
        s.pos = state.pos();
        s.len = state.len();
        s.finished = state.is_finished();
        s.fraction = state.fraction();
        s.writes += 1;
        let _ = write!(w, "T{}R{}", s.ticks, s.resets);
    }
}

#[derive(Debug, Clone, Serialize, Deserialize)]
pub enum Op {
    Inc(u64),
    Dec(u64),
    SetPos(u64),
    Update(u64),
    SetLen(u64),
    UnsetLen,
    IncLen(u64),
    SetMessage(String),
    SetPrefix(String),
    Tick,
    Reset,
    ResetEta,
    /// reset_elapsed(): only elapsed() starts again - the bar is not reset, and neither are its custom keys
    ResetElapsed,
    Finish,
    FinishWithMessage(String),
    Abandon,
    AbandonWithMessage(String),
    SetTabWidth(u8),
    /// set_style with the same style but the other set of tick strings (another cycle length): the spinner
    /// shows string number (ticks so far) mod (new cycle)
    OtherTicks,
    /// the bar's style goes through another bar with this tab width (set_style there, style() back) before
    /// it is installed again: what a custom key writes is still expanded at the drawing bar's tab width
    StyleViaOtherBar(u8),
}

#[derive(Debug, Clone, Serialize, Deserialize)]
pub struct KeyCase {
    len: Option<u64>,
    start: u64,
    /// (gap in ms before the op, op)
    ops: Vec<(u64, Op)>,
}

fn template() -> String {
    let plain = [
        "pos", "human_pos", "len", "human_len", "percent", "percent_precise", "bytes", "total_bytes", "decimal_bytes",
        "decimal_total_bytes", "binary_bytes", "binary_total_bytes", "elapsed_precise", "elapsed", "per_sec", "bytes_per_sec",
        "decimal_bytes_per_sec", "binary_bytes_per_sec", "eta_precise", "eta", "duration_precise", "duration", "msg", "prefix",
        "spinner", "trk", "tabkey",
    ];
    let mut t = String::new();
    for k in plain {
        t.push_str(&format!("{k}=<{{{k}}}>\n"));
    }
    t.push_str("pos7=<{pos:>7}>\nlen7=<{len:7}>\nper_sec3=<{per_sec:3}>\nmsg5=<{msg:^5!}>\nwide_msg=<{wide_msg}>\nbar=<{bar:10}>\nwide_bar=<{wide_bar}>");
    t
}

fn field<'a>(lines: &'a [String], name: &str) -> Result<&'a str, Fail> {
    let pre = format!("{name}=<");
    lines
        .iter()
        .find_map(|l| l.strip_prefix(pre.as_str()).and_then(|r| r.strip_suffix('>')))
        .ok_or_else(|| Fail::new("harness", format!("no line for key {name} in {lines:?}")))
}

fn gap_strategy() -> BoxedStrategy<u64> {
    prop_oneof![4 => 1u64..50, 3 => 50u64..5_000, 2 => 5_000u64..600_000, 1 => 600_000u64..200_000_000].boxed()
}

fn op_strategy() -> BoxedStrategy<Op> {
    let small = || prop_oneof![3 => 0u64..100, 1 => special_u64()];
    prop_oneof![
        6 => small().prop_map(Op::Inc),
        1 => small().prop_map(Op::Dec),
        2 => small().prop_map(Op::SetPos),
        1 => small().prop_map(Op::Update),
        2 => prop_oneof![3 => 0u64..1000, 1 => special_u64()].prop_map(Op::SetLen),
        1 => Just(Op::UnsetLen),
        1 => small().prop_map(Op::IncLen),
        2 => "[a-zA-Z \t]{0,12}".prop_map(Op::SetMessage),
        1 => "[a-z\t]{0,6}".prop_map(Op::AbandonWithMessage),
        1 => (0u8..12).prop_map(Op::SetTabWidth),
        1 => "[a-z]{0,4}".prop_map(Op::SetPrefix),
        3 => Just(Op::Tick),
        1 => Just(Op::Reset),
        1 => Just(Op::ResetEta),
        1 => Just(Op::ResetElapsed),
        1 => Just(Op::Finish),
        1 => "[a-z\t]{0,6}".prop_map(Op::FinishWithMessage),
        1 => Just(Op::Abandon),
        1 => Just(Op::OtherTicks),
        1 => (0u8..12).prop_map(Op::StyleViaOtherBar),
    ]
    .boxed()
}

fn case_strategy(tier: Tier) -> BoxedStrategy<KeyCase> {
    let n = tier.pick(16, 40);
    (
        proptest::option::weighted(0.85, prop_oneof![3 => 0u64..1000, 2 => special_u64()]),
        prop_oneof![3 => Just(0u64), 1 => 0u64..100, 1 => special_u64()],
        proptest::collection::vec((gap_strategy(), op_strategy()), 0..n),
    )
        .prop_map(|(len, start, ops)| KeyCase { len, start, ops })
        .boxed()
}

fn run_keys(c: &KeyCase) -> CaseResult {
    let _clk = clock::Armed::new();
    let vt = VTerm::raw(500, COLS);
    let seen = Arc::new(Mutex::new(Seen::default()));
    let unshown = Arc::new(Mutex::new(Seen::default()));
    let style = ProgressStyle::with_template(&template())
        .unwrap()
        .tick_strings(&TICKS)
        .progress_chars("#>-")
        // (a key registered twice: the later registration is the one in force)
        .with_key("trk", |_: &ProgressState, w: &mut dyn std::fmt::Write| {
            let _ = w.write_str("replaced");
        })
        .with_key("trk", Tracker(seen.clone()))
        .with_key("tabkey", |_: &ProgressState, w: &mut dyn std::fmt::Write| {
            let _ = w.write_str("a\tb");
        })
        // registered but not part of the template until the end of the case
        .with_key("trk_unshown", Tracker(unshown.clone()));
    let pb = ProgressBar::with_draw_target(c.len, ProgressDrawTarget::term_like(vt.boxed())).with_position(c.start);
    pb.set_style(style);
    let mut ticks = 0u64; // spinner ticks as defined by the API (tick, and every position update)
    let mut trk_ticks = 0u64; // lower bound of tracker tick notifications
    let mut resets = 0u64;
    let mut finished = false;
    let mut alt_ticks = false;
    let mut tab_width = 8usize;
    let mut raw_msg = String::new();
    let mut v = Verdict::default();
    let initial = (c.start, c.len);
    let mut changed = false;
    for (i, (gap, op)) in c.ops.iter().chain(std::iter::once(&(1u64, Op::Tick))).enumerate() {
        clock::advance(Duration::from_millis((*gap).max(2)));
        catch(|| match op {
            Op::Inc(d) => pb.inc(*d),
            Op::Dec(d) => pb.dec(*d),
            Op::SetPos(p) => pb.set_position(*p),
            Op::Update(p) => pb.update(|s| s.set_pos(*p)),
            Op::SetLen(l) => pb.set_length(*l),
            Op::UnsetLen => pb.unset_length(),
            Op::IncLen(d) => pb.inc_length(*d),
            Op::SetMessage(m) => pb.set_message(m.clone()),
            Op::SetPrefix(m) => pb.set_prefix(m.clone()),
            Op::Tick => pb.tick(),
            Op::Reset => pb.reset(),
            Op::ResetEta => pb.reset_eta(),
            Op::ResetElapsed => pb.reset_elapsed(),
            Op::Finish => pb.finish(),
            Op::FinishWithMessage(m) => pb.finish_with_message(m.clone()),
            Op::Abandon => pb.abandon(),
            Op::AbandonWithMessage(m) => pb.abandon_with_message(m.clone()),
            Op::SetTabWidth(w) => pb.set_tab_width(*w as usize),
            Op::OtherTicks => {
                let next: &[&str] = if alt_ticks { &TICKS } else { &TICKS2 };
                pb.set_style(pb.style().tick_strings(next));
            }
            Op::StyleViaOtherBar(w) => {
                let other = ProgressBar::with_draw_target(Some(1), ProgressDrawTarget::hidden()).with_tab_width(*w as usize);
                other.set_style(pb.style());
                pb.set_style(other.style());
            }
        })
        .map_err(|p| Fail::new("panic", format!("op #{i} {op:?} panicked: {p}")))?;
        match op {
            Op::Inc(_) | Op::Dec(_) | Op::SetPos(_) | Op::Update(_) | Op::Tick => {
                ticks += 1;
                trk_ticks += 1;
            }
            Op::SetLen(_) | Op::UnsetLen | Op::IncLen(_) | Op::SetMessage(_) | Op::SetPrefix(_) => trk_ticks += 1,
            Op::Reset => {
                resets += 1;
                finished = false;
            }
            Op::ResetEta | Op::ResetElapsed => {}
            Op::OtherTicks => alt_ticks = !alt_ticks,
            Op::StyleViaOtherBar(w) => v.label_if(*w as usize != tab_width, "style_taken_from_a_bar_with_another_tab_width"),
            Op::Finish | Op::FinishWithMessage(_) | Op::Abandon | Op::AbandonWithMessage(_) => finished = true,
            Op::SetTabWidth(w) => {
                tab_width = *w as usize;
                trk_ticks += 0;
            }
        }
        // draw now and read every getter at the same frozen instant
        catch(|| pb.force_draw()).map_err(|p| Fail::new("panic", format!("draw after op #{i} {op:?} panicked: {p}")))?;
        let lines = vt.last_frame_lines().map_err(|e| Fail::new("harness", e))?;
        let (pos, len_opt, msg, prefix, el, eta, dur, ps, fin) =
            (pb.position(), pb.length(), pb.message(), pb.prefix(), pb.elapsed(), pb.eta(), pb.duration(), pb.per_sec(), pb.is_finished());
        let len = len_opt.unwrap_or(pos);
        let s = seen.lock().unwrap().clone();
        let ctx = format!("after op #{i} {op:?} (pos {pos}, len {len_opt:?}, finished {fin})");
        ensure!(fin == finished, "harness", "{ctx}: model finished flag {finished}");
        macro_rules! eq {
            ($key:expr, $want:expr, $kind:expr) => {{
                let got = field(&lines, $key)?;
                let want: String = $want;
                ensure!(got == want, $kind, "{ctx}: {{{}}} rendered {:?}, the getter gives {:?}", $key, got, want);
            }};
        }
        eq!("pos", pos.to_string(), "pos_len");
        eq!("len", len.to_string(), "pos_len");
        eq!("human_pos", HumanCount(pos).to_string(), "pos_len");
        eq!("human_len", HumanCount(len).to_string(), "pos_len");
        eq!("bytes", HumanBytes(pos).to_string(), "bytes");
        eq!("binary_bytes", BinaryBytes(pos).to_string(), "bytes");
        eq!("decimal_bytes", DecimalBytes(pos).to_string(), "bytes");
        eq!("total_bytes", HumanBytes(len).to_string(), "bytes");
        eq!("binary_total_bytes", BinaryBytes(len).to_string(), "bytes");
        eq!("decimal_total_bytes", DecimalBytes(len).to_string(), "bytes");
        eq!("pos7", model::pad_first(&pos.to_string(), 7, Align::Right, false), "pos_len");
        eq!("len7", model::pad_first(&len.to_string(), 7, Align::Left, false), "pos_len");
        eq!("elapsed_precise", FormattedDuration(el).to_string(), "time");
        eq!("elapsed", format!("{:#}", HumanDuration(el)), "time");
        eq!("eta_precise", FormattedDuration(eta).to_string(), "time");
        eq!("eta", format!("{:#}", HumanDuration(eta)), "time");
        eq!("duration_precise", FormattedDuration(dur).to_string(), "time");
        eq!("duration", format!("{:#}", HumanDuration(dur)), "time");
        eq!("per_sec", format!("{}/s", HumanFloatCount(ps)), "rate");
        eq!("per_sec3", model::pad_first(&format!("{:.3}/s", HumanFloatCount(ps)), 3, Align::Left, false), "rate");
        eq!("bytes_per_sec", format!("{}/s", HumanBytes(ps as u64)), "rate");
        eq!("binary_bytes_per_sec", format!("{}/s", BinaryBytes(ps as u64)), "rate");
        eq!("decimal_bytes_per_sec", format!("{}/s", DecimalBytes(ps as u64)), "rate");
        if let Op::SetMessage(m) | Op::FinishWithMessage(m) | Op::AbandonWithMessage(m) = op {
            raw_msg = m.clone();
        }
        // the current message: the text handed over last, its TABs expanded at the bar's tab width
        let want_msg = model::expand_tabs(&raw_msg, tab_width);
        ensure!(msg == want_msg, "text", "{ctx}: message() = {msg:?}, the message set last is {raw_msg:?} (tab width {tab_width})");
        v.label_if(raw_msg.contains('\t') && tab_width != 8, "message_with_a_tab_at_a_non_default_tab_width");
        eq!("msg", msg.clone(), "text");
        eq!("prefix", prefix.clone(), "text");
        eq!("tabkey", format!("a{}b", " ".repeat(tab_width)), "custom_key_tab");
        {
            let got = field(&lines, "msg5")?;
            model::check_pad(&msg, 5, Align::Center, true, got).map_err(|m| Fail::new("text", format!("{ctx}: {{msg:^5!}}: {m}")))?;
            let got = field(&lines, "wide_msg")?;
            model::check_pad(&msg, COLS - "wide_msg=<>".len(), Align::Left, true, got).map_err(|m| Fail::new("text", format!("{ctx}: {{wide_msg}}: {m}")))?;
        }
        let set: &[&str] = if alt_ticks { &TICKS2 } else { &TICKS };
        let want_spin = if fin { set[set.len() - 1] } else { set[(ticks % (set.len() as u64 - 1)) as usize] };
        v.label_if(alt_ticks && ticks >= 4, "tick_strings_replaced_after_a_full_cycle");
        eq!("spinner", want_spin.to_string(), "spinner");
        // percent: nearest integer of 100*fraction (ties either way), fraction from the draw-time state
        ensure!(s.writes > 0, "tracker", "{ctx}: custom key was never written");
        let frac = s.fraction as f64;
        let want_frac = match len_opt {
            None => Some(0.0),
            Some(0) => Some(1.0),
            Some(l) if pos >= l => Some(1.0),
            Some(_) if pos == 0 => Some(0.0),
            Some(l) => {
                ensure!((frac - pos as f64 / l as f64).abs() <= 2e-7, "percent", "{ctx}: draw-time fraction {frac} is not pos/len");
                None
            }
        };
        if let Some(w) = want_frac {
            ensure!(frac == w, "percent", "{ctx}: draw-time fraction {frac}, expected {w}");
        }
        let p: f64 = field(&lines, "percent")?.parse().map_err(|_| Fail::new("percent", format!("{ctx}: {{percent}} is not a number: {lines:?}")))?;
        ensure!(p.fract() == 0.0 && (p - 100.0 * frac).abs() <= 0.5 + 1e-4, "percent", "{ctx}: {{percent}} = {p}, 100*fraction = {}", 100.0 * frac);
        let pp = field(&lines, "percent_precise")?;
        let ppv: f64 = pp.parse().map_err(|_| Fail::new("percent", format!("{ctx}: {{percent_precise}} = {pp:?}")))?;
        ensure!(
            pp.split_once('.').map_or(false, |(_, f)| f.len() == 3) && (ppv - 100.0 * frac).abs() <= 0.0005 + 1e-4,
            "percent",
            "{ctx}: {{percent_precise}} = {pp:?}, 100*fraction = {}",
            100.0 * frac
        );
        // custom key: saw the draw-time state, ticked and reset with the bar
        ensure!(
            s.pos == pos && s.len == len_opt && s.finished == fin,
            "tracker",
            "{ctx}: custom key was written with pos {} len {:?} finished {} instead of the current state",
            s.pos,
            s.len,
            s.finished
        );
        ensure!(s.ticks >= trk_ticks, "tracker", "{ctx}: custom key received {} tick notifications, the bar was ticked/updated {trk_ticks} times", s.ticks);
        ensure!(s.resets == resets, "tracker", "{ctx}: custom key received {} reset notifications for {resets} reset() calls (custom keys are reset together with the bar, and only then)", s.resets);
        if matches!(op, Op::Reset) {
            // reset together with the bar: the notification carries the state of the bar after the reset
            ensure!(s.reset_saw == Some((0, false)), "tracker", "{ctx}: the reset notification saw (position, finished) = {:?} instead of the reset bar (0, false)", s.reset_saw);
        }
        eq!("trk", format!("T{}R{}", s.ticks, s.resets), "tracker");
        if matches!(op, Op::Inc(_) | Op::Dec(_) | Op::SetPos(_) | Op::Update(_)) {
            ensure!(s.tick_pos == pos, "tracker", "{ctx}: the tick notification saw position {} instead of {pos}", s.tick_pos);
            // ... and the current estimate: the clock is frozen, so per_sec()/eta() of the state it was handed
            // are the getter values of this very instant
            ensure!(
                s.tick_rate_bits == ps.to_bits() && s.tick_eta == eta,
                "tracker",
                "{ctx}: the tick notification saw per_sec {} / eta {:?}, the getters give {ps} / {eta:?} at the same instant",
                f64::from_bits(s.tick_rate_bits),
                s.tick_eta
            );
        }
        // bar lines exist and have the stated width
        let bar = field(&lines, "bar")?;
        ensure!(console::measure_text_width(bar) == 10, "bar", "{ctx}: {{bar:10}} rendered {bar:?}");
        let wb = lines.iter().find(|l| l.starts_with("wide_bar=<")).cloned().unwrap_or_default();
        ensure!(console::measure_text_width(&wb) == COLS, "bar", "{ctx}: wide_bar line is {} columns wide on a {COLS}-column terminal", console::measure_text_width(&wb));
        changed |= (pos, len_opt) != initial || !msg.is_empty();
        v.label_if(len_opt.is_none(), "unknown_length");
        v.label_if(len_opt.map_or(false, |l| l < pos), "len_lt_pos");
        v.label_if(fin, "finished");
        v.label_if(eta > Duration::ZERO, "eta_nonzero");
        v.label_if(ps > 0.0, "rate_nonzero");
        v.label_if(el >= Duration::from_secs(3600), "elapsed_hours");
    }
    // a key that was registered all along but never shown: it was ticked and reset together with the bar,
    // and a template switch that keeps the trackers (style().template()) shows its current counters
    {
        let st = pb.style().template("unshown=<{trk_unshown}>").unwrap();
        pb.set_style(st);
        catch(|| pb.force_draw()).map_err(|p| Fail::new("panic", format!("draw after the template switch panicked: {p}")))?;
        let lines = vt.last_frame_lines().map_err(|e| Fail::new("harness", e))?;
        if !lines.is_empty() {
            let s = unshown.lock().unwrap().clone();
            ensure!(s.ticks >= trk_ticks, "tracker", "a custom key that is registered but not part of the template received {} tick notifications, the bar was ticked/updated {trk_ticks} times", s.ticks);
            ensure!(s.resets >= resets, "tracker", "a custom key that is registered but not part of the template received {} reset notifications for {resets} reset() calls", s.resets);
            let got = field(&lines, "unshown")?;
            ensure!(got == format!("T{}R{}", s.ticks, s.resets), "tracker", "after the template switch the formerly unshown key renders {got:?}, its counters are T{}R{}", s.ticks, s.resets);
            v.label("unshown_tracker_kept_up_to_date");
        }
    }
    // a custom key registered under the name of a built-in one is the one that is written (the crate's own
    // download example replaces {eta} like that); which names are shadowed is derived from the case
    {
        const NAMES: [&str; 14] = ["eta", "eta_precise", "elapsed", "elapsed_precise", "duration", "duration_precise", "per_sec", "bytes_per_sec", "pos", "len", "msg", "percent", "bytes", "bar"];
        let mask = c.start ^ (c.ops.len() as u64).wrapping_mul(0x9E37_79B9) ^ c.len.unwrap_or(77);
        let mut style = ProgressStyle::with_template(&NAMES.iter().map(|k| format!("{k}=<{{{k}}}>")).collect::<Vec<_>>().join("\n")).unwrap();
        let shadowed: Vec<&str> = NAMES.iter().enumerate().filter(|(i, _)| mask >> i & 1 == 1).map(|(_, k)| *k).collect();
        for k in &shadowed {
            let k2 = k.to_string();
            style = style.with_key(k, move |_: &ProgressState, w: &mut dyn std::fmt::Write| {
                let _ = write!(w, "custom:{k2}");
            });
        }
        {
            pb.set_style(style);
            catch(|| pb.force_draw()).map_err(|p| Fail::new("panic", format!("draw with shadowed keys {shadowed:?} panicked: {p}")))?;
            let lines = vt.last_frame_lines().map_err(|e| Fail::new("harness", e))?;
            if !lines.is_empty() {
                for k in NAMES {
                    let got = field(&lines, k)?;
                    if shadowed.contains(&k) {
                        ensure!(got == format!("custom:{k}"), "custom_key_shadowing", "custom key registered as {k:?} (shadowing the built-in key): the frame shows {got:?} instead of what the custom key writes");
                    } else {
                        ensure!(!got.starts_with("custom:"), "custom_key_shadowing", "key {k:?} is not shadowed but the frame shows {got:?}");
                    }
                }
                v.label_if(!shadowed.is_empty(), "custom_key_shadows_a_built_in_key");
            }
        }
    }
    v.nontrivial = changed;
    v.label_if(changed, "state_changed_before_draw");
    v.label_if(resets > 0, "reset");
    Ok(v)
}

// ------------------------------------------------------------------------------------------
// one frame, one moment

#[derive(Debug, Clone, Serialize, Deserialize)]
pub struct MomentCase {
    start: u64,
    /// how many inc(1) calls from another thread land while the frame is being formatted
    bumps: u8,
    /// what triggers the draw: 0 set_message, 1 force_draw
    draw: u8,
}

/// "the value of the bar at the moment of the draw": a frame is formatted from one snapshot. Another
/// thread advances the position (lock-free) while a custom key in the middle of the template is being
/// written; for a bar without a length every length key of that frame still equals the position key of
/// that frame.
fn run_moment(c: &MomentCase) -> CaseResult {
    use std::sync::atomic::{AtomicU64, Ordering};
    let vt = VTerm::new(4, 400).with_snapshots();
    let slot: Arc<Mutex<Option<indicatif::WeakProgressBar>>> = Arc::new(Mutex::new(None));
    let s2 = slot.clone();
    let bumps = c.bumps.max(1) as u64;
    let spawned: Arc<Mutex<Vec<std::thread::JoinHandle<()>>>> = Arc::new(Mutex::new(vec![]));
    let sp2 = spawned.clone();
    let landed = Arc::new(AtomicU64::new(0));
    let l2 = landed.clone();
    let armed = Arc::new(std::sync::atomic::AtomicBool::new(false));
    let a2 = armed.clone();
    let style = ProgressStyle::with_template("{pos}|{human_pos}|{bytes}|{bump}|{len}|{human_len}|{total_bytes}|{decimal_total_bytes}|{binary_total_bytes}")
        .unwrap()
        .with_key("bump", move |_: &ProgressState, _w: &mut dyn std::fmt::Write| {
            if !a2.swap(false, Ordering::SeqCst) {
                return;
            }
            let Some(worker) = s2.lock().unwrap().as_ref().and_then(|w| w.upgrade()) else { return };
            // (a steady ticker is installed: inc() only advances the lock-free position and returns)
            let (tx, rx) = std::sync::mpsc::channel();
            sp2.lock().unwrap().push(std::thread::spawn(move || {
                for _ in 0..bumps {
                    worker.inc(1);
                }
                drop(worker);
                let _ = tx.send(());
            }));
            if rx.recv_timeout(Duration::from_secs(5)).is_ok() {
                l2.store(bumps, Ordering::SeqCst);
            }
        });
    let pb = ProgressBar::with_draw_target(None, ProgressDrawTarget::term_like(vt.boxed())).with_position(c.start);
    pb.set_style(style);
    *slot.lock().unwrap() = Some(pb.downgrade());
    pb.tick();
    // the ticker (one frame when it starts, the next an hour later) keeps inc() from drawing
    pb.enable_steady_tick(Duration::from_secs(3600));
    armed.store(true, Ordering::SeqCst);
    catch(|| match c.draw % 2 {
        0 => pb.set_message("m"),
        _ => pb.force_draw(),
    })
    .map_err(|p| Fail::new("panic", format!("the draw panicked: {p}")))?;
    for h in spawned.lock().unwrap().drain(..) {
        let _ = h.join();
    }
    pb.disable_steady_tick();
    // every frame: the first tick, the ticker's, the one that was interrupted
    let frames: Vec<String> = vt.take_frames().iter().filter_map(|f| f.rows.first().cloned()).collect();
    let mut v = Verdict::default();
    let mut checked = 0;
    for (k, line) in frames.iter().enumerate() {
        let f: Vec<&str> = line.split('|').collect();
        ensure!(f.len() == 9, "harness", "frame {k} {line:?} does not have 9 fields");
        let Ok(pos) = f[0].parse::<u64>() else { return Err(Fail::new("harness", format!("frame {k} {line:?}: position field"))) };
        ensure!(
            f[1] == HumanCount(pos).to_string() && f[2] == HumanBytes(pos).to_string(),
            "moment",
            "frame {k} {line:?}: {{human_pos}} / {{bytes}} do not show the position {pos} that {{pos}} shows in the same frame"
        );
        ensure!(
            f[4] == pos.to_string() && f[5] == HumanCount(pos).to_string() && f[6] == HumanBytes(pos).to_string() && f[7] == DecimalBytes(pos).to_string() && f[8] == BinaryBytes(pos).to_string(),
            "moment",
            "frame {k} {line:?}: the bar has no length, so the length keys render the position - but not the position {pos} that {{pos}} shows in the same frame ({} inc(1) call(s) from another thread landed while the frame was being formatted)",
            landed.load(Ordering::SeqCst)
        );
        checked += 1;
    }
    ensure!(checked >= 2, "harness", "fewer than two frames were painted: {frames:?}");
    v.nontrivial = landed.load(Ordering::SeqCst) > 0;
    v.label_if(v.nontrivial, "position_advanced_while_the_frame_was_formatted");
    Ok(v)
}

pub fn property() -> Property {
    let w = default_workers();
    Property {
        id: "C11",
        level: "exploration",
        assumptions: &[
            "virtual clock frozen between the forced draw and the getter reads, so 'the same instant' is exact",
            "{percent} may round an exact .5 either way; {percent_precise} within half a unit of the third decimal",
            "spinner ticks = tick() calls plus position updates (each at least 2 ms apart, so none is throttled)",
            "custom trackers are notified at least once per tick/update/reset (more is allowed)",
        ],
        parts: vec![Box::new(Gen::<KeyCase> {
            name: "keys",
            rule: "one template holding every documented key (26 plain, 5 with width/alignment, wide_msg, bar, wide_bar) and a stateful custom tracker; 0-16 (thorough 40) ops (inc/dec/set_position/update/set_length/unset_length/inc_length/set_message/set_prefix/tick/reset/reset_eta/finish/finish_with_message/abandon/set_style with tick strings of another cycle length) with gaps 2 ms..55 h on the virtual clock; after every op a forced draw is compared field by field with the getters pushed through the public formatters; non-trivial = position/length/message differ from creation",
            strategy: case_strategy,
            cases: |t| t.pick(7_500, 480_000),
            run: run_keys,
            signature: no_signature,
            essential: &["state_changed_before_draw", "unknown_length", "len_lt_pos", "finished", "eta_nonzero", "rate_nonzero", "elapsed_hours", "reset", "custom_key_shadows_a_built_in_key", "tick_strings_replaced_after_a_full_cycle", "message_with_a_tab_at_a_non_default_tab_width", "style_taken_from_a_bar_with_another_tab_width"],
            workers: w,
            decode: None,
        }),
        Box::new(Gen::<MomentCase> {
            name: "one_moment",
            rule: "a bar without a length whose template holds the position keys, a custom key, and the five length keys; while a frame (set_message / force_draw; a steady ticker with an interval of an hour is installed, so that inc() does not draw by itself) is being formatted the custom key lets another thread call inc(1) 1-3 times (lock-free) and waits until the new position is visible: within every painted frame all position keys agree with {pos} and all length keys (which render the position) equal that same position; non-trivial = the position did advance while the frame was formatted (real threads)",
            strategy: |_| (prop_oneof![0u64..1000, any::<u64>().prop_map(|x| x >> 1)], 1u8..4, 0u8..3).prop_map(|(start, bumps, draw)| MomentCase { start, bumps, draw }).boxed(),
            cases: |t| t.pick(20, 2_000),
            run: run_moment,
            signature: no_signature,
            essential: &["position_advanced_while_the_frame_was_formatted"],
            workers: 4,
            decode: None,
        })],
    }
}
