//! C04 Finishing or dropping a bar always paints its final state.
use std::time::Duration;

use indicatif::{ProgressBar, ProgressDrawTarget, ProgressFinish, ProgressIterator};
use proptest::prelude::*;
use serde::{Deserialize, Serialize};

use crate::clock;
use crate::ensure;
use crate::hist::*;
use crate::multi::*;
use crate::props::c01::{self, BOp};
use crate::runner::*;
use crate::vterm::VTerm;

#[derive(Debug, Clone, Serialize, Deserialize)]
pub enum Term {
    Finish,
    FinishWithMessage(String),
    FinishAndClear,
    Abandon,
    AbandonWithMessage(String),
    /// with_finish(k) then finish_using_style()
    FinishUsingStyle(u8),
    /// with_finish(k) then drop of the last handle
    DropWith(u8),
    /// with_finish(k), wrap_iter / progress_with over n items consumed to the end
    IterExhaust(u8, u8, bool),
    /// with_finish(k), n items consumed from the back (mode 0: `.rev()`, 1: next_back() until None,
    /// 2: alternating next()/next_back() until both are exhausted) or by internal iteration
    /// (3: for_each, 4: count, 5: last, 6: sum)
    IterExhaustBack(u8, u8, u8),
    /// with_finish(k); one adaptor over n items runs dry, the bar is reset() through another handle, and the
    /// same adaptor is polled again (it reports its end once more): the bar is completed again, the same way
    IterTwice(u8, u8),
}

#[derive(Debug, Clone, Serialize, Deserialize)]
pub struct SingleCase {
    rows: u8,
    cols: u8,
    len: Option<u64>,
    tpl: STpl,
    hz: Option<u8>,
    /// ticks and incs issued at the creation instant (exhausts the 20-frame and the 10-update buckets)
    burn: u8,
    prior: Vec<BOp>,
    /// clock step before each prior op (0 = frozen)
    step_ms: u32,
    term: Term,
    /// after the terminator: reset() and complete once more with the *stored* finish behaviour
    #[serde(default)]
    again: Option<Again>,
    /// the prior history ends with an explicit finish/abandon call of this kind: the terminator is
    /// applied to an already finished bar ("for every prior history")
    #[serde(default)]
    prior_finish: Option<u8>,
    /// after the terminator, before the handles are dropped: 1 reset_elapsed(), 2 reset_eta() - the bar
    /// stays finished and dropping it still changes nothing
    #[serde(default)]
    touch_after: u8,
}

#[derive(Debug, Clone, Serialize, Deserialize)]
pub enum Again {
    FinishUsingStyle,
    Drop,
    IterExhaust(u8),
}

fn finish_model(st: &mut BarState, k: u8) {
    match k % 5 {
        0 | 1 | 2 => {
            if let Some(l) = st.len {
                st.pos = l;
            }
            if k % 5 == 1 {
                st.msg = "fin".into();
            }
            st.status = if k % 5 == 2 { Status::DoneHidden } else { Status::DoneVisible };
        }
        3 => st.status = Status::DoneVisible,
        _ => {
            st.msg = "abn".into();
            st.status = Status::DoneVisible;
        }
    }
}

fn run_single(c: &SingleCase) -> CaseResult {
    let _clk = clock::Armed::new();
    let (rows, cols) = (c.rows.max(1) as usize, c.cols.max(1) as usize);
    let vt = VTerm::new(rows, cols).with_snapshots();
    let target = match c.hz {
        Some(hz) => ProgressDrawTarget::term_like_with_hz(vt.boxed(), hz.max(1)),
        None => ProgressDrawTarget::term_like(vt.boxed()),
    };
    let mut st = BarState::new(c.len, c.tpl.clone());
    let mut v = Verdict::default();
    if height_of(&st.frame(), cols) > rows {
        return Ok(v);
    }
    let mut pb = ProgressBar::with_draw_target(c.len, target);
    pb.set_style(c.tpl.style());
    for _ in 0..c.burn {
        pb.tick();
        pb.inc(1);
        st.pos = st.pos.wrapping_add(1);
    }
    let mut log: Vec<String> = vec![];
    for (i, op) in c.prior.iter().enumerate() {
        // the prior history must leave the bar unfinished
        if matches!(op, BOp::Finish | BOp::FinishWithMessage(_) | BOp::FinishAndClear | BOp::Abandon | BOp::AbandonWithMessage(_)) {
            continue;
        }
        // the recorded C01 finding (an empty first suspend line right after a text-only println is
        // swallowed) is not what this property is about: such suspends are not issued here
        if matches!(op, BOp::Suspend(l) if l.first().map_or(false, |x| console::measure_text_width(x) == 0)) {
            v.label("suspend_with_empty_first_line_not_issued");
            continue;
        }
        let next = c01::apply_model(&st, op);
        if height_of(&next.frame(), cols) > rows {
            continue;
        }
        clock::advance(Duration::from_millis(c.step_ms as u64));
        catch(|| c01::exec(&pb, &vt, op)).map_err(|p| Fail::new("panic", format!("prior op #{i} {op:?} panicked: {p}")))?;
        st = next;
        match op {
            BOp::Println(t) => log.extend(println_lines(t)),
            BOp::Suspend(l) => log.extend(l.iter().cloned()),
            _ => {}
        }
    }
    // "every prior history": the bar may already be finished in another way when the terminator comes
    let mut refinish = false;
    if let Some(k1) = c.prior_finish {
        // (also in front of an iterator that still has items: the program finishes or abandons the bar from
        // the loop body, the end of the iterator must then leave it alone)
        if matches!(c.term, Term::Finish | Term::FinishWithMessage(_) | Term::FinishAndClear | Term::Abandon | Term::AbandonWithMessage(_) | Term::FinishUsingStyle(_))
            || matches!(c.term, Term::IterExhaust(_, n, _) | Term::IterExhaustBack(_, n, _) if n >= 1)
        {
            let mut f1 = st.clone();
            finish_model(&mut f1, k1);
            if height_of(&f1.frame(), cols) <= rows {
                clock::advance(Duration::from_millis(c.step_ms as u64));
                catch(|| match k1 % 5 {
                    0 => pb.finish(),
                    1 => pb.finish_with_message("fin"),
                    2 => pb.finish_and_clear(),
                    3 => pb.abandon(),
                    _ => pb.abandon_with_message("abn"),
                })
                .map_err(|p| Fail::new("panic", format!("prior finish {k1} panicked: {p}")))?;
                st = f1;
                refinish = true;
            }
        }
    }
    // is the limiter exhausted right now? (an ordinary tick paints nothing)
    let f0 = vt.nflush();
    pb.tick();
    let exhausted = vt.nflush() == f0;
    vt.take_frames();
    // the terminator, at the same instant
    let mut fin = st.clone();
    let k_of = |t: &Term| match t {
        Term::Finish => 0,
        Term::FinishWithMessage(_) => 1,
        Term::FinishAndClear => 2,
        Term::Abandon => 3,
        Term::AbandonWithMessage(_) => 4,
        Term::FinishUsingStyle(k) | Term::DropWith(k) | Term::IterExhaust(k, ..) | Term::IterExhaustBack(k, ..) | Term::IterTwice(k, _) => *k % 5,
    };
    let left_alone = refinish && matches!(c.term, Term::IterExhaust(..) | Term::IterExhaustBack(..));
    if !left_alone {
        finish_model(&mut fin, k_of(&c.term));
    }
    match &c.term {
        Term::FinishWithMessage(m) | Term::AbandonWithMessage(m) => fin.msg = m.clone(),
        // an adaptor over an already finished bar only counts
        Term::IterExhaust(_, n, _) | Term::IterExhaustBack(_, n, _) if left_alone => fin.pos = st.pos.wrapping_add(*n as u64),
        Term::IterTwice(..) => {
            // after the reset the second end of the adaptor completes a bar that stands at 0
            if !matches!(k_of(&c.term), 0 | 1 | 2) || fin.len.is_none() {
                fin.pos = 0;
            }
        }
        Term::IterExhaust(_, n, _) | Term::IterExhaustBack(_, n, _) => {
            // the items are counted first
            if !matches!(k_of(&c.term), 0 | 1 | 2) || fin.len.is_none() {
                fin.pos = st.pos.wrapping_add(*n as u64);
            }
        }
        _ => {}
    }
    if height_of(&fin.frame(), cols) > rows {
        return Ok(v);
    }
    let calls_before = vt.ncalls();
    let flush_before = vt.nflush();
    let mut handle: Option<ProgressBar> = None;
    catch(|| match &c.term {
        Term::Finish => {
            pb.finish();
            handle = Some(pb.clone());
        }
        Term::FinishWithMessage(m) => {
            pb.finish_with_message(m.clone());
            handle = Some(pb.clone());
        }
        Term::FinishAndClear => {
            pb.finish_and_clear();
            handle = Some(pb.clone());
        }
        Term::Abandon => {
            pb.abandon();
            handle = Some(pb.clone());
        }
        Term::AbandonWithMessage(m) => {
            pb.abandon_with_message(m.clone());
            handle = Some(pb.clone());
        }
        Term::FinishUsingStyle(k) => {
            pb = pb.clone().with_finish(finish_of(*k));
            pb.finish_using_style();
            handle = Some(pb.clone());
        }
        Term::DropWith(k) => {
            pb = pb.clone().with_finish(finish_of(*k));
        }
        Term::IterExhaust(k, n, via_wrap) => {
            pb = pb.clone().with_finish(finish_of(*k));
            let items: Vec<u8> = (0..*n).collect();
            let got: Vec<u8> = if *via_wrap { pb.wrap_iter(items.clone().into_iter()).collect() } else { items.clone().into_iter().progress_with(pb.clone()).collect() };
            assert_eq!(got, items);
            handle = Some(pb.clone());
        }
        Term::IterTwice(k, n) => {
            pb = pb.clone().with_finish(finish_of(*k));
            let mut it = pb.wrap_iter((0..*n).collect::<Vec<u8>>().into_iter());
            while it.next().is_some() {}
            pb.reset();
            assert!(it.next().is_none());
            handle = Some(pb.clone());
        }
        Term::IterExhaustBack(k, n, mode) => {
            pb = pb.clone().with_finish(finish_of(*k));
            let items: Vec<u8> = (0..*n).collect();
            let mut it = pb.wrap_iter(items.clone().into_iter());
            let mut got = vec![];
            match mode % 7 {
                3 => it.for_each(|x| got.push(x)),
                4 => got.resize(it.count(), 0),
                5 => {
                    let last = it.last();
                    assert_eq!(last, items.last().copied());
                    got = items.clone();
                }
                6 => {
                    let sum: u32 = it.map(|x| x as u32).sum();
                    assert_eq!(sum, items.iter().map(|x| *x as u32).sum::<u32>());
                    got = items.clone();
                }
                0 => got.extend(it.rev()),
                1 => {
                    while let Some(x) = it.next_back() {
                        got.push(x);
                    }
                }
                _ => loop {
                    let (a, b) = (it.next(), it.next_back());
                    got.extend(a);
                    got.extend(b);
                    if a.is_none() && b.is_none() {
                        break;
                    }
                },
            }
            assert_eq!(got.len(), items.len());
            handle = Some(pb.clone());
        }
    })
    .map_err(|p| Fail::new("panic", format!("terminator {:?} panicked: {p}", c.term)))?;
    let is_drop = matches!(c.term, Term::DropWith(_));
    let ctx = format!(
        "terminator {:?} after {} burn ticks, prior {:?}{} (hz {:?}, step {} ms, limiter exhausted: {exhausted}, {}x{} terminal)",
        c.term,
        c.burn,
        c.prior,
        if refinish { format!(" and then an explicit finish of kind {}", c.prior_finish.unwrap() % 5) } else { String::new() },
        c.hz,
        c.step_ms,
        rows,
        cols
    );
    if !is_drop {
        let h = handle.as_ref().unwrap();
        ensure!(h.is_finished(), "not_finished", "{ctx}: is_finished() is false afterwards");
        // (the final state: nothing is left to wait for, whichever way the bar was completed)
        ensure!(h.eta() == Duration::ZERO, "final_eta", "{ctx}: eta() = {:?} on the completed bar", h.eta());
        ensure!(h.position() == fin.pos, "final_position", "{ctx}: position() = {}, expected {}", h.position(), fin.pos);
        let want_msg = crate::model::expand_tabs(&fin.msg, fin.tab_width);
        ensure!(h.message() == want_msg, "final_message", "{ctx}: message() = {:?}, expected {:?}", h.message(), want_msg);
        if !left_alone {
            ensure!(vt.nflush() > flush_before, "no_final_frame", "{ctx}: no frame was painted by the call");
            c01::check_screen(&vt.rows(), None, &log, &fin.frame(), cols, &ctx).map_err(|f| Fail::new("final_frame", f.msg))?;
        }
        // (an adaptor that runs over an already finished bar completes nothing: its incs are ordinary,
        // throttled position updates - only the getters are compared then)
        if let Some(again) = c.again.as_ref().filter(|_| !left_alone) {
            // reset and complete a second time: the stored finish behaviour must still apply
            let stored = match &c.term {
                Term::FinishUsingStyle(k) | Term::IterExhaust(k, ..) | Term::IterExhaustBack(k, ..) | Term::IterTwice(k, _) => *k % 5,
                _ => 2,
            };
            let h = handle.take().unwrap();
            clock::advance(Duration::from_millis(5));
            h.reset();
            let mut st2 = fin.clone();
            st2.pos = 0;
            st2.status = Status::InProgress;
            if let Again::IterExhaust(n) = again {
                st2.pos = *n as u64;
            }
            finish_model(&mut st2, stored);
            if height_of(&st2.frame(), cols) <= rows {
                let ctx2 = format!("{ctx}; then reset() and {again:?} with the stored finish behaviour {:?}", finish_of(stored));
                let fb = vt.nflush();
                match again {
                    Again::FinishUsingStyle => h.finish_using_style(),
                    Again::IterExhaust(n) => {
                        let _: Vec<u8> = h.wrap_iter((0..*n).collect::<Vec<u8>>().into_iter()).collect();
                    }
                    Again::Drop => {}
                }
                let probe = h.clone();
                drop(h);
                if matches!(again, Again::Drop) {
                    // `probe` and `pb` still hold the bar: drop them all
                    let (p2, m2) = (probe.position(), probe.message());
                    let _ = (p2, m2);
                    drop(probe);
                    catch(move || drop(pb)).map_err(|p| Fail::new("panic", format!("{ctx2}: drop panicked: {p}")))?;
                } else {
                    ensure!(probe.is_finished(), "not_finished", "{ctx2}: is_finished() is false");
                    ensure!(probe.position() == st2.pos, "final_position", "{ctx2}: position() = {}, expected {}", probe.position(), st2.pos);
                    let want_msg = crate::model::expand_tabs(&st2.msg, st2.tab_width);
                    ensure!(probe.message() == want_msg, "final_message", "{ctx2}: message() = {:?}, expected {:?}", probe.message(), want_msg);
                    drop(probe);
                    drop(pb);
                }
                ensure!(vt.nflush() > fb, "no_final_frame", "{ctx2}: nothing was painted");
                c01::check_screen(&vt.rows(), None, &log, &st2.frame(), cols, &ctx2).map_err(|f| Fail::new("final_frame_second_completion", f.msg))?;
                v.label("second_completion_after_reset");
            }
            v.nontrivial = exhausted || refinish;
            return Ok(v);
        }
        // calls that concern the clock only leave the bar finished
        if let Some(h) = &handle {
            match c.touch_after % 3 {
                1 => h.reset_elapsed(),
                2 => h.reset_eta(),
                _ => {}
            }
            ensure!(h.is_finished(), "not_finished", "{ctx}: after {} the bar is no longer finished", ["", "reset_elapsed()", "reset_eta()"][(c.touch_after % 3) as usize]);
            v.label_if(c.touch_after % 3 != 0, "clock_reset_after_finish");
        }
        // dropping the finished bar changes nothing on screen
        let n = vt.ncalls();
        drop(handle.take());
        catch(move || drop(pb)).map_err(|p| Fail::new("panic", format!("{ctx}: drop panicked: {p}")))?;
        ensure!(vt.ncalls() == n, "drop_of_finished_draws", "{ctx}: dropping the already finished bar made {} terminal call(s)", vt.ncalls() - n);
    } else {
        catch(move || drop(pb)).map_err(|p| Fail::new("panic", format!("{ctx}: drop panicked: {p}")))?;
        ensure!(vt.nflush() > flush_before && vt.ncalls() > calls_before, "no_final_frame", "{ctx}: dropping the last handle of the unfinished bar painted nothing");
        c01::check_screen(&vt.rows(), None, &log, &fin.frame(), cols, &ctx).map_err(|f| Fail::new("final_frame", f.msg))?;
    }
    v.nontrivial = exhausted || refinish;
    v.label_if(refinish, "terminator_on_already_finished_bar");
    v.label_if(left_alone, "iterator_ends_on_a_bar_finished_from_the_loop_body");
    v.label_if(exhausted, "limiter_exhausted_at_terminator");
    v.label_if(!exhausted, "limiter_not_exhausted");
    v.label(match c.term {
        Term::Finish | Term::FinishWithMessage(_) | Term::FinishAndClear | Term::Abandon | Term::AbandonWithMessage(_) => "explicit_call",
        Term::FinishUsingStyle(_) => "finish_using_style",
        Term::DropWith(_) => "drop_last_handle",
        Term::IterExhaust(..) => "iterator_exhausted",
        Term::IterTwice(..) => "same_adaptor_runs_dry_again_after_reset",
        Term::IterExhaustBack(_, _, m) if m % 7 >= 3 => "iterator_exhausted_by_internal_iteration",
        Term::IterExhaustBack(..) => "iterator_exhausted_from_the_back",
    });
    v.label_if(k_of(&c.term) == 2, "clearing_variant");
    Ok(v)
}

fn single_strategy(tier: Tier) -> BoxedStrategy<SingleCase> {
    let n = tier.pick(10, 24);
    let term = prop_oneof![
        Just(Term::Finish),
        "[a-z ]{0,8}".prop_map(Term::FinishWithMessage),
        Just(Term::FinishAndClear),
        Just(Term::Abandon),
        "[a-z ]{0,8}".prop_map(Term::AbandonWithMessage),
        (0u8..5).prop_map(Term::FinishUsingStyle),
        (0u8..5).prop_map(Term::DropWith),
        (0u8..5, 0u8..6, any::<bool>()).prop_map(|(k, n, w)| Term::IterExhaust(k, n, w)),
        (0u8..5, 0u8..6, 0u8..7).prop_map(|(k, n, m)| Term::IterExhaustBack(k, n, m)),
        (0u8..5, 0u8..6).prop_map(|(k, n)| Term::IterTwice(k, n)),
    ];
    (3u8..=10, 6u8..=40)
        .prop_flat_map(move |(rows, cols)| {
            (
                Just(rows),
                Just(cols),
                proptest::option::weighted(0.8, 1u64..100),
                stpl_strategy(),
                proptest::option::weighted(0.8, prop_oneof![Just(1u8), Just(20), Just(255)]),
                prop_oneof![1 => Just(0u8), 3 => 21u8..40],
                proptest::collection::vec(c01::bop_strategy(cols as usize), 0..n),
                prop_oneof![3 => Just(0u32), 1 => Just(1u32), 1 => Just(100u32)],
                term.clone(),
                (proptest::option::weighted(0.3, prop_oneof![Just(Again::FinishUsingStyle), Just(Again::Drop), (0u8..5).prop_map(Again::IterExhaust)]), proptest::option::weighted(0.25, 0u8..5)),
            )
        })
        .prop_map(|(rows, cols, len, tpl, hz, burn, prior, step_ms, term, (again, prior_finish))| SingleCase { touch_after: (rows ^ cols ^ burn) % 5, rows, cols, len, tpl, hz, burn, prior, step_ms, term, again, prior_finish })
        .boxed()
}

// ------------------------------------------------------------------------------------------
// the supplied message and stream-driven completion

#[derive(Debug, Clone, Serialize, Deserialize)]
pub struct SuppliedCase {
    /// set_tab_width(w): before (false) or after (true) the first message is set
    tab_width: Option<(u8, bool)>,
    initial: String,
    supplied: String,
    /// 0 finish_with_message, 1 abandon_with_message, 2 with_finish(WithMessage) + finish_using_style,
    /// 3 with_finish(AbandonWithMessage) + drop of the last handle, 4 with_finish(WithMessage) + iterator
    /// exhaustion, 5 with_finish(WithMessage) + a stream polled to its end
    how: u8,
    len: u8,
    /// how 4/5: the items; how 5: None = the stream is not ready at that poll
    script: Vec<Option<u8>>,
}

fn run_supplied(c: &SuppliedCase) -> CaseResult {
    use std::task::{Context, Poll, Waker};
    let _clk = clock::Armed::new();
    let vt = VTerm::raw(20, 400);
    let mut pb = ProgressBar::with_draw_target(Some(c.len as u64), ProgressDrawTarget::term_like(vt.boxed()));
    pb.set_style(indicatif::ProgressStyle::with_template("{msg}|{pos}/{len}").unwrap());
    let mut tw = 8usize;
    if let Some((w, false)) = c.tab_width {
        pb.set_tab_width(w as usize);
        tw = w as usize;
    }
    pb.set_message(c.initial.clone());
    if let Some((w, true)) = c.tab_width {
        pb.set_tab_width(w as usize);
        tw = w as usize;
    }
    let how = c.how % 6;
    let want_msg = crate::model::expand_tabs(&c.supplied, tw);
    let items: Vec<u8> = c.script.iter().flatten().copied().collect();
    let mut v = Verdict::default();
    let ctx = format!("tab width {:?}, first message {:?}, supplied message {:?}, way {how}, length {}, script {:?}", c.tab_width, c.initial, c.supplied, c.len, c.script);
    let mut want_pos = c.len as u64;
    let probe = pb.clone();
    // the bar has no terminal while its iterator / stream runs dry (another handle keeps it alive): it is
    // completed all the same, and shows its final state once it gets the terminal back
    let hidden_at_end = matches!(how, 4 | 5) && c.len % 3 == 2;
    if hidden_at_end {
        pb.tick();
        pb.set_draw_target(ProgressDrawTarget::hidden());
    }
    catch(|| -> Result<(), Fail> {
        match how {
            0 => pb.finish_with_message(c.supplied.clone()),
            1 => {
                pb.set_position(1);
                want_pos = 1;
                pb.abandon_with_message(c.supplied.clone())
            }
            2 => {
                pb = pb.clone().with_finish(ProgressFinish::WithMessage(c.supplied.clone().into()));
                pb.finish_using_style()
            }
            3 => {
                pb.set_position(1);
                want_pos = 1;
                pb = pb.clone().with_finish(ProgressFinish::AbandonWithMessage(c.supplied.clone().into()));
            }
            4 => {
                pb = pb.clone().with_finish(ProgressFinish::WithMessage(c.supplied.clone().into()));
                let got: Vec<u8> = pb.wrap_iter(items.clone().into_iter()).collect();
                assert_eq!(got, items);
            }
            _ => {
                pb = pb.clone().with_finish(ProgressFinish::WithMessage(c.supplied.clone().into()));
                let mut cx = Context::from_waker(Waker::noop());
                let mut ws = pb.wrap_stream(super::c17::ScriptStream(c.script.iter().map(|x| x.map(Some)).collect()));
                let mut seen = 0u64;
                let mut polls = 0;
                loop {
                    polls += 1;
                    let r = futures_core::Stream::poll_next(std::pin::Pin::new(&mut ws), &mut cx);
                    match r {
                        Poll::Ready(Some(_)) => seen += 1,
                        Poll::Ready(None) => break,
                        Poll::Pending => {}
                    }
                    // completion is driven by the end of the stream and by nothing else
                    ensure!(!probe.is_finished(), "finished_early", "{ctx}: is_finished() is true after poll #{polls} ({r:?}) although the stream has not ended");
                    ensure!(probe.position() == seen, "final_position", "{ctx}: position() = {} after {seen} items (poll #{polls}, {r:?})", probe.position());
                    ensure!(polls < 1000, "harness", "the scripted stream does not end");
                }
            }
        }
        Ok(())
    })
    .map_err(|p| Fail::new("panic", format!("{ctx}: panicked: {p}")))??;
    if how == 3 {
        drop(pb);
    }
    // (probe is still a handle of the bar when how == 3: drop it to trigger the drop behaviour, then look at the frame only)
    if how != 3 {
        ensure!(probe.is_finished(), "not_finished", "{ctx}: is_finished() is false afterwards");
        ensure!(probe.position() == want_pos, "final_position", "{ctx}: position() = {}, expected {want_pos}", probe.position());
        ensure!(probe.message() == want_msg, "final_message", "{ctx}: message() = {:?}, expected the supplied message {want_msg:?}", probe.message());
    }
    if hidden_at_end {
        probe.set_draw_target(ProgressDrawTarget::term_like(vt.boxed()));
        probe.tick();
        v.label("ended_while_the_bar_had_no_terminal");
    }
    drop(probe);
    let lines = vt.last_frame_lines().map_err(|e| Fail::new("harness", e))?;
    let want_line = format!("{want_msg}|{want_pos}/{}", c.len);
    // (trailing blanks are not distinguishable from the right-edge filler)
    ensure!(
        lines.len() == 1 && lines[0].trim_end() == want_line.trim_end() && lines[0].starts_with(&want_msg),
        "final_frame",
        "{ctx}: the last frame is {lines:?}, expected [{want_line:?}]"
    );
    v.nontrivial = c.supplied.contains('\t') && tw != 8;
    v.label_if(v.nontrivial, "supplied_message_with_tab_at_non_default_width");
    v.label_if(!c.initial.contains('\t'), "first_message_without_tab");
    v.label_if(how == 5 && c.script.iter().any(|x| x.is_none()), "stream_not_ready_in_between");
    v.label(["finish_with_message", "abandon_with_message", "finish_using_style", "drop_last_handle", "iterator_exhausted", "stream_ended"][how as usize]);
    Ok(v)
}

fn supplied_strategy(_t: Tier) -> BoxedStrategy<SuppliedCase> {
    let text = || proptest::collection::vec(prop_oneof![3 => "[a-z]{1,3}", 1 => Just("\t".to_string()), 1 => Just(" ".to_string())], 0..5).prop_map(|v| v.concat());
    (
        proptest::option::weighted(0.7, (prop_oneof![4 => 0u8..8, 1 => Just(8u8), 3 => 9u8..20], any::<bool>())),
        prop_oneof![2 => "[a-z ]{0,5}", 1 => text()],
        text(),
        0u8..6,
        0u8..9,
        proptest::collection::vec(proptest::option::weighted(0.7, any::<u8>()), 0..8),
    )
        .prop_map(|(tab_width, initial, supplied, how, len, script)| SuppliedCase { tab_width, initial, supplied, how, len, script })
        .boxed()
}

// ------------------------------------------------------------------------------------------
// inside a MultiProgress

fn run_multi(c: &MultiCase) -> CaseResult {
    let _clk = clock::Armed::new();
    let mut it = Interp::new(c);
    let mut v = Verdict::default();
    let mut finish_order: Vec<usize> = vec![];
    let mut exhausted_seen = false;
    let mut last_draw_skipped = false;
    for (i, op) in c.ops.iter().enumerate() {
        clock::advance(Duration::from_millis(c.step_ms as u64));
        let n = it.handles.len();
        let target_tag = match op {
            MOp::Finish(s) | MOp::FinishWithMessage(s, _) | MOp::FinishAndClear(s) | MOp::Abandon(s) | MOp::Drop(s) if n > 0 => Some(it.handles[pick(*s, n)].tag),
            _ => None,
        };
        let was_unfinished = target_tag.map_or(false, |t| it.model.entries.iter().any(|e| e.tag == t && !e.st.finished()));
        let out = catch(|| it.step(op)).map_err(|p| Fail::new("panic", format!("op #{i} {op:?} panicked: {p}")))??;
        if out.skipped {
            continue;
        }
        let ctx = format!("op #{i} {op:?} (hz {:?}, step {} ms, {}x{} terminal, ops {:?})", c.hz, c.step_ms, it.rows, it.cols, &c.ops[..=i]);
        // whatever is painted must be consistent with the model
        it.check_frames(&out, &ctx)?;
        // ... and has really been handed to the terminal: nothing written by the call is still waiting for a flush
        ensure!(it.vt.unflushed() == 0, "final_frame_not_flushed", "{ctx}: the call returned with {} write(s) that were never flushed", it.vt.unflushed());
        let terminator = matches!(op, MOp::Finish(_) | MOp::FinishWithMessage(..) | MOp::FinishAndClear(_) | MOp::Abandon(_)) || (matches!(op, MOp::Drop(_)) && was_unfinished);
        if terminator {
            ensure!(!out.frames.is_empty(), "no_final_frame", "{ctx}: the call painted no frame (limiter skipped the ordinary draw just before: {last_draw_skipped})");
            if was_unfinished {
                finish_order.push(target_tag.unwrap());
            }
            exhausted_seen |= last_draw_skipped;
        } else if matches!(op, MOp::Drop(_)) {
            ensure!(out.frames.is_empty(), "drop_of_finished_draws", "{ctx}: dropping an already finished bar painted a frame");
        }
        if matches!(op, MOp::Tick(_) | MOp::Inc(..) | MOp::SetMessage(..)) {
            last_draw_skipped = out.frames.is_empty();
        }
    }
    // drop the remaining handles in the generated order, then the MultiProgress
    for s in &c.final_drops {
        if it.handles.is_empty() {
            break;
        }
        let op = MOp::Drop(*s);
        let out = catch(|| it.step(&op)).map_err(|p| Fail::new("panic", format!("final {op:?} panicked: {p}")))??;
        it.check_frames(&out, &format!("final {op:?} (ops {:?})", c.ops))?;
    }
    it.teardown()?;
    // every visibly finished bar keeps its final rendering, in order; nothing else
    let frame = it.model.frame();
    let mut m = it.model.clone();
    for b in &mut m.blocks {
        b.mandatory = true;
    }
    m.match_screen(&it.vt.rows(), &frame, it.cols).map_err(|e| {
        Fail::new("final_screen", format!("after everything was dropped (ops {:?}, final drops {:?}, hz {:?}, step {} ms): {e}", c.ops, c.final_drops, c.hz, c.step_ms))
    })?;
    let visual: Vec<usize> = finish_order.clone();
    let mut sorted = visual.clone();
    sorted.sort();
    v.nontrivial = exhausted_seen || (finish_order.len() >= 2 && sorted != visual);
    v.label_if(exhausted_seen, "limiter_exhausted_at_terminator");
    v.label_if(finish_order.len() >= 2 && sorted != visual, "finish_order_differs_from_visual_order");
    v.label_if(!it.model.blocks.is_empty() || !frame.is_empty(), "visible_final_renderings");
    Ok(v)
}

/// Under bottom alignment (where the recorded finding F-C02a rules out the full-screen oracle once a handle
/// is dropped) the completing calls are still required to paint: a frame is flushed by each of them, and
/// nothing they wrote is left unflushed - a terminal that buffers until flush() would otherwise keep
/// showing the old rows.
fn run_bottom_flushed(c: &MultiCase) -> CaseResult {
    let _clk = clock::Armed::new();
    let mut it = Interp::new(c);
    let mut v = Verdict::default();
    let mut emptied = false;
    for (i, op) in c.ops.iter().enumerate() {
        clock::advance(Duration::from_millis(c.step_ms as u64));
        let n = it.handles.len();
        let target_tag = match op {
            MOp::Finish(s) | MOp::FinishWithMessage(s, _) | MOp::FinishAndClear(s) | MOp::Abandon(s) | MOp::Drop(s) if n > 0 => Some(it.handles[pick(*s, n)].tag),
            _ => None,
        };
        let was_unfinished = target_tag.map_or(false, |t| it.model.entries.iter().any(|e| e.tag == t && !e.st.finished()));
        let before = it.vt.nflush();
        let out = catch(|| it.step(op)).map_err(|p| Fail::new("panic", format!("op #{i} {op:?} panicked: {p}")))??;
        if out.skipped {
            continue;
        }
        let ctx = format!("op #{i} {op:?} (bottom alignment, hz {:?}, step {} ms, ops {:?})", c.hz, c.step_ms, &c.ops[..=i]);
        ensure!(it.vt.unflushed() == 0, "final_frame_not_flushed", "{ctx}: the call returned with {} write(s) that were never flushed", it.vt.unflushed());
        let terminator = matches!(op, MOp::Finish(_) | MOp::FinishWithMessage(..) | MOp::FinishAndClear(_) | MOp::Abandon(_)) || (matches!(op, MOp::Drop(_)) && was_unfinished);
        if terminator {
            ensure!(it.vt.nflush() > before, "no_final_frame", "{ctx}: the call painted no frame");
            emptied |= it.model.frame().is_empty();
        }
    }
    it.teardown()?;
    v.nontrivial = emptied;
    v.label_if(emptied, "completion_that_empties_the_region");
    v.label("bottom_alignment");
    Ok(v)
}

/// A bar that is completed while its MultiProgress cannot paint (hidden target) has its final state on
/// screen - or nothing, for the clearing kinds - as soon as the MultiProgress can paint again and any
/// member draws: what was cached before the hidden phase must not come back.
fn run_hidden_phase(c: &MultiCase) -> CaseResult {
    let _clk = clock::Armed::new();
    let mut it = Interp::new(c);
    let mut v = Verdict::default();
    for (i, op) in c.ops.iter().enumerate() {
        clock::advance(Duration::from_millis(c.step_ms.max(2) as u64));
        let out = catch(|| it.step(op)).map_err(|p| Fail::new("panic", format!("op #{i} {op:?} panicked: {p}")))??;
        if out.skipped {
            continue;
        }
        let ctx = format!("op #{i} {op:?} (ops {:?})", &c.ops[..=i]);
        it.check_frames(&out, &ctx).map_err(|f| Fail::new("final_frame_after_hidden_phase", f.msg))?;
        v.label_if(out.note == "multi_progress_shown_again", "shown_again");
    }
    it.teardown()?;
    v.nontrivial = true;
    v.label("completed_while_hidden");
    Ok(v)
}

fn hidden_phase_strategy(_t: Tier) -> BoxedStrategy<MultiCase> {
    let term = prop_oneof![
        Just(0u8), // finish
        Just(1),   // finish_with_message
        Just(2),   // finish_and_clear
        Just(3),   // abandon
        Just(4),   // drop (finish behaviour of the spec)
    ];
    (12u8..=30, spec_strategy(20), spec_strategy(20), any::<bool>(), term, any::<bool>(), 0u8..3)
        .prop_map(|(cols, a, b, on_first, term, tick_while_hidden, drawn_before)| {
            let (this, other) = if on_first { (0u16, 40000u16) } else { (40000, 0) };
            let mut ops = vec![MOp::Add(a), MOp::Add(b)];
            if drawn_before >= 1 {
                ops.push(MOp::Tick(0));
            }
            if drawn_before >= 2 {
                ops.push(MOp::Tick(40000));
            }
            ops.push(MOp::HideMp);
            if tick_while_hidden {
                ops.push(MOp::Inc(this, 1));
            }
            ops.push(match term {
                0 => MOp::Finish(this),
                1 => MOp::FinishWithMessage(this, "end".into()),
                2 => MOp::FinishAndClear(this),
                3 => MOp::Abandon(this),
                _ => MOp::Drop(this),
            });
            ops.push(MOp::ShowMp);
            // the other bar (the only handle left after a drop) draws twice
            let o = if term == 4 { 0 } else { other };
            ops.push(MOp::Tick(o));
            ops.push(MOp::Inc(o, 1));
            MultiCase { rows: 40, cols: cols as u16, hz: None, step_ms: 2, ops, final_drops: vec![] }
        })
        .boxed()
}

fn multi_strategy(tier: Tier) -> BoxedStrategy<MultiCase> {
    let n = tier.pick(30, 50);
    let s = || any::<u16>();
    (12u8..=30)
        .prop_flat_map(move |cols| {
            let c = cols as usize;
            let op = prop_oneof![
                4 => spec_strategy(c).prop_map(MOp::Add),
                1 => (s(), spec_strategy(c)).prop_map(|(i, b)| MOp::InsertBefore(i, b)),
                1 => (s(), spec_strategy(c)).prop_map(|(i, b)| MOp::InsertAfter(i, b)),
                8 => s().prop_map(MOp::Tick),
                4 => (s(), 1u64..4).prop_map(|(i, d)| MOp::Inc(i, d)),
                3 => (s(), short_text(c)).prop_map(|(i, m)| MOp::SetMessage(i, m)),
                2 => s().prop_map(MOp::Finish),
                1 => (s(), short_text(c)).prop_map(|(i, m)| MOp::FinishWithMessage(i, m)),
                1 => s().prop_map(MOp::FinishAndClear),
                1 => s().prop_map(MOp::Abandon),
                3 => s().prop_map(MOp::Drop),
            ];
            (
                Just(cols),
                proptest::option::weighted(0.7, prop_oneof![Just(1u8), Just(20), Just(255)]),
                prop_oneof![3 => Just(0u32), 1 => Just(1u32), 1 => Just(200u32)],
                proptest::collection::vec(op, 0..n),
                proptest::collection::vec(s(), 8),
            )
        })
        .prop_map(|(cols, hz, step_ms, mut ops, final_drops)| {
            // make sure there is something to finish and that the limiter is exhausted early
            let mut pre = vec![MOp::Add(BarSpec { two_lines: false, len: Some(9), on_finish: 0, msg: String::new(), key_nl: false, blank_first: 0 })];
            if hz.is_some() {
                pre.extend(std::iter::repeat(MOp::Tick(0)).take(22));
            }
            pre.append(&mut ops);
            MultiCase { rows: 80, cols: cols as u16, hz, step_ms, ops: pre, final_drops }
        })
        .boxed()
}

pub fn property() -> Property {
    let w = default_workers();
    Property {
        id: "C04",
        level: "exploration",
        assumptions: &[
            "the prior history leaves the bar unfinished; the terminator is issued at the same virtual instant as the op before it",
            "multi part: alphabet without println/clear/suspend/remove (the statement's precondition) and without positional inserts",
            "frames that would not fit the terminal height are skipped (C19 covers them)",
        ],
        parts: vec![
            Box::new(Gen::<SingleCase> {
                name: "single",
                rule: "standalone bar on a target with refresh rate None/1/20/255, 0 or 21-39 tick+inc pairs at the creation instant (exhausting the 20-frame and the 10-update buckets), 0-10 (thorough 24) prior ops with a clock step of 0/1/100 ms, then one terminator: finish/finish_with_message/finish_and_clear/abandon/abandon_with_message/finish_using_style x5/drop of the last handle x5 finish behaviours/iterator exhaustion (wrap_iter or progress_with) x5; the call must paint a frame showing the final state, is_finished/position/message must be final, a later drop makes no terminal call; non-trivial = the limiter was exhausted at the terminator",
                strategy: single_strategy,
                cases: |t| t.pick(15_000, 1_000_000),
                run: run_single,
                signature: no_signature,
                essential: &["limiter_exhausted_at_terminator", "limiter_not_exhausted", "explicit_call", "finish_using_style", "drop_last_handle", "iterator_exhausted", "iterator_exhausted_from_the_back", "iterator_exhausted_by_internal_iteration", "terminator_on_already_finished_bar", "iterator_ends_on_a_bar_finished_from_the_loop_body", "same_adaptor_runs_dry_again_after_reset", "clock_reset_after_finish", "clearing_variant", "second_completion_after_reset"],
                workers: w,
                decode: None,
            }),
            Box::new(Gen::<SuppliedCase> {
                name: "supplied",
                rule: "a bar with tab width 0..19 set before or after its first message (with or without a TAB), completed with a supplied message of 0-4 pieces incl. TABs through finish_with_message/abandon_with_message/with_finish + finish_using_style/with_finish + drop of the last handle/with_finish + iterator exhaustion/with_finish + a futures Stream that is polled to its end and is not ready at generated polls: message() and the last painted frame show exactly the supplied message (TABs expanded at the bar's width), position is the length (finish) or stays (abandon), and while the stream has not ended the bar is unfinished and counts the items; non-trivial = a supplied message with a TAB at a width other than 8",
                strategy: supplied_strategy,
                cases: |t| t.pick(12_000, 600_000),
                run: run_supplied,
                signature: no_signature,
                essential: &["supplied_message_with_tab_at_non_default_width", "first_message_without_tab", "stream_not_ready_in_between", "finish_with_message", "abandon_with_message", "finish_using_style", "drop_last_handle", "iterator_exhausted", "stream_ended", "ended_while_the_bar_had_no_terminal"],
                workers: w,
                decode: None,
            }),
            Box::new(Gen::<MultiCase> {
                name: "multi",
                rule: "MultiProgress (target None/1/20/255 Hz, clock step 0/1/200 ms, limiter exhausted by 22 ticks first) with add/insert_before/insert_after/tick/inc/set_message/finish*/abandon/drop only, then the remaining handles dropped in a generated order and the MultiProgress dropped; every finish/abandon/drop-of-unfinished must paint, every painted frame must match the list model, and at the end the screen must be exactly the final renderings of the visibly finished bars in visual order; non-trivial = a terminator right after a skipped draw, or finish order != visual order",
                strategy: multi_strategy,
                cases: |t| t.pick(9_000, 600_000),
                run: run_multi,
                signature: no_signature,
                essential: &["limiter_exhausted_at_terminator", "finish_order_differs_from_visual_order", "visible_final_renderings"],
                workers: w,
                decode: Some(|u| decode_multi(u, 1)),
            }),
            Box::new(Gen::<MultiCase> {
                name: "hidden_phase",
                rule: "two bars in a MultiProgress (0-2 of them drawn), the MultiProgress is cleared and given a hidden target, one bar is finished / finished with a message / finished and cleared / abandoned / dropped (optionally after an update) while nothing can be painted, the MultiProgress gets the terminal back and the other bar draws twice: every frame painted then is the list model's - the completed bar with its final state or, for the clearing kinds, not at all; never the rendering cached before the hidden phase",
                strategy: hidden_phase_strategy,
                cases: |t| t.pick(1_500, 100_000),
                run: run_hidden_phase,
                signature: no_signature,
                essential: &["completed_while_hidden", "shown_again"],
                workers: w,
                decode: None,
            }),
            Box::new(Gen::<MultiCase> {
                name: "bottom_flushed",
                rule: "the same MultiProgress histories with bottom alignment switched on first: every finish/abandon/drop-of-unfinished flushes a frame and no call returns with writes that were never flushed (a terminal that buffers until flush() shows nothing of them); the screen content is left to C02; non-trivial = a completion emptied the region",
                strategy: |t| multi_strategy(t).prop_map(|mut c| { c.ops.insert(0, MOp::SetAlignment(true)); c }).boxed(),
                cases: |t| t.pick(3_000, 200_000),
                run: run_bottom_flushed,
                signature: no_signature,
                essential: &["completion_that_empties_the_region", "bottom_alignment"],
                workers: w,
                decode: None,
            }),
        ],
    }
}
