//! C02 MultiProgress shows every member once, in logical order, below the log.
use std::collections::HashMap;
use std::time::Duration;

use indicatif::{MultiProgress, ProgressBar, ProgressDrawTarget, ProgressStyle};
use proptest::prelude::*;
use serde::{Deserialize, Serialize};

use crate::clock;
use crate::ensure;
use crate::hist::pick;
use crate::multi::*;
use crate::runner::*;
use crate::vterm::VTerm;

pub fn run_history(c: &MultiCase) -> CaseResult {
    let _clk = clock::Armed::new();
    let mut it = Interp::new(c);
    let mut v = Verdict::default();
    let mut max_alive = 0;
    let mut structural = false;
    let mut freed = false;
    // unlimited target: at least 2 ms per op, so that the bars' own position throttle never bites;
    // rate-limited target: the generated step (0 = frozen clock, most ordinary draws are skipped)
    let step = if c.hz.is_some() { c.step_ms } else { c.step_ms.max(2) };
    let mut skipped_draws = 0;
    for (i, op) in c.ops.iter().enumerate() {
        clock::advance(Duration::from_millis(step as u64));
        let members_before = it.model.entries.len();
        let out = catch(|| it.step(op)).map_err(|p| Fail::new("panic", format!("op #{i} {op:?} panicked: {p} (ops {:?})", &c.ops[..=i])))??;
        if let Some(Err(e)) = &out.io_result {
            return Err(Fail::new("io", format!("op #{i} {op:?} returned an error although the terminal never failed: {e}")));
        }
        if out.skipped {
            v.label("op_skipped_no_handle");
            continue;
        }
        let ctx = format!("op #{i} {op:?} ({}x{} terminal, ops {:?})", it.rows, it.cols, &c.ops[..=i]);
        it.check_frames(&out, &ctx)?;
        if out.frames.is_empty() && matches!(op, MOp::Tick(_) | MOp::Inc(..) | MOp::SetMessage(..)) && out.note != "inc_throttled" {
            skipped_draws += 1;
        }
        max_alive = max_alive.max(it.model.entries.iter().filter(|e| !e.zombie).count());
        match out.note {
            "insert" | "insert_from_back" | "insert_before" | "insert_after" => {
                structural = true;
                v.label(out.note);
            }
            "add" if freed => v.label("slot_reuse_after_removal"),
            "" | "add" => {}
            n => v.label(n),
        }
        if matches!(op, MOp::Remove(_) | MOp::Drop(_)) && it.model.entries.len() < members_before {
            structural = true;
            freed = true;
        }
        if matches!(op, MOp::Drop(_)) {
            structural = true;
        }
        v.label_if(it.model.bottom && it.model.max_frame_h > crate::hist::height_of(&it.model.frame(), it.cols), "bottom_alignment_shrink");
        v.label_if(it.bottom_empty_frame_seen, "bottom_alignment_frame_emptied");
        v.label_if(!it.model.blocks.is_empty(), "static_block");
        v.label_if(matches!(op, MOp::MpPrintln(t) | MOp::BarPrintln(_, t) if t.len() > it.rows * it.cols) && max_alive >= 1, "printed_line_taller_than_the_terminal");
        v.label_if(it.model.entries.iter().any(|e| e.drawn.as_ref().map_or(false, |d| d.len() >= 3 && d[1..d.len() - 1].iter().any(|l| l.is_empty()))), "bar_with_a_blank_row_inside");
    }
    it.teardown()?;
    v.nontrivial = max_alive >= 2 && structural;
    v.label_if(max_alive >= 2, "two_bars_alive");
    v.label_if(c.hz.is_some() && skipped_draws > 0, "draws_skipped_by_the_limiter");
    Ok(v)
}

/// Known finding F-C02a: under bottom alignment the blank rows the frame is shifted down by are
/// written above everything the draw emits and counted as frame rows: text printed in the same
/// draw, the output of a suspend closure and retained finished bars are then erased or displaced.
/// Signature over the case: after bottom alignment was switched on, something prints text, clears
/// or suspends the region, or drops a handle. (Bottom alignment with add/insert/remove/tick/
/// set_message/finish only - its documented use - stays under the strict oracle.)
pub fn signature(c: &MultiCase) -> Option<&'static str> {
    // (1) static: bottom alignment combined with text / clear / suspend / drop (kind screen_bottom)
    let mut bottom_seen = false;
    let mut bottom = false;
    for o in &c.ops {
        match o {
            MOp::SetAlignment(true) => bottom_seen = true,
            MOp::Drop(_) | MOp::DropUnwinding(_) | MOp::MpClear | MOp::MpSuspend(_) | MOp::BarSuspend(..) | MOp::MpPrintln(_) | MOp::BarPrintln(..) | MOp::BarPrintlnUnwinding(..) if bottom_seen => bottom = true,
            _ => {}
        }
    }
    // (2) found by re-running the history:
    //  F-C02b: remove() does not repaint; when a visibly finished bar at the head of the list is dropped
    //          before the next repaint, the row kept on screen is the removed bar's stale row;
    //  F-C01b seen through a MultiProgress: empty first suspend line while no bar row is on screen.
    let _clk = clock::Armed::new();
    let mut it = Interp::new(c);
    let step = if c.hz.is_some() { c.step_ms } else { c.step_ms.max(2) };
    for op in &c.ops {
        clock::advance(Duration::from_millis(step as u64));
        if !matches!(catch(|| it.step(op)), Ok(Ok(_))) {
            break;
        }
    }
    let flags = [
        (bottom || it.model.bottom_loose, "bottom_alignment_shift_rows"),
        (it.stale_reap_seen, "remove_then_retain_before_repaint"),
        (it.empty_suspend_line_seen, "ordinary_empty_line_after_text_only_draw"),
    ];
    drop(it);
    let names: Vec<&str> = flags.iter().filter(|f| f.0).map(|f| f.1).collect();
    if names.is_empty() {
        None
    } else {
        Some(crate::runner::intern(names.join("|")))
    }
}

/// the same histories on a rate-limited target: the 20-frame burst is used up first in half of the cases
pub fn limited_strategy(tier: Tier) -> BoxedStrategy<MultiCase> {
    let n = tier.pick(30, 50);
    (16u8..=40, prop_oneof![Just(1u8), Just(20), Just(255)], prop_oneof![3 => Just(0u32), 1 => Just(1u32), 1 => Just(30u32), 1 => Just(2000u32)], any::<bool>())
        .prop_flat_map(move |(cols, hz, step_ms, burn)| (Just((cols, hz, step_ms, burn)), proptest::collection::vec(mop_strategy(cols as usize, false), 0..n)))
        .prop_map(|((cols, hz, step_ms, burn), ops)| {
            let mut all = vec![];
            if burn {
                let leave = BarSpec { two_lines: false, len: Some(5), on_finish: 0, msg: String::new(), key_nl: false, blank_first: 0 };
                all.push(MOp::Add(leave));
                all.extend(std::iter::repeat(MOp::Tick(0)).take(22));
            }
            all.extend(ops);
            MultiCase { rows: 80, cols: cols as u16, hz: Some(hz), step_ms, ops: all, final_drops: vec![] }
        })
        .boxed()
}

pub fn history_strategy(tier: Tier) -> BoxedStrategy<MultiCase> {
    let n = tier.pick(30, 50);
    (16u8..=40)
        .prop_flat_map(move |cols| {
            (Just(cols), proptest::collection::vec(mop_strategy(cols as usize, false), 0..n), proptest::collection::vec((any::<u16>(), any::<u16>()), 0..2), proptest::option::weighted(0.12, (any::<u16>(), any::<bool>(), 1usize..3 * cols as usize)), proptest::option::weighted(0.25, any::<u32>()))
        })
        .prop_map(|(cols, mut ops, detaches, giant, key_nl)| {
            // in a quarter of the histories some bars have a custom key that writes a line break (every third
            // of them two: a blank row inside the bar's rendering)
            if let Some(mask) = key_nl {
                let mut k = 0;
                for op in ops.iter_mut() {
                    if let MOp::Add(spec) | MOp::Insert(_, spec) | MOp::InsertFromBack(_, spec) | MOp::InsertBefore(_, spec) | MOp::InsertAfter(_, spec) = op {
                        spec.key_nl = mask >> (k % 32) & 1 == 1;
                        k += 1;
                    }
                }
            }
            // one printed line that alone wraps into more rows than the terminal has (80)
            if let Some((pos, through_bar, extra)) = giant {
                let at = crate::hist::pick(pos, ops.len() + 1);
                let text = "g".repeat(80 * cols as usize + extra);
                ops.insert(at, if through_bar { MOp::BarPrintln(pos, text) } else { MOp::MpPrintln(text) });
            }
            // a member that is given another draw target leaves the MultiProgress like a removed one
            // (its slot stays listed but empty): set_draw_target(hidden) on a generated member
            for (pos, sel) in detaches {
                let at = crate::hist::pick(pos, ops.len() + 1);
                ops.insert(at, MOp::Detach(sel));
            }
            MultiCase { rows: 80, cols: cols as u16, hz: None, step_ms: 2, ops, final_drops: vec![] }
        })
        .boxed()
}

// ------------------------------------------------------------------------------------------
// concurrent updates from real threads

#[derive(Debug, Clone, Serialize, Deserialize)]
pub struct ThreadsCase {
    threads: u8,
    updates: u16,
    hz: Option<u8>,
    yield_every: u8,
}

fn parse_frame(rows: &[String]) -> Result<HashMap<usize, (u64, u64)>, String> {
    let mut m = HashMap::new();
    for r in rows {
        if r.is_empty() {
            continue;
        }
        // "T<tag>:<pos>:<msg>"
        let parts: Vec<&str> = r.split(':').collect();
        let ok = parts.len() == 3 && parts[0].starts_with('T');
        let parsed = if ok {
            match (parts[0][1..].parse::<usize>(), parts[1].parse::<u64>(), parts[2].parse::<u64>()) {
                (Ok(t), Ok(p), Ok(mm)) => Some((t, p, mm)),
                _ => None,
            }
        } else {
            None
        };
        let Some((t, p, mm)) = parsed else {
            return Err(format!("unparsable row {r:?} in frame {rows:?}"));
        };
        if m.insert(t, (p, mm)).is_some() {
            return Err(format!("bar T{t} appears twice in frame {rows:?}"));
        }
    }
    Ok(m)
}

fn run_threads(c: &ThreadsCase) -> CaseResult {
    let n = c.threads.clamp(2, 8) as usize;
    let vt = VTerm::new(40, 60).with_snapshots();
    let target = match c.hz {
        Some(hz) => ProgressDrawTarget::term_like_with_hz(vt.boxed(), hz.max(1)),
        None => ProgressDrawTarget::term_like(vt.boxed()),
    };
    let mp = MultiProgress::with_draw_target(target);
    let bars: Vec<ProgressBar> = (0..n)
        .map(|t| {
            let pb = mp.add(ProgressBar::new(1_000_000));
            pb.set_style(ProgressStyle::with_template(&format!("T{t}:{{pos}}:{{msg}}")).unwrap());
            pb.set_message("0");
            pb
        })
        .collect();
    let updates = c.updates.max(1) as u64;
    let r = catch(|| {
        std::thread::scope(|s| {
            for pb in &bars {
                s.spawn(move || {
                    for k in 1..=updates {
                        pb.set_position(k);
                        pb.set_message(k.to_string());
                        if c.yield_every > 0 && k % c.yield_every as u64 == 0 {
                            std::thread::yield_now();
                        }
                    }
                });
            }
        });
    });
    r.map_err(|p| Fail::new("panic", format!("concurrent updates panicked: {p}")))?;
    let mut frames = vt.take_frames();
    if c.hz.is_none() {
        // no limiter: every set_message is a draw, so once all threads are done the last frame already
        // shows every bar's final state - no update may have been dropped on the way
        let fr = frames.last().ok_or_else(|| Fail::new("no_frame", "no frame was painted at all"))?;
        let shown = parse_frame(&fr.rows).map_err(|e| Fail::new("frame_shape", format!("last frame: {e}")))?;
        for t in 0..n {
            ensure!(shown.get(&t) == Some(&(updates, updates)), "update_lost", "all {n} threads are done ({updates} updates each, unlimited target) and the last frame shows {:?} for bar T{t}; its final state is ({updates},{updates})", shown.get(&t));
        }
    }
    // a final forced draw of every bar
    catch(|| {
        for pb in &bars {
            pb.force_draw();
        }
    })
    .map_err(|p| Fail::new("panic", format!("force_draw panicked: {p}")))?;
    frames.extend(vt.take_frames());
    let mut last: HashMap<usize, (u64, u64)> = HashMap::new();
    let mut order_ok = true;
    for (k, fr) in frames.iter().enumerate() {
        let shown = parse_frame(&fr.rows).map_err(|e| Fail::new("frame_shape", format!("frame {k}: {e}")))?;
        // visual order = add order
        let tags: Vec<usize> = fr.rows.iter().filter(|r| !r.is_empty()).filter_map(|r| r[1..].split(':').next().and_then(|t| t.parse().ok())).collect();
        if tags.windows(2).any(|w| w[0] >= w[1]) {
            order_ok = false;
        }
        ensure!(order_ok, "order", "frame {k}: bars out of order: {:?}", fr.rows);
        for (t, (p, m)) in &shown {
            ensure!(*p <= updates && *m <= updates, "impossible_state", "frame {k}: bar T{t} shows pos {p} msg {m}, it never went beyond {updates}");
            ensure!(*p == *m || *p == *m + 1, "impossible_state", "frame {k}: bar T{t} shows pos {p} with msg {m}: never a state of that bar");
            if let Some((lp, lm)) = last.get(t) {
                ensure!((*p, *m) >= (*lp, *lm), "older_state", "frame {k}: bar T{t} shows ({p},{m}) after an earlier frame showed ({lp},{lm})");
            }
            last.insert(*t, (*p, *m));
        }
        for t in last.keys() {
            ensure!(shown.contains_key(t), "member_missing", "frame {k}: bar T{t} was shown before and is missing now: {:?}", fr.rows);
        }
    }
    ensure!(!frames.is_empty(), "no_frame", "no frame was painted at all");
    for t in 0..n {
        ensure!(last.get(&t) == Some(&(updates, updates)), "final_state", "the last frame shows {:?} for bar T{t}, final state is ({updates},{updates})", last.get(&t));
    }
    let mut v = Verdict::default();
    v.nontrivial = frames.len() >= 3;
    v.label_if(frames.len() >= 3, "several_frames");
    v.label_if(c.hz.is_some(), "rate_limited");
    Ok(v)
}

// ------------------------------------------------------------------------------------------
// bars that change hands between two MultiProgress objects

#[derive(Debug, Clone, Serialize, Deserialize)]
pub enum TwoOp {
    /// a new bar, added to the first (false) or second (true) MultiProgress
    Add(bool),
    /// hand bar `.0` to the other MultiProgress (a removed bar: to the first) with add (0), insert(0, ..) (1)
    /// or insert_from_back(0, ..) (2)
    Move(u16, u8),
    /// give bar `.0` to the MultiProgress it already belongs to: no effect
    Again(u16),
    Tick(u16),
    Inc(u16),
    Finish(u16),
    Remove(u16),
}

#[derive(Debug, Clone, Serialize, Deserialize)]
pub struct TwoCase {
    ops: Vec<TwoOp>,
}

fn run_two(c: &TwoCase) -> CaseResult {
    let _clk = clock::Armed::new();
    let vts = [VTerm::raw(60, 40), VTerm::raw(60, 40)];
    let mps = [
        MultiProgress::with_draw_target(ProgressDrawTarget::term_like(vts[0].boxed())),
        MultiProgress::with_draw_target(ProgressDrawTarget::term_like(vts[1].boxed())),
    ];
    struct B {
        pb: ProgressBar,
        tag: usize,
        home: Option<usize>,
        pos: u64,
        finished: bool,
    }
    // per MultiProgress: (tag, rendering cached at the bar's last draw there)
    let mut lists: [Vec<(usize, Option<String>)>; 2] = [vec![], vec![]];
    let mut bars: Vec<B> = vec![];
    let mut v = Verdict::default();
    let mut moved_and_drawn = false;
    let mut pending_move: Vec<usize> = vec![];
    for (i, op) in c.ops.iter().enumerate() {
        clock::advance(Duration::from_millis(2));
        let flushes = [vts[0].nflush(), vts[1].nflush()];
        let n = bars.len();
        let r = catch(|| match op {
            TwoOp::Add(second) => {
                if n >= 6 {
                    return;
                }
                let m = *second as usize;
                let tag = n;
                let pb = mps[m].add(ProgressBar::with_draw_target(Some(9), ProgressDrawTarget::hidden()));
                pb.set_style(ProgressStyle::with_template(&format!("T{tag}:{{pos}}")).unwrap());
                lists[m].push((tag, None));
                bars.push(B { pb, tag, home: Some(m), pos: 0, finished: false });
            }
            TwoOp::Move(sel, how) if n > 0 => {
                let b = &mut bars[pick(*sel, n)];
                let to = match b.home {
                    Some(m) => 1 - m,
                    None => 0,
                };
                let back = match how % 3 {
                    0 => mps[to].add(b.pb.clone()),
                    1 => mps[to].insert(0, b.pb.clone()),
                    _ => mps[to].insert_from_back(0, b.pb.clone()),
                };
                drop(back);
                if let Some(m) = b.home {
                    // it leaves the old one (which repaints without it) ...
                    lists[m].retain(|e| e.0 != b.tag);
                }
                // ... and is a member of the new one, not drawn there yet
                if how % 3 == 1 {
                    lists[to].insert(0, (b.tag, None));
                } else {
                    lists[to].push((b.tag, None));
                }
                b.home = Some(to);
            }
            TwoOp::Again(sel) if n > 0 => {
                let b = &bars[pick(*sel, n)];
                if let Some(m) = b.home {
                    drop(mps[m].insert(0, b.pb.clone()));
                }
            }
            TwoOp::Tick(sel) | TwoOp::Inc(sel) | TwoOp::Finish(sel) if n > 0 => {
                let b = &mut bars[pick(*sel, n)];
                match op {
                    TwoOp::Tick(_) => b.pb.tick(),
                    TwoOp::Inc(_) => {
                        b.pos = b.pos.wrapping_add(1);
                        b.pb.inc(1)
                    }
                    _ => {
                        b.pb.finish();
                        b.pos = 9;
                        b.finished = true;
                    }
                }
                if let Some(m) = b.home {
                    if let Some(e) = lists[m].iter_mut().find(|e| e.0 == b.tag) {
                        e.1 = Some(format!("T{}:{}", b.tag, b.pos));
                    }
                }
            }
            TwoOp::Remove(sel) if n > 0 => {
                let b = &mut bars[pick(*sel, n)];
                if let Some(m) = b.home.take() {
                    mps[m].remove(&b.pb);
                    lists[m].retain(|e| e.0 != b.tag);
                }
            }
            _ => {}
        });
        r.map_err(|p| Fail::new("panic", format!("op #{i} {op:?} panicked: {p} (ops {:?})", &c.ops[..=i])))?;
        if let TwoOp::Move(..) = op {
            pending_move = bars.iter().filter(|b| b.home.is_some()).map(|b| b.tag).collect();
        }
        for m in 0..2 {
            if vts[m].nflush() == flushes[m] {
                continue;
            }
            let got = vts[m].last_frame_lines().map_err(|e| Fail::new("harness", e))?;
            let want: Vec<String> = lists[m].iter().filter_map(|e| e.1.clone()).collect();
            let got: Vec<String> = got.iter().map(|l| l.trim_end().to_string()).filter(|l| !l.is_empty()).collect();
            ensure!(
                got == want,
                "two_multis",
                "op #{i} {op:?}: MultiProgress #{m} painted {got:?}, its members in order are {:?} (ops {:?})",
                lists[m],
                &c.ops[..=i]
            );
            if matches!(op, TwoOp::Tick(_) | TwoOp::Inc(_) | TwoOp::Finish(_)) && !pending_move.is_empty() {
                moved_and_drawn = true;
            }
        }
        // a draw of a member paints on its own MultiProgress's terminal and nowhere else
        if let TwoOp::Tick(sel) | TwoOp::Inc(sel) | TwoOp::Finish(sel) = op {
            if n > 0 {
                let b = &bars[pick(*sel, n)];
                for m in 0..2 {
                    let painted = vts[m].nflush() != flushes[m];
                    ensure!(painted == (b.home == Some(m)), "two_multis", "op #{i} {op:?}: bar T{} is a member of {:?}, but MultiProgress #{m} {} (ops {:?})", b.tag, b.home, if painted { "was repainted" } else { "was not repainted" }, &c.ops[..=i]);
                }
            }
        }
    }
    for b in bars.drain(..) {
        catch(move || drop(b.pb)).map_err(|p| Fail::new("panic", format!("dropping a bar panicked: {p}")))?;
    }
    v.nontrivial = moved_and_drawn;
    v.label_if(moved_and_drawn, "bar_drawn_after_it_changed_hands");
    v.label_if(c.ops.iter().any(|o| matches!(o, TwoOp::Again(_))), "member_given_to_its_own_multi_progress_again");
    Ok(v)
}

fn two_strategy(tier: Tier) -> BoxedStrategy<TwoCase> {
    let n = tier.pick(24, 48);
    let s = || any::<u16>();
    let op = prop_oneof![
        3 => any::<bool>().prop_map(TwoOp::Add),
        3 => (s(), 0u8..3).prop_map(|(b, h)| TwoOp::Move(b, h)),
        1 => s().prop_map(TwoOp::Again),
        5 => s().prop_map(TwoOp::Tick),
        3 => s().prop_map(TwoOp::Inc),
        1 => s().prop_map(TwoOp::Finish),
        1 => s().prop_map(TwoOp::Remove),
    ];
    proptest::collection::vec(op, 0..n).prop_map(|ops| TwoCase { ops }).boxed()
}

pub fn property() -> Property {
    let w = default_workers();
    Property {
        id: "C02",
        level: "exploration",
        assumptions: &[
            "a bar that was never drawn shows nothing; 'most recently drawn rendering' = the rendering cached at the bar's last draw attempt",
            "after println/clear/suspend/remove a retained block of a visibly finished, dropped bar may be present (in place) or absent; until then it must be present",
            "bottom alignment may leave up to (largest frame height so far - current frame height) blank rows between log and frame",
            "positional inserts are generated only while no dropped-but-still-listed bar exists (the documentation does not say whether those count)",
            "set_move_cursor is outside the quantifier (documented as unusable when the number of bars changes); set_draw_target on a member is generated only in the form set_draw_target(hidden), which makes the bar leave the MultiProgress",
            "thread part: real OS threads, frames recorded by the terminal; the schedule-controlled variant is part of the C08 harness",
        ],
        parts: vec![
            Box::new(Gen::<MultiCase> {
                name: "history",
                rule: "one MultiProgress on an 80-row x 16..40-column VTerm, 0-30 (thorough 50) ops from add/insert/insert_from_back/insert_before/insert_after/remove/tick/inc/set_message/finish*/abandon/drop/mp.println/bar.println/mp.clear/mp.suspend/bar.suspend/set_alignment over up to 8 one- or two-line bars with unique tags and random finish behaviours; lock-step list model; at every flush the screen must be log ++ (retained blocks) ++ each drawn member's cached rendering exactly once in model order; non-trivial = >=2 bars alive and an insert-not-at-end/remove/drop",
                strategy: history_strategy,
                cases: |t| t.pick(3_000, 480_000),
                run: run_history,
                signature,
                essential: &["two_bars_alive", "insert", "insert_from_back", "insert_before", "insert_after", "slot_reuse_after_removal", "head_zombie_reaped", "non_head_zombie", "bar_println", "static_block", "bottom_alignment_shrink", "bottom_alignment_frame_emptied", "printed_line_taller_than_the_terminal", "bar_with_a_blank_row_inside"],
                workers: w,
                decode: Some(|u| decode_multi(u, 0)),
            }),
            Box::new(Gen::<MultiCase> {
                name: "history_limited",
                rule: "the same histories on a target with a refresh rate of 1, 20 or 255 Hz under a frozen or slowly advancing virtual clock (in half of the cases the 20-frame burst is used up first), so that most ordinary draws are skipped: whatever is painted must still be log ++ retained blocks ++ each drawn member's rendering cached at its last draw attempt, exactly once, in order - in particular a finished bar that is updated and then dropped must be retained with its latest rendering; non-trivial = a draw was skipped by the limiter and >= 2 bars alive",
                strategy: limited_strategy,
                cases: |t| t.pick(1_500, 240_000),
                run: run_history,
                signature,
                essential: &["two_bars_alive", "draws_skipped_by_the_limiter", "static_block", "head_zombie_reaped"],
                workers: w,
                decode: None,
            }),
            Box::new(Gen::<TwoCase> {
                name: "two_multis",
                rule: "two MultiProgress objects on two terminals and up to six bars; ops add / hand a bar to the other MultiProgress with add, insert(0, ..) or insert_from_back(0, ..) / give a member to its own MultiProgress again (no effect) / tick / inc / finish / remove; whenever a MultiProgress paints, the frame is the cached renderings of exactly its current members in its order, and a draw of a bar repaints the MultiProgress it belongs to and no other; non-trivial = a bar was drawn after it changed hands",
                strategy: two_strategy,
                cases: |t| t.pick(3_000, 300_000),
                run: run_two,
                signature: no_signature,
                essential: &["bar_drawn_after_it_changed_hands", "member_given_to_its_own_multi_progress_again"],
                workers: w,
                decode: None,
            }),
            Box::new(Gen::<ThreadsCase> {
                name: "threads",
                rule: "2-8 real threads, each owning one bar of a shared MultiProgress and issuing set_position(k); set_message(k) for k = 1..updates; every recorded frame must show each bar once, in add order, in a state it really had (pos == msg or msg+1), never older than before; on an unlimited target the last frame painted by the threads themselves already shows every final state (no update dropped), and the last frame after a forced draw shows the final states",
                strategy: |t| {
                    (2u8..=8, 20u16..t.pick(400, 3000), proptest::option::of(prop_oneof![Just(1u8), Just(20), Just(255)]), 0u8..8)
                        .prop_map(|(threads, updates, hz, yield_every)| ThreadsCase { threads, updates, hz, yield_every })
                        .boxed()
                },
                cases: |t| t.pick(40, 6_000),
                run: run_threads,
                signature: no_signature,
                essential: &["several_frames", "rate_limited"],
                workers: 2,
                decode: None,
            }),
        ],
    }
}
