//! C18 Terminal I/O failures never panic, poison or corrupt logical state.
use std::io;
use std::time::Duration;

use indicatif::{ProgressBar, ProgressDrawTarget};
use proptest::prelude::*;
use serde::{Deserialize, Serialize};

use crate::clock;
use crate::ensure;
use crate::hist::*;
use crate::multi::*;
use crate::props::c01::{self, BOp};
use crate::runner::*;
use crate::vterm::{FaultMode, FaultPlan, VTerm};

#[derive(Debug, Clone, Copy, Serialize, Deserialize)]
pub struct Fault {
    /// selects the index k of the failing terminal call among the calls of the fault-free run
    sel: u16,
    /// 0 only k, 1 k and all later, 2 every second from k, 3 k and k+1
    mode: u8,
    kind: u8,
}

fn plan(f: &Fault, total_calls: usize) -> FaultPlan {
    FaultPlan {
        at: pick(f.sel, total_calls + 1),
        mode: match f.mode % 4 {
            0 => FaultMode::Once,
            1 => FaultMode::AllLater,
            2 => FaultMode::EverySecond,
            _ => FaultMode::Pair,
        },
        kind: [io::ErrorKind::BrokenPipe, io::ErrorKind::WouldBlock, io::ErrorKind::Other, io::ErrorKind::Interrupted, io::ErrorKind::TimedOut][f.kind as usize % 5],
        // kinds 5.. are errors as the operating system reports them: EIO, EPIPE, ENOSPC, EAGAIN
        os_code: [5, 32, 28, 11].get((f.kind as usize % 11).wrapping_sub(5)).copied(),
        // kinds 9 and 10: an error that is nothing but its kind (no message, no inner error)
        bare: f.kind % 11 >= 9,
    }
}

fn fault_strategy() -> BoxedStrategy<Fault> {
    (any::<u16>(), 0u8..4, 0u8..11).prop_map(|(sel, mode, kind)| Fault { sel, mode, kind }).boxed()
}

type Getters = (u64, Option<u64>, String, String, bool);
fn getters(pb: &ProgressBar) -> Result<Getters, String> {
    catch(|| (pb.position(), pb.length(), pb.message(), pb.prefix(), pb.is_finished()))
}

// ------------------------------------------------------------------------------------------
// single bar

#[derive(Debug, Clone, Serialize, Deserialize)]
pub struct SingleCase {
    bar: c01::BarCase,
    fault: Fault,
}

fn single_run(c: &c01::BarCase, fault: Option<FaultPlan>) -> Result<(Vec<Result<Getters, String>>, usize, Vec<&'static str>), Fail> {
    let _clk = clock::Armed::new();
    let (rows, cols) = (c.rows.max(1) as usize, c.cols.max(1) as usize);
    let vt = VTerm::new(rows, cols);
    vt.set_fault(fault);
    let pb = Guarded::new(ProgressBar::with_draw_target(c.len, ProgressDrawTarget::term_like(vt.boxed())));
    pb.set_style(c.tpl.style());
    let mut st = BarState::new(c.len, c.tpl.clone());
    let mut got = vec![];
    let mut struck: Vec<&'static str> = vec![];
    for (i, op) in c.ops.iter().enumerate() {
        let next = c01::apply_model(&st, op);
        if height_of(&next.frame(), cols) > rows {
            got.push(Ok((0, None, String::new(), String::new(), false)));
            continue;
        }
        st = next;
        clock::advance(Duration::from_millis(2));
        let before = vt.lock().faults_fired;
        catch(|| c01::exec(&pb, &vt, op)).map_err(|p| {
            Fail::new(
                "panic",
                format!("op #{i} {op:?} panicked with a failing terminal ({:?}): {p}; ops {:?}", fault, &c.ops[..=i]),
            )
        })?;
        if vt.lock().faults_fired > before {
            struck.push(match op {
                BOp::SetTabWidth(_) => "set_tab_width",
                BOp::Suspend(_) => "suspend",
                BOp::Println(_) => "println",
                BOp::Finish | BOp::FinishWithMessage(_) | BOp::FinishAndClear | BOp::Abandon | BOp::AbandonWithMessage(_) => "finish",
                _ => "draw",
            });
        }
        got.push(getters(&pb));
    }
    // "later calls keep working": once the terminal works again, a forced redraw of the unchanged state
    // reaches it
    let fired_total = vt.lock().faults_fired;
    if fired_total > 0 && !st.finished() && !st.frame().is_empty() {
        vt.set_fault(None);
        let calls = vt.ncalls();
        catch(|| pb.force_draw()).map_err(|p| Fail::new("panic", format!("force_draw after the terminal recovered panicked ({fault:?}): {p}")))?;
        ensure!(vt.ncalls() > calls, "dead_after_fault", "after {fired_total} failed terminal call(s) ({fault:?}) the terminal works again, but force_draw() of the bar made no terminal call; ops {:?}", c.ops);
        // (what the screen looks like after failed writes is not specified: only that the redraw is attempted)
        struck.push("recovered_and_redrawn");
        vt.set_fault(fault.map(|f| FaultPlan { at: usize::MAX, ..f }));
    }
    let before = vt.lock().faults_fired;
    pb.drop_now().map_err(|p| Fail::new("panic", format!("dropping the bar panicked with a failing terminal ({fault:?}): {p}")))?;
    if vt.lock().faults_fired > before {
        struck.push("drop");
    }
    let n = vt.ncalls();
    Ok((got, n, struck))
}

fn run_single(c: &SingleCase) -> CaseResult {
    let (clean, total, _) = single_run(&c.bar, None)?;
    let p = plan(&c.fault, total);
    let (faulty, _, struck) = single_run(&c.bar, Some(p))?;
    for (i, (a, b)) in clean.iter().zip(faulty.iter()).enumerate() {
        let b = b.as_ref().map_err(|e| Fail::new("poisoned", format!("getters after op #{i} {:?} panicked (lock poisoned?): {e}; fault {p:?}", c.bar.ops[i])))?;
        let a = a.as_ref().map_err(|e| Fail::new("harness", e.clone()))?;
        ensure!(a == b, "state", "after op #{i} {:?}: (position, length, message, prefix, finished) = {b:?} with the failing terminal, {a:?} without; fault {p:?}", c.bar.ops[i]);
    }
    let mut v = Verdict::default();
    v.nontrivial = !struck.is_empty();
    v.label_if(v.nontrivial && p.os_code.is_some(), "error_from_the_operating_system");
    v.label_if(v.nontrivial && p.bare && p.os_code.is_none(), "error_without_a_payload");
    v.label_if(struck.len() >= 2 && p.mode == FaultMode::Pair, "two_calls_in_a_row_failed");
    for s in struck {
        v.label(s);
    }
    Ok(v)
}

// ------------------------------------------------------------------------------------------
// MultiProgress

#[derive(Debug, Clone, Serialize, Deserialize)]
pub struct MultiFaultCase {
    multi: MultiCase,
    fault: Fault,
}

struct MultiTrace {
    getters: Vec<Vec<Result<Getters, String>>>,
    calls: usize,
    struck: Vec<&'static str>,
}

fn multi_run(c: &MultiCase, fault: Option<FaultPlan>) -> Result<MultiTrace, Fail> {
    let _clk = clock::Armed::new();
    let mut it = Interp::new(c);
    it.vt.lock().snapshots = false;
    it.vt.set_fault(fault);
    let mut tr = MultiTrace { getters: vec![], calls: 0, struck: vec![] };
    for (i, op) in c.ops.iter().enumerate() {
        clock::advance(Duration::from_millis(c.step_ms.max(2) as u64));
        let before = it.vt.lock().faults_fired;
        let out = catch(|| it.step(op)).map_err(|p| {
            Fail::new("panic", format!("op #{i} {op:?} panicked with a failing terminal ({fault:?}): {p}; ops {:?}", &c.ops[..=i]))
        })??;
        let fired = it.vt.lock().faults_fired > before;
        if fired {
            tr.struck.push(match op {
                MOp::SetTabWidth(..) => "set_tab_width",
                MOp::MpSuspend(_) | MOp::BarSuspend(..) => "suspend",
                MOp::MpPrintln(_) | MOp::BarPrintln(..) => "println",
                MOp::MpClear => "clear",
                MOp::Drop(_) => "drop",
                MOp::Detach(_) => "set_draw_target",
                MOp::Finish(_) | MOp::FinishWithMessage(..) | MOp::FinishAndClear(_) | MOp::Abandon(_) => "finish",
                _ => "draw",
            });
        }
        // explicit io::Result-returning calls report the error
        if let Some(r) = &out.io_result {
            if fired {
                ensure!(r.is_err(), "error_swallowed", "op #{i} {op:?}: a terminal call failed during the call but it returned Ok(()); fault {fault:?}; ops {:?}", &c.ops[..=i]);
            } else if fault.is_none() {
                ensure!(r.is_ok(), "harness", "op #{i} {op:?} failed without a fault: {r:?}");
            }
        }
        tr.getters.push(it.handles.iter().map(|h| getters(&h.pb)).collect());
    }
    // "later calls on the same and on sibling bars keep working": once the terminal works again, a tick of
    // one live bar repaints the group, and every member that has a rendering is part of that frame
    let fired_total = it.vt.lock().faults_fired;
    if fired_total > 0 && !it.model.bottom_ever {
        it.vt.set_fault(None);
        if let Some(h) = it.handles.iter().find(|h| h.member && !h.pb.is_finished()) {
            let calls = it.vt.ncalls();
            clock::advance(Duration::from_millis(5));
            catch(|| h.pb.tick()).map_err(|p| Fail::new("panic", format!("tick after the terminal recovered panicked ({fault:?}): {p}")))?;
            ensure!(it.vt.ncalls() > calls, "dead_after_fault", "after {fired_total} failed terminal call(s) ({fault:?}) the terminal works again, but tick() of live bar B{} made no terminal call; ops {:?}", h.tag, c.ops);
            if let Ok(lines) = it.vt.last_frame_lines() {
                for e in it.model.entries.iter().filter(|e| e.drawn.as_ref().map_or(false, |d| d.iter().any(|l| !l.is_empty()))) {
                    let tag = format!("B{}:", e.tag);
                    ensure!(
                        lines.iter().any(|l| l.starts_with(&tag)),
                        "sibling_lost_after_fault",
                        "after {fired_total} failed terminal call(s) ({fault:?}) and recovery, the frame repainted by tick() of B{} lacks member {tag} (frame {lines:?}); ops {:?}",
                        h.tag,
                        c.ops
                    );
                }
                tr.struck.push("recovered_and_redrawn");
            }
            // ... and members whose last handle is gone are retired as usual: once they have reached the head
            // of the list they leave it at the next paint, so after clear() and another tick nothing of them
            // is painted again (members that are still listed behind a live bar may be)
            if let Some(mp) = it.mp.as_ref() {
                let cleared = catch(|| mp.clear()).map_err(|p| Fail::new("panic", format!("clear() after the terminal recovered panicked ({fault:?}): {p}")))?;
                ensure!(cleared.is_ok(), "error_invented", "clear() on the recovered terminal returned {cleared:?} ({fault:?})");
                clock::advance(Duration::from_millis(5));
                catch(|| h.pb.tick()).map_err(|p| Fail::new("panic", format!("tick after the terminal recovered panicked ({fault:?}): {p}")))?;
                let listed: Vec<usize> = it.model.entries.iter().skip_while(|e| e.zombie).map(|e| e.tag).collect();
                if let Ok(lines) = it.vt.last_frame_lines() {
                    for l in &lines {
                        let tag = l.strip_prefix('B').and_then(|r| r.split(':').next()).and_then(|t| t.parse::<usize>().ok());
                        if let Some(tag) = tag {
                            ensure!(
                                listed.contains(&tag),
                                "dropped_member_not_retired",
                                "after {fired_total} failed terminal call(s) ({fault:?}), recovery, clear() and a tick of B{}, the frame still paints B{tag}, whose last handle was dropped and which had reached the head of the list (frame {lines:?}); ops {:?}",
                                h.tag,
                                c.ops
                            );
                        }
                    }
                    tr.struck.push("retired_members_checked");
                }
            }
        }
        it.vt.set_fault(fault.map(|f| FaultPlan { at: usize::MAX, ..f }));
    }
    let before = it.vt.lock().faults_fired;
    it.teardown().map_err(|f| Fail::new("panic", format!("{} (failing terminal {fault:?})", f.msg)))?;
    if it.vt.lock().faults_fired > before {
        tr.struck.push("drop");
    }
    tr.calls = it.vt.ncalls();
    Ok(tr)
}

fn run_multi(c: &MultiFaultCase) -> CaseResult {
    let clean = multi_run(&c.multi, None)?;
    let p = plan(&c.fault, clean.calls);
    let faulty = multi_run(&c.multi, Some(p))?;
    for (i, (a, b)) in clean.getters.iter().zip(faulty.getters.iter()).enumerate() {
        ensure!(a.len() == b.len(), "harness", "handle lists diverged at op #{i}");
        for (h, (x, y)) in a.iter().zip(b.iter()).enumerate() {
            let y = y.as_ref().map_err(|e| Fail::new("poisoned", format!("getters of bar handle #{h} after op #{i} {:?} panicked (lock poisoned?): {e}; fault {p:?}", c.multi.ops[i])))?;
            let x = x.as_ref().map_err(|e| Fail::new("harness", e.clone()))?;
            ensure!(x == y, "state", "after op #{i} {:?}: handle #{h} has (position, length, message, prefix, finished) = {y:?} with the failing terminal, {x:?} without; fault {p:?}", c.multi.ops[i]);
        }
    }
    let mut v = Verdict::default();
    v.nontrivial = !faulty.struck.is_empty();
    v.label_if(v.nontrivial && p.os_code.is_some(), "error_from_the_operating_system");
    v.label_if(v.nontrivial && p.bare && p.os_code.is_none(), "error_without_a_payload");
    v.label_if(faulty.struck.len() >= 2 && p.mode == FaultMode::Pair, "two_calls_in_a_row_failed");
    for s in faulty.struck {
        v.label(s);
    }
    Ok(v)
}

fn decode_fault(u: &mut FuzzInput) -> Fault {
    Fault { sel: u.u16(), mode: u.n(3) as u8, kind: u.n(10) as u8 }
}

fn decode_c18_single(u: &mut FuzzInput) -> SingleCase {
    let fault = decode_fault(u);
    SingleCase { bar: c01::decode_case(u), fault }
}

fn decode_c18_multi(u: &mut FuzzInput) -> MultiFaultCase {
    let fault = decode_fault(u);
    let mut multi = decode_multi(u, 0);
    for _ in 0..u.n(2) {
        let at = u.n(multi.ops.len());
        let sel = u.u16();
        multi.ops.insert(at, MOp::Detach(sel));
    }
    MultiFaultCase { multi, fault }
}

// ------------------------------------------------------------------------------------------
// a terminal that stays broken for a long history, on rate-limited targets

#[derive(Debug, Clone, Serialize, Deserialize)]
pub struct LongCase {
    hz: Option<u8>,
    in_multi: bool,
    /// number of rounds of forced draws against the failing terminal
    rounds: u16,
    /// which forced call is repeated: 0 println, 1 force_draw, 2 finish+reset, 3 suspend, 4 mixed
    call: u8,
    kind: u8,
    /// the terminal starts failing after this many good calls
    good_calls: u16,
    /// clock step per round in ms (0 = frozen: no ordinary draw is granted in between)
    #[serde(default)]
    step_ms: u8,
    /// an ordinary inc() + getter check every this many rounds (0 = only at the end)
    #[serde(default)]
    inc_every: u16,
}

fn run_long(c: &LongCase) -> CaseResult {
    let _clk = clock::Armed::new();
    let vt = VTerm::raw(50, 60);
    let target = match c.hz {
        Some(hz) => ProgressDrawTarget::term_like_with_hz(vt.boxed(), hz.max(1)),
        None => ProgressDrawTarget::term_like(vt.boxed()),
    };
    let mp = if c.in_multi { Some(indicatif::MultiProgress::with_draw_target(target)) } else { None };
    let mp = Guarded::new(mp);
    let (pb, sib) = match &*mp {
        Some(m) => (m.add(ProgressBar::with_draw_target(Some(10), ProgressDrawTarget::hidden())), Some(m.add(ProgressBar::with_draw_target(Some(10), ProgressDrawTarget::hidden())))),
        None => (ProgressBar::with_draw_target(Some(10), ProgressDrawTarget::term_like_with_hz(vt.boxed(), c.hz.unwrap_or(20).max(1))), None),
    };
    let (pb, sib) = (Guarded::new(pb), Guarded::new(sib));
    let kind = [io::ErrorKind::BrokenPipe, io::ErrorKind::WouldBlock, io::ErrorKind::Other, io::ErrorKind::Interrupted, io::ErrorKind::TimedOut][c.kind as usize % 5];
    vt.set_fault(Some(FaultPlan { at: c.good_calls as usize, mode: FaultMode::AllLater, kind, os_code: None, bare: c.kind % 3 == 2 }));
    let mut pos = 0u64;
    for r in 0..c.rounds {
        clock::advance(Duration::from_millis(c.step_ms as u64));
        let which = if c.call % 5 == 4 { (r % 4) as u8 } else { c.call % 5 };
        catch(|| match which {
            0 => pb.println("log"),
            1 => pb.force_draw(),
            2 => {
                pb.finish();
                pb.reset();
            }
            _ => pb.suspend(|| ()),
        })
        .map_err(|p| Fail::new("panic", format!("round {r}: forced call #{which} panicked with a terminal that fails since call {} ({kind:?}, rate {:?}, in MultiProgress: {}): {p}", c.good_calls, c.hz, c.in_multi)))?;
        if which == 2 {
            pos = 0;
        }
        if (c.inc_every > 0 && r % c.inc_every == 0) || r + 1 == c.rounds {
            catch(|| pb.inc(1)).map_err(|p| Fail::new("panic", format!("round {r}: inc panicked: {p}")))?;
            pos += 1;
            let g = getters(&pb).map_err(|e| Fail::new("poisoned", format!("round {r}: getters panicked (lock poisoned?): {e}")))?;
            ensure!(g.0 == pos, "state", "round {r}: position() = {}, expected {pos}", g.0);
            if let Some(s) = &*sib {
                catch(|| s.tick()).map_err(|p| Fail::new("panic", format!("round {r}: tick on the sibling bar panicked: {p}")))?;
                getters(s).map_err(|e| Fail::new("poisoned", format!("round {r}: sibling getters panicked: {e}")))?;
            }
        }
    }
    let r = (pb.drop_now(), sib.drop_now(), mp.drop_now());
    if let (Err(p), _, _) | (_, Err(p), _) | (_, _, Err(p)) = r {
        return Err(Fail::new("panic", format!("dropping after {} failed rounds panicked: {p}", c.rounds)));
    }
    let mut v = Verdict::default();
    v.nontrivial = vt.lock().faults_fired > 100;
    v.label_if(vt.lock().faults_fired > 100, "more_than_100_failed_calls");
    v.label_if(vt.lock().faults_fired > 300, "more_than_300_failed_calls");
    v.label_if(c.hz.is_some(), "rate_limited_target");
    v.label_if(c.in_multi, "inside_multi_progress");
    Ok(v)
}

// ------------------------------------------------------------------------------------------
// a fault that strikes a draw of the steady ticker

#[derive(Debug, Clone, Serialize, Deserialize)]
pub struct TickerFault {
    /// index of the failing terminal call (the ticker makes the calls)
    at: u8,
    kind: u8,
    /// 0 once, 1 every second call for a while (the terminal recovers after 40 calls)
    mode: u8,
    interval_ms: u8,
    in_multi: bool,
}

fn run_ticker_fault(c: &TickerFault) -> CaseResult {
    use std::time::{Duration, Instant};
    let vt = VTerm::raw(50, 80);
    let target = indicatif::ProgressDrawTarget::term_like_with_hz(vt.boxed(), 255);
    let (mp, pb) = if c.in_multi {
        let mp = indicatif::MultiProgress::with_draw_target(target);
        let pb = mp.add(indicatif::ProgressBar::new(100));
        (Some(mp), pb)
    } else {
        (None, indicatif::ProgressBar::with_draw_target(Some(100), target))
    };
    pb.set_style(indicatif::ProgressStyle::with_template("{spinner} {pos}/{len} {msg}").unwrap());
    let at = 3 + c.at as usize % 40;
    let kinds = [io::ErrorKind::BrokenPipe, io::ErrorKind::WouldBlock, io::ErrorKind::Other, io::ErrorKind::Interrupted, io::ErrorKind::TimedOut];
    // (one case in four: an outage - every call fails - that lasts for 300 ticks)
    let outage = c.mode % 4 == 3;
    vt.set_fault(Some(FaultPlan { at, mode: if outage { FaultMode::AllLater } else if c.mode % 2 == 0 { FaultMode::Once } else { FaultMode::EverySecond }, kind: kinds[c.kind as usize % kinds.len()], os_code: if c.kind % 7 == 6 { Some(5) } else { None }, bare: c.kind % 7 == 5 }));
    let interval = Duration::from_millis(1 + c.interval_ms as u64 % 4);
    let r = catch(|| pb.enable_steady_tick(interval));
    r.map_err(|p| Fail::new("panic", format!("enable_steady_tick panicked: {p}")))?;
    let wait_until = |cond: &dyn Fn() -> bool| {
        let t0 = Instant::now();
        while !cond() && t0.elapsed() < Duration::from_secs(10) {
            std::thread::sleep(Duration::from_millis(1));
        }
        cond()
    };
    let ctx = format!("steady tick every {interval:?}, terminal call #{at} fails ({:?}, mode {}), in MultiProgress: {}", kinds[c.kind as usize % kinds.len()], c.mode % 2, c.in_multi);
    ensure!(wait_until(&|| vt.lock().faults_fired > 0), "ticker_never_reached_fault", "{ctx}: the ticker made fewer than {at} terminal calls within 10 s");
    if c.mode % 2 == 1 {
        // let it fail for a while, then the terminal recovers
        wait_until(&|| vt.lock().faults_fired >= if outage { 300 } else { 20 });
    }
    vt.set_fault(None);
    // the bar keeps working: the ticker goes on redrawing, other calls work and are reflected
    let n = vt.nflush();
    ensure!(wait_until(&|| vt.nflush() >= n + 3), "ticker_dead_after_fault", "{ctx}: after the terminal recovered the bar was redrawn {} time(s) in 10 s", vt.nflush() - n);
    catch(|| {
        pb.inc(7);
        pb.set_message("after");
    })
    .map_err(|p| Fail::new("panic", format!("{ctx}: inc/set_message after the fault panicked: {p}")))?;
    ensure!(pb.position() == 7 && pb.message() == "after" && !pb.is_finished(), "state_diverged", "{ctx}: position {} message {:?} finished {}", pb.position(), pb.message(), pb.is_finished());
    let shows = |vt: &VTerm| vt.last_frame_lines().map_or(false, |l| l.iter().any(|x| x.contains("7/100 after")));
    ensure!(wait_until(&|| shows(&vt)), "ticker_dead_after_fault", "{ctx}: the state set after the fault (7/100 after) never reached the terminal; last frame {:?}", vt.last_frame_lines());
    catch(|| {
        pb.disable_steady_tick();
        pb.finish();
    })
    .map_err(|p| Fail::new("panic", format!("{ctx}: disable_steady_tick/finish panicked: {p}")))?;
    ensure!(pb.is_finished() && pb.position() == 100, "state_diverged", "{ctx}: after finish(): position {} finished {}", pb.position(), pb.is_finished());
    catch(move || {
        drop(pb);
        drop(mp);
    })
    .map_err(|p| Fail::new("panic", format!("{ctx}: drop panicked: {p}")))?;
    let mut v = Verdict::default();
    v.nontrivial = true;
    v.label("fault_inside_a_ticker_draw");
    v.label_if(c.in_multi, "inside_multi_progress");
    v.label_if(c.mode % 2 == 1, "repeated_faults_then_recovery");
    v.label_if(outage, "outage_of_300_ticks");
    Ok(v)
}

pub fn property() -> Property {
    let w = default_workers();
    Property {
        id: "C18",
        level: "fault_enumeration",
        assumptions: &[
            "faults are injected at the TermLike boundary: the k-th fallible terminal call (moves, writes, clear, flush) returns an io::Error (BrokenPipe / WouldBlock / Other / Interrupted / TimedOut, one built from the raw OS codes EIO / EPIPE / ENOSPC / EAGAIN, or one that is nothing but its kind), once, from then on, every second call, or the k-th and the call after it",
            "k is drawn uniformly over the calls of the fault-free run of the same history (generated, not exhaustive; the thorough tier raises the count)",
            "logical state is compared with a fault-free twin run of the same history",
        ],
        parts: vec![
            Box::new(Gen::<SingleCase> {
                name: "single",
                rule: "C01 single-bar histories (incl. set_tab_width, suspend, println, finish*, drop) x fault plan (index k among the fault-free run's terminal calls, mode once/all-later/every-second/two-in-a-row, 5 error kinds and 4 raw OS errors); no op may unwind, getters must equal the fault-free twin after every op; non-trivial = the fault fired inside an op (labelled by the op it struck)",
                strategy: |t| (c01::case_strategy(t), fault_strategy()).prop_map(|(bar, fault)| SingleCase { bar, fault }).boxed(),
                cases: |t| t.pick(4_000, 800_000),
                run: run_single,
                signature: no_signature,
                essential: &["set_tab_width", "suspend", "println", "finish", "draw", "drop", "recovered_and_redrawn", "error_from_the_operating_system", "error_without_a_payload", "two_calls_in_a_row_failed"],
                workers: w,
                decode: Some(decode_c18_single),
            }),
            Box::new(Gen::<MultiFaultCase> {
                name: "multi",
                rule: "C02 MultiProgress histories (incl. set_tab_width, mp.suspend, bar.suspend, mp.println, mp.clear, drop and final teardown) x the same fault plans; a line printed through a member during a caught panic followed by mp.println; additionally mp.println/mp.clear must return Err when a terminal call failed during them, and sibling bars must keep working",
                strategy: |t| {
                    (crate::props::c02::history_strategy(t), fault_strategy(), proptest::collection::vec((any::<u16>(), any::<u16>()), 0..3), 0u8..8, proptest::collection::vec((any::<u16>(), any::<u16>()), 0..2))
                        .prop_map(|(mut multi, fault, detaches, shape, unwinds)| {
                            // a quarter of the cases start with a bottom-aligned group of 3-4 drawn bars that is then
                            // cleared or shrunk in one draw (several blank rows are written by that single call)
                            if shape < 2 {
                                let bar = BarSpec { two_lines: false, len: Some(5), on_finish: 0, msg: String::new(), key_nl: false, blank_first: 0 };
                                let mut pre = vec![MOp::SetAlignment(true)];
                                let n = 3 + shape as usize;
                                for k in 0..n {
                                    pre.push(MOp::Add(bar.clone()));
                                    pre.push(MOp::Tick((k * 65535 / n) as u16));
                                }
                                if shape == 0 {
                                    pre.push(MOp::MpClear);
                                } else {
                                    pre.extend([MOp::Remove(0), MOp::Remove(0), MOp::Remove(0), MOp::MpPrintln("x".into())]);
                                }
                                pre.extend(multi.ops.drain(..));
                                multi.ops = pre;
                            }
                            // set_draw_target on a member (leaves the MultiProgress through disconnect) is a public call too
                            for (pos, sel) in detaches {
                                let at = pick(pos, multi.ops.len() + 1);
                                multi.ops.insert(at, MOp::Detach(sel));
                            }
                            // a line printed through a member while its thread unwinds stays pending until the next
                            // draw; here that draw is an mp.println, which has to report a failure of either text
                            for (pos, sel) in unwinds {
                                let at = pick(pos, multi.ops.len() + 1);
                                multi.ops.insert(at, MOp::MpPrintln("z".into()));
                                multi.ops.insert(at, MOp::BarPrintlnUnwinding(sel, "q".into()));
                            }
                            // (a hidden phase has no terminal calls that could fail: not part of this check)
                            for op in &mut multi.ops {
                                if matches!(op, MOp::HideMp | MOp::ShowMp) {
                                    *op = MOp::Tick(0);
                                }
                            }
                            MultiFaultCase { multi, fault }
                        })
                        .boxed()
                },
                cases: |t| t.pick(3_000, 600_000),
                run: run_multi,
                signature: no_signature,
                essential: &["set_tab_width", "suspend", "println", "clear", "finish", "draw", "drop", "set_draw_target", "error_from_the_operating_system", "error_without_a_payload", "two_calls_in_a_row_failed"],
                workers: w,
                decode: Some(decode_c18_multi),
            }),
            Box::new(Gen::<LongCase> {
                name: "long_fault",
                rule: "a terminal that fails from the k-th call on and stays broken for 50-700 rounds of forced draws (println / force_draw / finish+reset / suspend / mixed) on a standalone or MultiProgress target with refresh rate None/1/20/255: no call may panic, inc() and the getters of the bar and of a sibling keep working, drops do not panic; non-trivial = more than 100 failed terminal calls",
                strategy: |_| {
                    (proptest::option::weighted(0.8, prop_oneof![Just(1u8), Just(20), Just(255)]), any::<bool>(), 50u16..700, 0u8..5, 0u8..5, 0u16..30, prop_oneof![Just(0u8), Just(1), Just(50)], prop_oneof![Just(0u16), Just(16), Just(200)])
                        .prop_map(|(hz, in_multi, rounds, call, kind, good_calls, step_ms, inc_every)| LongCase { hz, in_multi, rounds, call, kind, good_calls, step_ms, inc_every })
                        .boxed()
                },
                cases: |t| t.pick(150, 8_000),
                run: run_long,
                signature: no_signature,
                essential: &["more_than_100_failed_calls", "more_than_300_failed_calls", "rate_limited_target", "inside_multi_progress"],
                workers: w,
                decode: None,
            }),
            Box::new(Gen::<TickerFault> {
                name: "ticker_fault",
                rule: "real threads: a steady ticker (1-4 ms) draws on a terminal whose k-th call (k = 3..42) fails once, or every second call 20 times before it recovers, or every call during 300 ticks; afterwards the ticker must go on redrawing (3 more frames and the state set after the fault on screen within 10 s), inc/set_message/disable_steady_tick/finish/drop must not panic and the getters must be right; non-trivial = every case",
                strategy: |_| (any::<u8>(), 0u8..5, 0u8..4, 0u8..4, any::<bool>()).prop_map(|(at, kind, mode, interval_ms, in_multi)| TickerFault { at, kind, mode, interval_ms, in_multi }).boxed(),
                cases: |t| t.pick(12, 600),
                run: run_ticker_fault,
                signature: no_signature,
                essential: &["fault_inside_a_ticker_draw", "inside_multi_progress", "repeated_faults_then_recovery", "outage_of_300_ticks"],
                workers: 8,
                decode: None,
            }),
        ],
    }
}
