//! Bridge from libFuzzer bytes to the property checks: the bytes become the random stream of a
//! proptest `TestRng` (PassThrough algorithm), the part's own strategy turns that stream into a
//! structured case, and the part's own oracle decides it. Coverage-guided mutation of the bytes
//! thus explores the same case space as the proptest runner, steered by coverage of indicatif.
use std::collections::HashMap;
use std::sync::{Mutex, OnceLock};

use crate::props;
use crate::runner::{load_known, write_replay, KnownFinding, Property};

struct Loaded {
    prop: Property,
    known: Vec<KnownFinding>,
}

thread_local! {
    static CACHE: std::cell::RefCell<HashMap<String, std::rc::Rc<Loaded>>> = std::cell::RefCell::new(HashMap::new());
}

static INIT: OnceLock<Mutex<()>> = OnceLock::new();

/// Run one fuzz input against part `part` of property `id`. Panics (= libFuzzer crash) on a
/// violation that is not a recorded known finding, after writing the replay JSON.
pub fn fuzz_one(id: &str, part: &str, data: &[u8]) {
    INIT.get_or_init(|| {
        crate::runner::install_panic_hook();
        console::set_colors_enabled(false);
        console::set_colors_enabled_stderr(false);
        Mutex::new(())
    });
    let loaded = CACHE.with(|c| {
        c.borrow_mut()
            .entry(id.to_string())
            .or_insert_with(|| {
                let prop = props::get(id).unwrap_or_else(|| panic!("unknown property {id}"));
                std::rc::Rc::new(Loaded { prop, known: load_known(id) })
            })
            .clone()
    });
    let p = loaded.prop.parts.iter().find(|p| p.name() == part).unwrap_or_else(|| panic!("no part {part} in {id}"));
    if let Some((case, msg)) = p.fuzz(data, &loaded.known) {
        let path = write_replay(id, part, &case, &msg);
        eprintln!("{msg}");
        eprintln!("VIOLATION property={id} replay={path}");
        panic!("VIOLATION property={id} replay={path}");
    }
}
