#![allow(dead_code)]
//! `vh <ID> <quick|thorough>` | `vh <ID> --replay <file>` | `vh selftest`
use vh::runner::Tier;
use vh::{clock, props, runner, vterm};

fn main() {
    let args: Vec<String> = std::env::args().collect();
    runner::install_panic_hook();
    console::set_colors_enabled(false);
    console::set_colors_enabled_stderr(false);
    if args.len() >= 2 && args[1] == "selftest" {
        let mut bad = 0;
        let cross = runner::catch(|| vterm::cross_check(1, 3000)).unwrap_or_else(|p| Err(format!("panicked: {p}"))).map(|n| println!("selftest vterm vs vt100: {n} screen comparisons agree"));
        for (n, r) in [("clock", clock::self_test()), ("vterm", vterm::self_test()), ("vterm_vs_vt100", cross)] {
            match r {
                Ok(()) => println!("selftest {n}: ok"),
                Err(e) => {
                    println!("HARNESS-PROBLEM: selftest {n}: {e}");
                    bad = 2;
                }
            }
        }
        std::process::exit(bad);
    }
    if args.len() < 3 {
        eprintln!("usage: vh <ID> <quick|thorough> | vh <ID> --replay <file> | vh selftest");
        std::process::exit(2);
    }
    let id = args[1].to_uppercase();
    let seed: u64 = std::env::var("VERIF_SEED")
        .ok()
        .and_then(|s| s.trim().parse::<i128>().ok())
        .map(|v| v as u64)
        .unwrap_or(0);
    let Some(prop) = props::get(&id) else {
        eprintln!("unknown property {id}");
        std::process::exit(2);
    };
    if args[2] == "--replay" {
        let Some(path) = args.get(3) else {
            eprintln!("--replay needs a file");
            std::process::exit(2);
        };
        runner::start_watchdog(600);
        std::process::exit(runner::run_replay(&prop, path));
    }
    let tier = match args[2].as_str() {
        "quick" => Tier::Quick,
        "thorough" => Tier::Thorough,
        t => {
            eprintln!("unknown tier {t}");
            std::process::exit(2);
        }
    };
    runner::start_watchdog(tier.pick(1500, 6 * 3600));
    std::process::exit(runner::run_property(&prop, tier, seed));
}
