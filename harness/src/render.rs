//! Render one frame of a bar with a given style and capture the lines as written.
use indicatif::{ProgressBar, ProgressDrawTarget, ProgressStyle};

use crate::runner::catch;
use crate::vterm::VTerm;

pub struct BarSetup {
    pub len: Option<u64>,
    pub pos: u64,
    pub msg: String,
    pub prefix: String,
    pub cols: u16,
    pub rows: u16,
    /// additional manual ticks before the captured one
    pub extra_ticks: u32,
    pub finish: bool,
    /// the bar's tab width (None: the default 8)
    pub tab_width: Option<usize>,
    /// after the style was installed: take it back with ProgressBar::style(), give it this template
    /// through the `template()` setter and install it again
    pub retemplate: Option<String>,
    /// draw once, then change the tab width to this, then draw the captured frame
    pub retab: Option<usize>,
}

impl Default for BarSetup {
    fn default() -> Self {
        BarSetup { len: Some(42), pos: 7, msg: "Msg".into(), prefix: "Pre".into(), cols: 300, rows: 200, extra_ticks: 0, finish: false, tab_width: None, retemplate: None, retab: None }
    }
}

#[derive(Debug)]
pub enum RenderErr {
    Panic(String),
    Pattern(String),
}

/// Lines of the frame painted by a forced/ordinary draw of a fresh bar with `style`.
pub fn render(style: ProgressStyle, s: &BarSetup) -> Result<Vec<String>, RenderErr> {
    let vt = VTerm::raw(s.rows as usize, s.cols as usize);
    let r = catch(|| {
        let pb = ProgressBar::with_draw_target(s.len, ProgressDrawTarget::term_like(vt.boxed()))
            .with_position(s.pos)
            .with_message(s.msg.clone())
            .with_prefix(s.prefix.clone());
        if let Some(w) = s.tab_width {
            pb.set_tab_width(w);
        }
        pb.set_style(style);
        if let Some(t) = &s.retemplate {
            let again = pb.style().template(t).expect("the template was accepted by with_template");
            pb.set_style(again);
        }
        for _ in 0..s.extra_ticks {
            pb.tick();
        }
        if let Some(w) = s.retab {
            pb.tick();
            pb.set_tab_width(w);
        }
        if s.finish {
            pb.abandon(); // finished, position unchanged, forced draw
        } else {
            pb.tick();
        }
        let lines = vt.last_frame_lines();
        drop(pb);
        lines
    });
    match r {
        Err(p) => Err(RenderErr::Panic(p)),
        Ok(Err(e)) => Err(RenderErr::Pattern(e)),
        Ok(Ok(l)) => Ok(l),
    }
}
