//! Render one frame of a bar with a given style and capture the lines as written.
use indicatif::{ProgressBar, ProgressDrawTarget, ProgressStyle};

use crate::runner::catch;
use crate::vterm::VTerm;

pub struct BarSetup {
    pub len: Option<u64>,
    pub pos: u64,
    pub msg: String,
    pub prefix: String,
    pub cols: u16,
    pub rows: u16,
    /// additional manual ticks before the captured one
    pub extra_ticks: u32,
    pub finish: bool,
}

impl Default for BarSetup {
    fn default() -> Self {
        BarSetup { len: Some(42), pos: 7, msg: "Msg".into(), prefix: "Pre".into(), cols: 300, rows: 200, extra_ticks: 0, finish: false }
    }
}

#[derive(Debug)]
pub enum RenderErr {
    Panic(String),
    Pattern(String),
}

/// Lines of the frame painted by a forced/ordinary draw of a fresh bar with `style`.
pub fn render(style: ProgressStyle, s: &BarSetup) -> Result<Vec<String>, RenderErr> {
    let vt = VTerm::raw(s.rows as usize, s.cols as usize);
    let r = catch(|| {
        let pb = ProgressBar::with_draw_target(s.len, ProgressDrawTarget::term_like(vt.boxed()))
            .with_position(s.pos)
            .with_message(s.msg.clone())
            .with_prefix(s.prefix.clone());
        pb.set_style(style);
        for _ in 0..s.extra_ticks {
            pb.tick();
        }
        if s.finish {
            pb.abandon(); // finished, position unchanged, forced draw
        } else {
            pb.tick();
        }
        let lines = vt.last_frame_lines();
        drop(pb);
        lines
    });
    match r {
        Err(p) => Err(RenderErr::Panic(p)),
        Ok(Err(e)) => Err(RenderErr::Pattern(e)),
        Ok(Ok(l)) => Ok(l),
    }
}
