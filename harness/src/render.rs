//! Render one frame of a bar with a given style and capture the lines as written.
use indicatif::{ProgressBar, ProgressDrawTarget, ProgressStyle};

use crate::runner::catch;
use crate::vterm::VTerm;

pub struct BarSetup {
    pub len: Option<u64>,
    pub pos: u64,
    pub msg: String,
    pub prefix: String,
    pub cols: u16,
    pub rows: u16,
    /// additional manual ticks before the captured one
    pub extra_ticks: u32,
    pub finish: bool,
    /// the bar's tab width (None: the default 8)
    pub tab_width: Option<usize>,
    /// after the style was installed: take it back with ProgressBar::style(), give it this template
    /// through the `template()` setter and install it again
    pub retemplate: Option<String>,
    /// draw once, then change the tab width to this, then draw the captured frame
    pub retab: Option<usize>,
    /// the bar is a member of a MultiProgress that owns the terminal
    pub in_multi: bool,
    /// the terminal reported this width while an earlier frame was drawn; the captured frame is the first
    /// one after it reports `cols`
    pub resized_from: Option<u16>,
}

impl Default for BarSetup {
    fn default() -> Self {
        BarSetup { len: Some(42), pos: 7, msg: "Msg".into(), prefix: "Pre".into(), cols: 300, rows: 200, extra_ticks: 0, finish: false, tab_width: None, retemplate: None, retab: None, in_multi: false, resized_from: None }
    }
}

#[derive(Debug)]
pub enum RenderErr {
    Panic(String),
    Pattern(String),
}

/// Lines of the frame painted by a forced/ordinary draw of a fresh bar with `style`.
pub fn render(style: ProgressStyle, s: &BarSetup) -> Result<Vec<String>, RenderErr> {
    let vt = VTerm::raw(s.rows as usize, s.cols as usize);
    let r = catch(|| {
        let mp = if s.in_multi { Some(indicatif::MultiProgress::with_draw_target(ProgressDrawTarget::term_like(vt.boxed()))) } else { None };
        let target = if s.in_multi { ProgressDrawTarget::hidden() } else { ProgressDrawTarget::term_like(vt.boxed()) };
        let pb = ProgressBar::with_draw_target(s.len, target)
            .with_position(s.pos)
            .with_message(s.msg.clone())
            .with_prefix(s.prefix.clone());
        let pb = match &mp {
            Some(mp) => mp.add(pb),
            None => pb,
        };
        if let Some(w) = s.tab_width {
            pb.set_tab_width(w);
        }
        pb.set_style(style);
        if let Some(t) = &s.retemplate {
            let again = pb.style().template(t).expect("the template was accepted by with_template");
            pb.set_style(again);
        }
        for _ in 0..s.extra_ticks {
            pb.tick();
        }
        if let Some(w) = s.retab {
            pb.tick();
            pb.set_tab_width(w);
        }
        if let Some(w0) = s.resized_from {
            vt.lock().report_cols = Some(w0.max(1));
            pb.tick();
            vt.lock().report_cols = Some(s.cols);
        }
        if s.finish {
            pb.abandon(); // finished, position unchanged, forced draw
        } else {
            pb.tick();
        }
        let lines = vt.last_frame_lines();
        drop(pb);
        drop(mp);
        lines
    });
    match r {
        Err(p) => Err(RenderErr::Panic(p)),
        Ok(Err(e)) => Err(RenderErr::Pattern(e)),
        Ok(Ok(l)) => Ok(l),
    }
}
