//! Virtual monotonic clock by symbol interposition (DESIGN.md 1.3).
//!
//! The binary defines `clock_gettime`; the static link resolves std's call to this symbol in
//! preference to libc's. When the *calling thread* has armed the virtual clock,
//! `CLOCK_MONOTONIC` returns the thread's virtual time; otherwise the raw syscall is made.
//! Thread-local state lets the runner use many worker threads, each with its own clock;
//! threads spawned by indicatif itself (steady ticker) see the real clock.
use std::cell::Cell;
use std::time::Duration;

thread_local! {
    static ARMED: Cell<bool> = const { Cell::new(false) };
    static VNOW: Cell<i64> = const { Cell::new(0) };
}

/// Base so that `Instant - Duration` never underflows in the code under test.
pub const BASE_NS: i64 = 1_000_000_000_000_000; // ~11.5 days

#[no_mangle]
pub unsafe extern "C" fn clock_gettime(clk: libc::clockid_t, ts: *mut libc::timespec) -> libc::c_int {
    if clk == libc::CLOCK_MONOTONIC && ARMED.with(|a| a.get()) {
        let ns = VNOW.with(|v| v.get());
        (*ts).tv_sec = ns / 1_000_000_000;
        (*ts).tv_nsec = ns % 1_000_000_000;
        return 0;
    }
    libc::syscall(libc::SYS_clock_gettime, clk as libc::c_long, ts) as libc::c_int
}

/// Arm the virtual clock for this thread at `BASE_NS`.
pub fn arm() {
    VNOW.with(|v| v.set(BASE_NS));
    ARMED.with(|a| a.set(true));
}

pub fn disarm() {
    ARMED.with(|a| a.set(false));
}

pub fn is_armed() -> bool {
    ARMED.with(|a| a.get())
}

pub fn advance(d: Duration) {
    advance_ns(d.as_nanos().min(i64::MAX as u128 / 4) as i64)
}

pub fn advance_ns(ns: i64) {
    VNOW.with(|v| v.set(v.get().saturating_add(ns)));
}

/// Virtual nanoseconds since arming.
pub fn now_ns() -> i64 {
    VNOW.with(|v| v.get()) - BASE_NS
}

/// RAII guard: arms on creation, disarms on drop.
pub struct Armed;
impl Armed {
    pub fn new() -> Self {
        arm();
        Armed
    }
}
impl Drop for Armed {
    fn drop(&mut self) {
        disarm();
    }
}

pub fn self_test() -> Result<(), String> {
    let _g = Armed::new();
    let t0 = std::time::Instant::now();
    let t1 = std::time::Instant::now();
    if t1 != t0 {
        return Err("virtual clock not frozen".into());
    }
    advance(Duration::from_secs(3600));
    if t0.elapsed() != Duration::from_secs(3600) {
        return Err(format!("virtual clock advance wrong: {:?}", t0.elapsed()));
    }
    Ok(())
}
