//! Shared pieces for the history-based terminal properties (C01-C04, C06, C18, C19):
//! simple templates, text generators, bar model, screen model.
use indicatif::ProgressStyle;
use proptest::prelude::*;
use serde::{Deserialize, Serialize};

use crate::vterm::wrap_rows;

#[derive(Debug, Clone, Serialize, Deserialize, PartialEq)]
pub enum SPart {
    Lit(String),
    /// a zero-width SGR sequence as literal text
    Sgr,
    Msg,
    Prefix,
    Pos,
    Len,
    /// a custom key whose output is a line break followed by this text
    KeyNl(String),
    /// {spinner} over the tick strings a, b, c and the final F
    Spinner,
}

/// A "simple template": its expansion depends on the logical state only.
#[derive(Debug, Clone, Serialize, Deserialize, PartialEq)]
pub struct STpl {
    pub lines: Vec<Vec<SPart>>,
}

impl STpl {
    pub fn template(&self) -> String {
        let mut t = String::new();
        for (i, l) in self.lines.iter().enumerate() {
            if i > 0 {
                t.push('\n');
            }
            for p in l {
                match p {
                    SPart::Lit(s) => t.push_str(s),
                    SPart::Sgr => t.push_str("\x1b[1m"),
                    SPart::Msg => t.push_str("{msg}"),
                    SPart::Prefix => t.push_str("{prefix}"),
                    SPart::Pos => t.push_str("{pos}"),
                    SPart::Len => t.push_str("{len}"),
                    SPart::KeyNl(_) => t.push_str("{verif_nl}"),
                    SPart::Spinner => t.push_str("{spinner}"),
                }
            }
        }
        t
    }

    pub fn style(&self) -> ProgressStyle {
        let st = ProgressStyle::with_template(&self.template()).expect("simple template must parse").tick_strings(&["a", "b", "c", "F"]);
        match self.lines.iter().flatten().find_map(|p| if let SPart::KeyNl(t) = p { Some(t.clone()) } else { None }) {
            Some(text) => st.with_key("verif_nl", move |_: &indicatif::ProgressState, w: &mut dyn std::fmt::Write| {
                let _ = w.write_str("\n");
                let _ = w.write_str(&text);
            }),
            None => st,
        }
    }

    /// The frame lines for a logical state (reference renderer of the simple family).
    pub fn expand(&self, st: &BarState) -> Vec<String> {
        let len = st.len.unwrap_or(st.pos);
        let mut out = vec![];
        let n = self.lines.len();
        for (i, l) in self.lines.iter().enumerate() {
            let mut s = String::new();
            for p in l {
                match p {
                    SPart::Lit(x) => s.push_str(&crate::model::expand_tabs(x, st.tab_width)),
                    SPart::Sgr => s.push_str("\x1b[1m"),
                    SPart::Msg => s.push_str(&crate::model::expand_tabs(&st.msg, st.tab_width)),
                    SPart::Prefix => s.push_str(&crate::model::expand_tabs(&st.prefix, st.tab_width)),
                    SPart::Pos => s.push_str(&st.pos.to_string()),
                    SPart::Len => s.push_str(&len.to_string()),
                    SPart::KeyNl(t) => {
                        s.push('\n');
                        s.push_str(t);
                    }
                    SPart::Spinner => s.push_str(if st.finished() { "F" } else { ["a", "b", "c"][(st.ticks % 3) as usize] }),
                }
            }
            // every template line but the last always yields output; the last only when non-empty
            if i + 1 < n || !s.is_empty() {
                out.extend(s.split('\n').map(|x| x.to_string()));
            }
        }
        out
    }
}

#[derive(Debug, Clone, Copy, PartialEq, Eq, Serialize, Deserialize)]
pub enum Status {
    InProgress,
    DoneVisible,
    DoneHidden,
}

#[derive(Debug, Clone)]
pub struct BarState {
    pub pos: u64,
    pub len: Option<u64>,
    pub msg: String,
    pub prefix: String,
    pub status: Status,
    pub tpl: STpl,
    /// the bar's tab width (TABs in template literals, message and prefix become this many blanks)
    pub tab_width: usize,
    /// spinner ticks: tick() calls and position updates that passed the bar's own throttle
    pub ticks: u64,
}

impl BarState {
    pub fn new(len: Option<u64>, tpl: STpl) -> Self {
        BarState { pos: 0, len, msg: String::new(), prefix: String::new(), status: Status::InProgress, tpl, tab_width: 8, ticks: 0 }
    }
    /// What a draw of this bar paints now.
    pub fn frame(&self) -> Vec<String> {
        if self.status == Status::DoneHidden {
            vec![]
        } else {
            self.tpl.expand(self)
        }
    }
    pub fn finished(&self) -> bool {
        self.status != Status::InProgress
    }
}

/// rows a list of lines occupies on a `cols`-wide terminal
pub fn rows_of(lines: &[String], cols: usize) -> Vec<String> {
    lines.iter().flat_map(|l| wrap_rows(l, cols)).collect()
}

pub fn height_of(lines: &[String], cols: usize) -> usize {
    rows_of(lines, cols).len()
}

/// The lines `println(text)` emits.
pub fn println_lines(text: &str) -> Vec<String> {
    if text.is_empty() {
        vec![String::new()]
    } else {
        text.lines().map(|l| l.to_string()).collect()
    }
}

pub fn trim_trailing_blank(mut v: Vec<String>) -> Vec<String> {
    while v.last().map_or(false, |s| s.is_empty()) {
        v.pop();
    }
    v
}

// ------------------------------------------------------------------------------------------
// generators

/// one chunk of visible single-width text (plus zero-width SGR)
fn chunk() -> BoxedStrategy<String> {
    prop_oneof![
        6 => "[a-zA-Z0-9 .:#=-]{1,6}",
        1 => "[\u{e9}\u{f1}\u{3b1}]{1,3}",
        1 => "[\u{9032}\u{6357}]{1,3}",
        1 => Just("\x1b[31m".to_string()),
        1 => Just("\x1b[0m".to_string()),
    ]
    .boxed()
}

/// a line of text without newline whose width is biased around multiples of `cols`
pub fn line_text(cols: usize) -> BoxedStrategy<String> {
    let exact = (0usize..4, -1i32..=1).prop_map(move |(k, d)| {
        let n = (k * cols) as i32 + d;
        "x".repeat(n.max(0) as usize)
    });
    // double-width glyphs only: fewer characters than columns, yet the line wraps
    let wide = (0usize..3, -1i32..=1).prop_map(move |(k, d)| {
        let n = (k * cols / 2) as i32 + cols as i32 / 4 + d;
        "\u{9032}".repeat(n.max(1) as usize)
    });
    prop_oneof![
        2 => Just(String::new()),
        5 => proptest::collection::vec(chunk(), 0..4).prop_map(|v| v.concat()),
        3 => exact,
        1 => wide,
        1 => Just("\x1b[1m\x1b[0m".to_string()),
    ]
    .boxed()
}

/// message / log text: 1-3 lines
pub fn multi_text(cols: usize) -> BoxedStrategy<String> {
    prop_oneof![
        6 => line_text(cols),
        2 => proptest::collection::vec(line_text(cols), 2..4).prop_map(|v| v.join("\n")),
        1 => line_text(cols).prop_map(|s| format!("{s}\n")),
    ]
    .boxed()
}

pub fn stpl_strategy() -> BoxedStrategy<STpl> {
    let part = prop_oneof![
        6 => "[a-z:| ]{1,5}".prop_map(SPart::Lit),
        1 => prop_oneof![Just("\t"), Just("a\tb"), Just(":\t")].prop_map(|s| SPart::Lit(s.to_string())),
        2 => Just(SPart::Sgr),
        8 => Just(SPart::Msg),
        4 => Just(SPart::Prefix),
        4 => Just(SPart::Pos),
        2 => Just(SPart::Len),
    ];
    let line = proptest::collection::vec(part, 0..4);
    proptest::collection::vec(line, 1..4).prop_map(|lines| STpl { lines }).boxed()
}

/// Monotone index mapping for shrinking-friendly selection.
pub fn pick(sel: u16, len: usize) -> usize {
    if len == 0 {
        0
    } else {
        ((sel as usize) * len) >> 16
    }
}

/// byte decoder for the fuzz targets
pub fn decode_stpl(u: &mut crate::runner::FuzzInput) -> STpl {
    let nl = 1 + u.n(2);
    let lines = (0..nl)
        .map(|_| {
            (0..u.n(3))
                .map(|_| match u.n(9) {
                    0 | 1 | 2 => SPart::Lit((0..=u.n(4)).map(|_| u.pick(&['a', 'b', ':', '|', ' '])).collect()),
                    3 => SPart::Sgr,
                    4 | 5 | 6 => SPart::Msg,
                    7 => SPart::Prefix,
                    8 => SPart::Pos,
                    _ => SPart::Len,
                })
                .collect()
        })
        .collect();
    STpl { lines }
}
