#![allow(dead_code)]
//! Verification harness library: virtual clock, terminal emulator, reference models, runner and
//! one module per property. Used by the `vh` binary and by the cargo-fuzz targets in /verif/fuzz.
pub mod clock;
pub mod fuzzbridge;
pub mod hist;
pub mod model;
pub mod multi;
pub mod props;
pub mod render;
pub mod runner;
pub mod vterm;
