#!/usr/bin/env python3
"""tools/seeded_matrix.py [ID ...]

Runs `./check <ID> quick` with every filed breaking change (/verif/seeded/<ID>/<name>/) applied to /repo,
restores /repo after each (git checkout -- .), writes the outcome into the change's meta.json
("check_result") and prints a markdown table. /repo must be clean. Nothing is committed to /repo.
"""
import glob, json, os, re, subprocess, sys

ids = [a for a in sys.argv[1:] if not a.startswith("--")]
ONLY_MISSING = "--only-missing" in sys.argv  # skip changes whose meta.json already records a result
ENV = dict(os.environ, CARGO_NET_OFFLINE="true")


def sh(cmd, cwd="/verif", timeout=3600):
    p = subprocess.run(cmd, shell=True, cwd=cwd, env=ENV, capture_output=True, text=True, timeout=timeout)
    return p.returncode, p.stdout + p.stderr


def main():
    rc, out = sh("git status --porcelain --untracked-files=no", cwd="/repo")
    if out.strip():
        print("repo not clean"); sys.exit(2)
    head = sh("git log --format=%h -1", cwd="/repo")[1].strip()
    rows = []
    for d in sorted(glob.glob("/verif/seeded/*/*/")):
        pid, name = d.rstrip("/").split("/")[-2:]
        if ids and pid not in ids:
            continue
        if ONLY_MISSING:
            try:
                if "check_result" in json.load(open(os.path.join(d, "meta.json"))):
                    continue
            except Exception:
                pass
        try:
            meta0 = json.load(open(os.path.join(d, "meta.json")))
        except Exception:
            meta0 = {}
        if "superseded" in meta0:
            # the defect the change was built on has been repaired since: the edited code path is gone
            rows.append((pid, name, "SUPERSEDED", "", "")); print(rows[-1], flush=True)
            meta0["check_result"] = {"cmd": f"./check {pid} quick", "repo_head": head, "patch": None, "result": "SUPERSEDED", "first_reported_by": "", "failure_kind": ""}
            json.dump(meta0, open(os.path.join(d, "meta.json"), "w"), indent=1)
            continue
        applied = None
        for cand in ("patch.head.diff", "patch.ported.diff", "patch.diff"):
            p = os.path.join(d, cand)
            if os.path.exists(p) and sh(f"git apply --check {p}", cwd="/repo")[0] == 0:
                sh(f"git apply {p}", cwd="/repo"); applied = cand; break
        if applied is None:
            for cand in ("patch.ported.diff", "patch.diff"):
                p = os.path.join(d, cand)
                if os.path.exists(p) and sh(f"git apply --3way {p}", cwd="/repo")[0] == 0:
                    sh("git reset -q", cwd="/repo"); applied = cand + " (3-way)"; break
                sh("git reset -q --hard HEAD", cwd="/repo")
        if applied is None:
            rows.append((pid, name, "NOAPPLY", "", "")); print(rows[-1], flush=True); continue
        rc, out = sh(f"./check {pid} quick")
        sh("git checkout -- .", cwd="/repo")
        first, kind = "", ""
        if rc == 1:
            m = re.search(r"^(regression \S+|%s part (\S+)): \[(\w+)\]" % pid, out, re.M)
            if m:
                first = "regression replay" if m.group(1).startswith("regression") else "part " + m.group(2)
                kind = m.group(3)
            res = "CAUGHT"
        elif rc == 0:
            res = "MISSED"
        else:
            res = f"PROBLEM({rc})"
        rows.append((pid, name, res, first, kind)); print(rows[-1], flush=True)
        mp = os.path.join(d, "meta.json")
        try:
            meta = json.load(open(mp))
        except Exception:
            meta = {}
        meta["check_result"] = {"cmd": f"./check {pid} quick", "repo_head": head, "patch": applied, "result": res, "first_reported_by": first, "failure_kind": kind}
        json.dump(meta, open(mp, "w"), indent=1)
    print("\n| property | change | quick check | first reported by | failure kind |\n|---|---|---|---|---|")
    for r in rows:
        print("| " + " | ".join(r) + " |")
    rc, out = sh("git status --porcelain --untracked-files=no", cwd="/repo")
    if out.strip():
        print("WARNING: repo not clean at the end:", out)


main()
