#!/usr/bin/env python3
"""Regenerates the table between the SEEDED-TABLE markers of DESIGN.md from the meta.json records."""
import subprocess
t = subprocess.run(["python3", "/verif/tools/seeded_table.py"], capture_output=True, text=True).stdout
table, _, tally = t.partition("\n\n")
p = "/verif/DESIGN.md"
s = open(p).read()
a = s.index("<!-- SEEDED-TABLE-BEGIN -->") + len("<!-- SEEDED-TABLE-BEGIN -->")
b = s.index("<!-- SEEDED-TABLE-END -->")
s = s[:a] + "\n" + table + "\n\nTally (round, outcome) -> count:\n\n```\n" + tally.strip() + "\n```\n" + s[b:]
open(p, "w").write(s)
print("DESIGN.md table updated")
