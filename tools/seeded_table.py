#!/usr/bin/env python3
"""tools/seeded_table.py: markdown table of all filed breaking changes and the recorded outcome of the quick
check against each (meta.json: round, check_result), for DESIGN.md 6.4."""
import glob, json, collections
rows = []
for f in sorted(glob.glob('/verif/seeded/*/*/meta.json')):
    m = json.load(open(f))
    pid, name = f.split('/')[-3:-1]
    r = m.get('check_result', {})
    rows.append((pid, m.get('round', '?'), name, r.get('result', 'not run'), r.get('first_reported_by', ''), r.get('failure_kind', '')))
print("| property | round | change | quick check | first reported by | failure kind |\n|---|---|---|---|---|---|")
for r in rows:
    print("| " + " | ".join(str(x) for x in r) + " |")
c = collections.Counter((r[1], r[3]) for r in rows)
print()
for k in sorted(c, key=str):
    print(k, c[k])
