#!/bin/bash
# tools/fuzz.sh <ID> <runs-per-target> [seed]: coverage-guided campaign (libFuzzer; at most VERIF_FUZZ_SECS=600 s per target,
# a time budget that runs out ends the campaign without a verdict change) over every fuzz target of
# property <ID>, all targets in parallel, fresh corpus directories outside /verif, rebuilt from /repo's current tree.
# exit 0 nothing found / 1 VIOLATION (replay re-validated through ./check --replay) / 2 harness problem
ID=$(echo "$1" | tr a-z A-Z); RUNS="${2:-200000}"; SEED="${3:-${VERIF_SEED:-0}}"
[ "$SEED" = "0" ] && SEED=1   # libFuzzer: 0 means random
export CARGO_NET_OFFLINE=true
low=$(echo "$ID" | tr A-Z a-z)
targets=$(ls /verif/fuzz/fuzz_targets 2>/dev/null | sed 's/\.rs$//' | grep "^${low}_")
[ -z "$targets" ] && { echo "fuzz: no libFuzzer target for $ID"; exit 0; }
cd /verif/harness || exit 2
LOG=$(mktemp)
if ! cargo +nightly fuzz build --fuzz-dir /verif/fuzz -s none >"$LOG" 2>&1; then tail -20 "$LOG"; echo "HARNESS-PROBLEM: cargo fuzz build failed"; rm -f "$LOG"; exit 2; fi
rm -f "$LOG"
BIN=/verif/target/x86_64-unknown-linux-gnu/release
WORK=$(mktemp -d /tmp/vfuzz.XXXXXX)
pids=""
for t in $targets; do
  mkdir -p "$WORK/$t/corpus" "$WORK/$t/art"
  # libFuzzer ramps the input length slowly from an empty corpus: start from a few pseudo-random files
  for i in 1 2 3 4; do python3 -c "
import random,sys
r=random.Random($SEED*1000+$i+hash('$t')%1000); sys.stdout.buffer.write(bytes(r.randrange(256) for _ in range(64*$i*$i)))" > "$WORK/$t/corpus/seed$i"; done
  ( cd "$WORK/$t" && "$BIN/$t" corpus -runs="$RUNS" -max_total_time="${VERIF_FUZZ_SECS:-600}" -seed="$SEED" -len_control=0 -max_len=1024 -timeout=30 -artifact_prefix="$WORK/$t/art/" > out.txt 2>&1; echo $? > rc ) &
  pids="$pids $!"
done
wait $pids
rc=0
for t in $targets; do
  r=$(cat "$WORK/$t/rc" 2>/dev/null || echo 99)
  execs=$(grep -oE "Done [0-9]+ runs|stat::number_of_executed_units: [0-9]+" "$WORK/$t/out.txt" | tail -1)
  cov=$(grep -oE "cov: [0-9]+" "$WORK/$t/out.txt" | tail -1)
  echo "fuzz $ID target $t: rc=$r $execs $cov corpus=$(ls "$WORK/$t/corpus" | wc -l)"
  if [ "$r" != "0" ]; then
    line=$(grep -m1 "^VIOLATION property=" "$WORK/$t/out.txt")
    if [ -n "$line" ]; then
      replay=$(echo "$line" | sed 's/.*replay=//')
      # the saved input is the reproducible unit: re-validate through the plain replay path
      if /verif/check "$ID" --replay "$replay" 2>/dev/null | grep -q "^VIOLATION"; then
        grep -m1 -B1 "^VIOLATION property=" "$WORK/$t/out.txt" | head -1 | cut -c1-600
        echo "$line"; rc=1
      else
        echo "HARNESS-PROBLEM: libFuzzer artefact of $t does not reproduce in the plain replay ($replay)"; [ $rc -eq 0 ] && rc=2
      fi
    elif grep -q "libFuzzer: timeout" "$WORK/$t/out.txt"; then
      echo "HARNESS-PROBLEM: $t hit the 30 s per-input timeout (inconclusive, not a violation)"; [ $rc -eq 0 ] && rc=2
    else
      tail -5 "$WORK/$t/out.txt"; echo "HARNESS-PROBLEM: $t ended with rc=$r"; [ $rc -eq 0 ] && rc=2
    fi
  fi
done
rm -rf "$WORK"
exit $rc
