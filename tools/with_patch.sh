#!/bin/bash
# tools/with_patch.sh <patch.diff> <command...> : apply a seeded patch to /repo, run a command, undo it.
patch="$1"; shift
cd /repo || exit 2
if ! git diff --quiet; then echo "repo not clean"; exit 2; fi
git apply "$patch" || { echo "patch does not apply"; exit 3; }
( cd /verif && "$@" ); rc=$?
git -C /repo checkout -- .
exit $rc
