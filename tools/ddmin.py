#!/usr/bin/env python3
"""tools/ddmin.py <ID> <replay.json> <list-key> : greedy one-by-one / chunk removal of list elements of
case[<list-key>] while `vh <ID> --replay` still reports the same failure kind. Writes <replay>.min.json."""
import json, subprocess, sys, re, tempfile, os
pid, path, key = sys.argv[1], sys.argv[2], sys.argv[3]
d = json.load(open(path))
def fails(case):
    t = tempfile.NamedTemporaryFile('w', suffix='.json', delete=False)
    json.dump({"property": pid, "part": d["part"], "message": "", "case": case}, t); t.close()
    binp = "/verif/target-sched/debug/vhs" if (pid == "C08" and d["part"] == "schedules") else "/verif/target/debug/vh"
    out = subprocess.run([binp, pid, "--replay", t.name], capture_output=True, text=True).stdout
    os.unlink(t.name)
    m = re.search(r"\[([a-z_]+)\]", out)
    return m.group(1) if "VIOLATION" in out and m else None
case = d["case"]
kind = fails(case)
assert kind, "does not fail"
ops = case[key]
n = max(1, len(ops) // 2)
while n >= 1:
    i = 0
    changed = False
    while i < len(ops):
        trial = ops[:i] + ops[i + n:]
        c2 = dict(case); c2[key] = trial
        if fails(c2) == kind:
            ops = trial; changed = True
        else:
            i += n
    if not changed or n == 1:
        if n == 1 and not changed: break
        n = max(1, n // 2) if n > 1 else 1
        if n == 1 and not changed: pass
    else:
        n = max(1, n // 2)
case[key] = ops
d["case"] = case
out = path.replace(".json", ".min.json")
json.dump(d, open(out, "w"))
print(kind, len(ops), "ops ->", out)
