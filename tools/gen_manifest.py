#!/usr/bin/env python3
"""Generates /verif/MANIFEST.json from the table below (keeps the manifest valid at all times)."""
import json, subprocess, sys

ALL = ["C%02d" % i for i in range(1, 20)]

# id -> (category, technique, level text, level note, design ref)
CLAIMED = {
 "C15": ("exploration",
         "property-based testing (proptest) against reference formatters + bounded-exhaustive unit-boundary sweep",
         "Generated u64 / f64 bit patterns x precision / Duration pairs are formatted by the public wrappers and compared with independent reference formatters written from the statement (comma grouping, std fixed precision, largest-fitting-prefix with two decimals, [Dd ]HH:MM:SS, the HumanDuration rounding rule in exact integer nanoseconds) plus monotonicity along sorted durations; every unit boundary +-{1ns..1s} is enumerated. Search, not proof: absence of a counterexample in ~200k (quick) / ~6M (thorough) cases.",
         "Trusted: the reference formatters in harness/src/props/c15.rs; Rust std float formatting as the 'standard decimal representation'.",
         "DESIGN.md 3 C15"),
}

NOT_YET = "check not built yet (work in progress; the design in DESIGN.md section 3 applies)"

def main():
    hooks_commits = []
    checks = []
    for pid in ALL:
        if pid not in CLAIMED: continue
        cat, tech, text, note, ref = CLAIMED[pid]
        checks.append({
            "property_id": pid,
            "quick_cmd": f"./check {pid} quick",
            "thorough_cmd": f"./check {pid} thorough",
            "evidence_file": f"/verif/evidence/{pid}.json",
            "replay_cmd_template": f"./check {pid} --replay {{path}}",
            "engine": "vhs" if pid == "C08" else "vh",
            "level_claimed": {"category": cat, "text": text, "design_ref": ref},
            "level_note": note,
            "technique": tech,
        })
    m = {
        "version": 1,
        "setup_cmd": "./setup.sh",
        "hooks": {
            "guard": "cargo feature verif-hooks",
            "enable": "harness-sched depends on indicatif with features = [\"verif-hooks\"]; all other checks build /repo with the guard off",
            "baseline_off_cmd": "cd /repo && cargo test --workspace --no-fail-fast --offline",
            "source_commits": hooks_commits,
            "add_only": True,
        },
        "engines": [
            {"name": "vh", "path": "/verif/harness", "serves_properties": [p for p in ALL if p in CLAIMED and p != "C08"],
             "kind_free_text": "Rust binary: proptest TestRunner (seeded, parallel workers, shrinking to replay JSON), virtual clock by clock_gettime interposition, recording/fault-injecting TermLike over an own terminal-grid emulator, reference models per property"},
        ],
        "checks": checks,
        "not_applicable": [{"property_id": p, "reason": NOT_YET} for p in ALL if p not in CLAIMED],
        "notes": "Every check: exit 0 held / exit 1 with 'VIOLATION property=<id> replay=<path>' / exit 2 harness problem (build failure, watchdog, vacuous generator). VERIF_SEED seeds every generator. Known findings: /verif/known_findings.json.",
    }
    json.dump(m, open("/verif/MANIFEST.json", "w"), indent=1)
    print("MANIFEST.json written:", len(checks), "checks")

main()
