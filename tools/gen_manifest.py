#!/usr/bin/env python3
"""Generates /verif/MANIFEST.json from the table below (keeps the manifest valid at all times)."""
import json, subprocess, sys

ALL = ["C%02d" % i for i in range(1, 20)]

# id -> (category, technique, level text, level note, design ref)
CLAIMED = {
 "C07": ("exploration",
         "model-based property testing (history interpreter vs wrapping/saturating reference model) + real-thread stress with a conservation oracle",
         "Histories of inc/dec/set_position/update/reset/finish*/abandon*/finish_using_style/set_length/inc_length/dec_length/unset_length with arguments concentrated on the u64 boundaries are executed against a bar that really renders (pos/len/percent/bar/bytes/eta/per_sec keys) and against a wrapping/saturating model; position(), length() and the fraction seen by a draw are compared after every operation, no call may panic. Concurrent part: 1-16 OS threads on clones issue generated inc/dec patterns; the final position must be the wrapping sum of all deltas.",
         "Trusted: the reference model; OS scheduling decides which interleavings the thread part sees (16 cores). Overflow checks are enabled in the harness build so arithmetic overflow panics as in a debug build.",
         "DESIGN.md 3 C07"),
 "C09": ("exploration",
         "property-based testing under a virtual clock: invariant laws, metamorphic twin comparison (history indifference) and exact-rate oracle for steady progress",
         "The harness owns the monotonic clock, so (gap, position) histories with gaps from 1 ms to 10 days cost nothing. Laws checked at every instant: per_sec finite, >= 0 and <= the largest observed rate; eta == remaining/per_sec recomputed at the same frozen instant; duration == elapsed + eta; decay to ~0 after an hour of stall; monotone decay during a stall. Steady progress at irregular cadence must report the exact rate (1e-9). Two bars with different pre-histories must be bit-identical after reset_eta/reset_elapsed/reset/a common backwards seek.",
         "Trusted: clock_gettime interposition (self-tested at start-up). The recorded known finding F-C09 (rate can rise during a stall after a rate change) is excluded by signature+kind and reported as KNOWN-FINDING.",
         "DESIGN.md 3 C09"),
 "C10": ("exploration",
         "property-based testing: crash-oracle over arbitrary/mutated strings + grammar-based generation with a reference renderer (round-trip of the documented template grammar)",
         "Totality: arbitrary Unicode strings, strings over the template alphabet and grammar-generated templates with random character edits go through with_template()/template() under catch_unwind. Fidelity: templates are generated from the documented grammar as a list of parts (literals with doubled braces, '{'+whitespace, newlines, placeholders with align/width/!/style over harness-registered custom keys, state-independent built-ins and unknown keys, widths up to 2^32) and the lines captured from a 65535-column terminal must equal the in-order concatenation of the parts' reference expansions, line by line. Search only.",
         "Trusted: harness reference renderer (model.rs pad reference, c10.rs); colours disabled so styles are transparent; literals without C0 controls.",
         "DESIGN.md 3 C10"),
 "C12": ("exploration",
         "property-based testing against a cell-wise reference implementation of a padded/truncating field",
         "Contents built from ASCII, multi-byte single-width, double-width and SGR-wrapped chunks are rendered through {msg}/{prefix}/a custom key with every alignment, width (around the content width, small, any u16) and truncation flag, and through literal{wide_msg}literal on terminals of 1..200 columns; the output is compared with a reference working on (character, columns) cells: exact width and padding side when it fits, unchanged when too wide without '!', the cells inside the kept window with '!'.",
         "Trusted: unicode-width/console column measurement (the same tables the crate uses), the reference in model.rs. Slack accepted: odd column of centre alignment on either side; W-1 columns where a double-width character straddles the cut; trailing padding of a line-final wide_msg may be trimmed.",
         "DESIGN.md 3 C12"),
 "C13": ("exploration",
         "bounded-exhaustive sweep + property-based testing; rendered bar parsed back into (filled, partial, background) cells and checked against the stated geometry laws",
         "Sweep: 8 character sets x width 0..=40 (thorough 128) x len 0..=40 (128) x pos 0..=len+2, every point checked for cell count floor(N/c), filled == floor(fraction*cells) (library's own f32 fraction, 1 ulp), empty at 0, full iff pos >= len, exactly one partial cell from the configured set otherwise, field padded to N, and monotonicity along pos. Random: sets of 2..=10 distinct clusters of 1 or 2 columns, widths to 65535, lengths to u64::MAX, wide_bar between literals (with multi-byte/double-width text) on terminals 1..300: line width == W - (avail mod c).",
         "Trusted: parse-back of distinct clusters; f32 tolerance of one ulp on the product; 'full only if pos>=len' asserted for len <= 2^20.",
         "DESIGN.md 3 C13"),
 "C14": ("exploration",
         "property-based testing with a crash oracle over generated builder-call sequences and bar states (catch_unwind per builder call and per draw)",
         "1-5 builder calls (with_template/template over all documented keys, tick_chars, tick_strings, progress_chars with 0..6 clusters of width 0/1/2 mixed, with_key), each under catch_unwind: a panic there is the allowed explicit rejection, documented unrenderable configurations must be rejected there, and any style that was returned is drawn (tick, inc, println, finish/abandon, drop) for position/length extremes, 1..200 columns, virtual elapsed times up to 49 days, plus get_tick_str for tick values up to u64::MAX - none of which may unwind.",
         "Trusted: catch_unwind + panic hook; widths measured per char (default features).",
         "DESIGN.md 3 C14"),
 "C15": ("exploration",
         "property-based testing (proptest) against reference formatters + bounded-exhaustive unit-boundary sweep",
         "Generated u64 / f64 bit patterns x precision / Duration pairs are formatted by the public wrappers and compared with independent reference formatters written from the statement (comma grouping, std fixed precision, largest-fitting-prefix with two decimals, [Dd ]HH:MM:SS, the HumanDuration rounding rule in exact integer nanoseconds) plus monotonicity along sorted durations; every unit boundary +-{1ns..1s} is enumerated. Search, not proof: absence of a counterexample in ~200k (quick) / ~6M (thorough) cases.",
         "Trusted: the reference formatters in harness/src/props/c15.rs; Rust std float formatting as the 'standard decimal representation'.",
         "DESIGN.md 3 C15"),
}

NOT_YET = "check not built yet (work in progress; the design in DESIGN.md section 3 applies)"

def main():
    hooks_commits = []
    checks = []
    for pid in ALL:
        if pid not in CLAIMED: continue
        cat, tech, text, note, ref = CLAIMED[pid]
        checks.append({
            "property_id": pid,
            "quick_cmd": f"./check {pid} quick",
            "thorough_cmd": f"./check {pid} thorough",
            "evidence_file": f"/verif/evidence/{pid}.json",
            "replay_cmd_template": f"./check {pid} --replay {{path}}",
            "engine": "vhs" if pid == "C08" else "vh",
            "level_claimed": {"category": cat, "text": text, "design_ref": ref},
            "level_note": note,
            "technique": tech,
        })
    m = {
        "version": 1,
        "setup_cmd": "./setup.sh",
        "hooks": {
            "guard": "cargo feature verif-hooks",
            "enable": "harness-sched depends on indicatif with features = [\"verif-hooks\"]; all other checks build /repo with the guard off",
            "baseline_off_cmd": "cd /repo && cargo test --workspace --no-fail-fast --offline",
            "source_commits": hooks_commits,
            "add_only": True,
        },
        "engines": [
            {"name": "vh", "path": "/verif/harness", "serves_properties": [p for p in ALL if p in CLAIMED and p != "C08"],
             "kind_free_text": "Rust binary: proptest TestRunner (seeded, parallel workers, shrinking to replay JSON), virtual clock by clock_gettime interposition, recording/fault-injecting TermLike over an own terminal-grid emulator, reference models per property"},
        ],
        "checks": checks,
        "not_applicable": [{"property_id": p, "reason": NOT_YET} for p in ALL if p not in CLAIMED],
        "notes": "Every check: exit 0 held / exit 1 with 'VIOLATION property=<id> replay=<path>' / exit 2 harness problem (build failure, watchdog, vacuous generator). VERIF_SEED seeds every generator. Known findings: /verif/known_findings.json.",
    }
    json.dump(m, open("/verif/MANIFEST.json", "w"), indent=1)
    print("MANIFEST.json written:", len(checks), "checks")

main()
