#!/usr/bin/env python3
"""Generates /verif/MANIFEST.json from the table below (keeps the manifest valid at all times)."""
import json, subprocess, sys

ALL = ["C%02d" % i for i in range(1, 20)]

# id -> (category, technique, level text, level note, design ref)
CLAIMED = {
 "C05": ("exploration",
         "property-based testing under a virtual clock: generated call-time sequences clustered at interval multiples; invariant oracles for the window bound (running minimum), the staleness bound and frame content",
         "For refresh rates 1..=255 on a standalone target, a MultiProgress and two alternating MultiProgress members, 30-2000 ordinary requests are issued at generated gaps (0, ns, sub-ms, k intervals +-1 ns, half an interval, ms, seconds, hours). Checked for every sequence: in every window at most 20 + R*T + 1 painted frames (exactly, in integer nanoseconds), a request at least one interval (position updates: + 1 ms) after the last painted frame is painted, one request paints at most one frame, and every painted frame shows the latest state of every bar (nothing lost by skipped draws). A second part checks the position bucket alone (burst 10, 1 ms) on an unlimited target.",
         "Trusted: virtual clock. Only the stated laws are checked; individual allow/deny decisions are not predicted.",
         "DESIGN.md 3 C05"),
 "C02": ("exploration",
         "model-based (stateful) property testing: operation histories against a lock-step list model with a tolerant screen matcher; real-thread stress with a per-bar monotonicity oracle",
         "Histories of add/insert/insert_from_back/insert_before/insert_after/remove/tick/inc/set_message/finish*/abandon/drop/mp.println/bar.println/mp.clear/mp.suspend/bar.suspend/set_alignment over up to 8 tagged bars run against the real MultiProgress on the emulated terminal and against an abstract list model (entries with the rendering cached at their last draw attempt, dropped-but-listed bars, retained blocks). At every flush the whole screen must be: printed lines in order, retained blocks (mandatory until a println/clear/suspend/remove intervenes), then each drawn member exactly once in model order. Threads: 2-8 OS threads update their own bar; every recorded frame must show states the bars really had, never older than before, and the last frame the final states.",
         "Trusted: grid emulator, list model (insert semantics from the doc comments). Known findings F-C02a (bottom alignment shift rows) and F-C02b (remove then retain before repaint) are excluded by signature and reported as KNOWN-FINDING.",
         "DESIGN.md 3 C02"),
 "C03": ("exploration",
         "property-based testing with a token oracle: every emitted log line carries a unique token and must be on the emulated terminal intact, once and in order after every operation and at every flush",
         "MultiProgress histories (C02 alphabet plus clock waits) on targets with refresh rate None/1/2/20/60/255 under a frozen or slowly advancing virtual clock (so most ordinary draws are skipped), each starting with one of the scenarios the statement names; single-bar histories on rate-limited targets likewise. The oracle ignores what the bars look like and only demands every token line (all its wrapped rows, contiguous) exactly once and in emission order, above the live bars.",
         "Trusted: grid emulator; virtual clock. The bottom-alignment finding of C02 also erases log lines and is excluded by the same signature.",
         "DESIGN.md 3 C03"),
 "C04": ("exploration",
         "property-based testing under a virtual clock: exhaust every limiter, then one generated terminator; oracle = a frame is painted by the call and the screen equals the model's final state",
         "Standalone: target with refresh rate None/1/20/255, 21-39 tick+inc pairs at the creation instant (20-frame and 10-update buckets exhausted, verified by a probe tick that paints nothing), a generated prior history, then one of finish/finish_with_message/finish_and_clear/abandon/abandon_with_message/finish_using_style x5/drop of the last handle x5/iterator exhaustion x5, optionally followed by reset() and a second completion with the stored finish behaviour: the call must paint, the screen must show the final state, getters must be final, dropping a finished bar must make no terminal call. MultiProgress: add/insert_before/insert_after/tick/inc/set_message/finish*/abandon/drop only, remaining handles dropped in a generated order, then the MultiProgress; the end screen must be exactly the final renderings of the visibly finished bars in visual order.",
         "Trusted: grid emulator, virtual clock, list model.",
         "DESIGN.md 3 C04"),
 "C06": ("exploration",
         "differential property testing: a hidden twin and a visible twin driven by the same generated calls under the same virtual clock; silence oracle on a spy terminal / a memfd",
         "The C01 operation alphabet (plus texts with tabs and set_tab_width) is applied to a visible bar and to a twin hidden in one of four ways: hidden target, console::Term over a non-tty fd, member of a hidden MultiProgress, member of a visible MultiProgress removed after 0-5 operations (including finishing). The hidden twin must not make a single terminal call (no byte may reach the non-tty Term) and position/length/message/prefix/is_finished/elapsed/eta/per_sec must be equal to the visible twin after every operation.",
         "Trusted: spy TermLike call counter, memfd length.",
         "DESIGN.md 3 C06"),
 "C18": ("fault_enumeration",
         "fault-injecting property testing: generated histories x generated fault plans at the TermLike boundary, compared with a fault-free twin run; catch_unwind around every call",
         "Single-bar (C01 alphabet incl. set_tab_width, suspend, println, finish, drop) and MultiProgress histories (C02 alphabet plus set_tab_width and set_draw_target on a member) are first run fault-free to count the terminal calls, then re-run with the k-th call failing (once / from then on / every second call; BrokenPipe / WouldBlock / Other). No call may unwind (a poisoned lock would make later calls unwind), mp.println/mp.clear must return Err when a terminal call failed during them, and position/length/message/prefix/is_finished of every handle must equal the fault-free twin after every operation.",
         "Trusted: fault gate in the recording TermLike. k is generated uniformly over the calls of the fault-free run, not enumerated exhaustively.",
         "DESIGN.md 3 C18"),
 "C19": ("exploration",
         "model-based property testing on tiny terminals: full-screen oracle (scroll-back + visible rows) against log ++ retained blocks ++ the longest fitting prefix of the bar lines",
         "MultiProgress on terminals from 1x1 to 12x40 (thorough 40x200) with up to 8 single-line bars whose widths sit at k*W-2..k*W+2 (1-4 rows each); add/remove/tick/inc/set_message/finish/finish_and_clear/drop/println/clear make the frame cross the terminal height in both directions. At every flush the complete emulator contents must equal printed lines, retained blocks and exactly the leading bar lines whose wrapped rows fit; a bar row that scrolled out, survived a redraw or was painted although it did not fit shows up as a mismatch; move_cursor_up is bounded by rows-1 plus retained rows.",
         "Trusted: grid emulator (own implementation because vt100 cannot wrap on a 1-row screen), list model. Single-line bars only.",
         "DESIGN.md 3 C19"),
 "C01": ("exploration",
         "model-based property testing: generated operation histories executed against the real bar on an emulated terminal and against a reference screen model (printed lines ++ frame), compared after every flush and every operation",
         "One bar on the harness's terminal emulator of 1..12 rows x 1..40 (thorough 200) columns, random simple template (literals, {msg}, {prefix}, {pos}, {len}, 1-3 lines, zero-width SGR), histories of tick/inc/set_position/set_message/set_prefix/set_style/set_length/println/suspend/reset/finish*/abandon* with empty, zero-width, multi-line texts and widths around multiples of the terminal width. At every flush the emulated screen (scroll-back + visible rows) must equal the wrapped printed lines followed by the frame of the model state, and a probe character must land in column 0 of the row below.",
         "Trusted: the grid emulator (self-tested; xterm deferred-wrap semantics), the simple-template reference renderer. Known finding F-C01b (empty first line of suspend output swallowed after a text-only draw) is excluded by a model-only signature and reported as KNOWN-FINDING.",
         "DESIGN.md 3 C01"),
 "C11": ("exploration",
         "property-based testing under a virtual clock: every documented placeholder compared with the public getter pushed through the public formatter at the same frozen instant",
         "One template holds every documented key plus width/alignment variants, wide_msg, bar, wide_bar and a stateful custom ProgressTracker. After every operation of a generated history (position/length/message/prefix/tick/reset/finish with gaps from 2 ms to 55 h on the virtual clock) a forced draw is compared field by field: pos/len/bytes families, elapsed/eta/duration/per_sec keys (clock frozen, so 'the same instant' is exact), msg/prefix/wide_msg, spinner index and final tick string, percent against the draw-time fraction, and what the tracker saw in write/tick/reset.",
         "Trusted: virtual clock; public formatters (checked separately by C15). Slack: {percent} may round an exact .5 either way; trackers may be notified more often than once per update.",
         "DESIGN.md 3 C11"),
 "C16": ("exploration",
         "model-based property testing over orders of tab-width/style/text operations; oracle: no TAB byte in any terminal write + frame equals the model with tabs expanded at the current width",
         "Histories over set_tab_width/with_tab_width (0..16), set_style/with_style/style().template() re-set (7 templates: tabs in literals, '{'+TAB, custom keys writing tabs in one and in several writes), set/with message and prefix with 0-5 tabs, finish_with_message/abandon_with_message/reset/tick and a final drop with ProgressFinish::WithMessage; after every operation message()/prefix() must be the expanded text, a forced frame must equal the model line(s) and no write may contain a TAB.",
         "Trusted: recording TermLike; model expansion. println text lines are outside the statement.",
         "DESIGN.md 3 C16"),
 "C17": ("exploration",
         "differential property testing: wrapped adaptor vs unwrapped twin over scripted sources/sinks (every primitive call result generated), hand-polled async, and rayon pools with a counting tap",
         "Sync: a scripted object implementing Read+BufRead+Seek+Write returns generated results (full/short/zero/5 error kinds) per primitive call; generated call sequences run on the wrapped and on an identical unwrapped object; return values, error kinds, data and the underlying offsets must agree, position() must follow the bytes transferred (consume counts, fill_buf not, seek sets, write_all counts what reached the sink). Iterators: every wrapping entry point x every ProgressFinish x next/next_back/len interleavings. Async: tokio AsyncRead/AsyncBufRead/AsyncWrite/AsyncSeek and futures Stream polled by hand over scripted Ready/Pending/Err. Rayon: 11 pipeline shapes incl. producer path and short-circuiting in pools of 1..8 threads; result == sequential, position == items handed on.",
         "Trusted: the scripted objects; the tap placed directly after the adaptor. Slack: a failed read_exact/read_to_string may or may not count bytes consumed before the failure.",
         "DESIGN.md 3 C17"),
 "C07": ("exploration",
         "model-based property testing (history interpreter vs wrapping/saturating reference model) + real-thread stress with a conservation oracle",
         "Histories of inc/dec/set_position/update/reset/finish*/abandon*/finish_using_style/set_length/inc_length/dec_length/unset_length with arguments concentrated on the u64 boundaries are executed against a bar that really renders (pos/len/percent/bar/bytes/eta/per_sec keys) and against a wrapping/saturating model; position(), length() and the fraction seen by a draw are compared after every operation, no call may panic. Concurrent part: 1-16 OS threads on clones issue generated inc/dec patterns; the final position must be the wrapping sum of all deltas.",
         "Trusted: the reference model; OS scheduling decides which interleavings the thread part sees (16 cores). Overflow checks are enabled in the harness build so arithmetic overflow panics as in a debug build.",
         "DESIGN.md 3 C07"),
 "C09": ("exploration",
         "property-based testing under a virtual clock: invariant laws, metamorphic twin comparison (history indifference) and exact-rate oracle for steady progress",
         "The harness owns the monotonic clock, so (gap, position) histories with gaps from 1 ms to 10 days cost nothing. Laws checked at every instant: per_sec finite, >= 0 and <= the largest observed rate; eta == remaining/per_sec recomputed at the same frozen instant; duration == elapsed + eta; decay to ~0 after an hour of stall; monotone decay during a stall. Steady progress at irregular cadence must report the exact rate (1e-9). Two bars with different pre-histories must be bit-identical after reset_eta/reset_elapsed/reset/a common backwards seek.",
         "Trusted: clock_gettime interposition (self-tested at start-up). The recorded known finding F-C09 (rate can rise during a stall after a rate change) is excluded by signature+kind and reported as KNOWN-FINDING.",
         "DESIGN.md 3 C09"),
 "C10": ("exploration",
         "property-based testing: crash-oracle over arbitrary/mutated strings + grammar-based generation with a reference renderer (round-trip of the documented template grammar)",
         "Totality: arbitrary Unicode strings, strings over the template alphabet and grammar-generated templates with random character edits go through with_template()/template() under catch_unwind. Fidelity: templates are generated from the documented grammar as a list of parts (literals with doubled braces, '{'+whitespace, newlines, placeholders with align/width/!/style over harness-registered custom keys, state-independent built-ins and unknown keys, widths up to 2^32) and the lines captured from a 65535-column terminal must equal the in-order concatenation of the parts' reference expansions, line by line. Search only.",
         "Trusted: harness reference renderer (model.rs pad reference, c10.rs); colours disabled so styles are transparent; literals without C0 controls.",
         "DESIGN.md 3 C10"),
 "C12": ("exploration",
         "property-based testing against a cell-wise reference implementation of a padded/truncating field",
         "Contents built from ASCII, multi-byte single-width, double-width and SGR-wrapped chunks are rendered through {msg}/{prefix}/a custom key with every alignment, width (around the content width, small, any u16) and truncation flag, and through literal{wide_msg}literal on terminals of 1..200 columns; the output is compared with a reference working on (character, columns) cells: exact width and padding side when it fits, unchanged when too wide without '!', the cells inside the kept window with '!'.",
         "Trusted: unicode-width/console column measurement (the same tables the crate uses), the reference in model.rs. Slack accepted: odd column of centre alignment on either side; W-1 columns where a double-width character straddles the cut; trailing padding of a line-final wide_msg may be trimmed.",
         "DESIGN.md 3 C12"),
 "C13": ("exploration",
         "bounded-exhaustive sweep + property-based testing; rendered bar parsed back into (filled, partial, background) cells and checked against the stated geometry laws",
         "Sweep: 8 character sets x width 0..=40 (thorough 128) x len 0..=40 (128) x pos 0..=len+2, every point checked for cell count floor(N/c), filled == floor(fraction*cells) (library's own f32 fraction, 1 ulp), empty at 0, full iff pos >= len, exactly one partial cell from the configured set otherwise, field padded to N, and monotonicity along pos. Random: sets of 2..=10 distinct clusters of 1 or 2 columns, widths to 65535, lengths to u64::MAX, wide_bar between literals (with multi-byte/double-width text) on terminals 1..300: line width == W - (avail mod c).",
         "Trusted: parse-back of distinct clusters; f32 tolerance of one ulp on the product; 'full only if pos>=len' asserted for len <= 2^20.",
         "DESIGN.md 3 C13"),
 "C14": ("exploration",
         "property-based testing with a crash oracle over generated builder-call sequences and bar states (catch_unwind per builder call and per draw)",
         "1-5 builder calls (with_template/template over all documented keys, tick_chars, tick_strings, progress_chars with 0..6 clusters of width 0/1/2 mixed, with_key), each under catch_unwind: a panic there is the allowed explicit rejection, documented unrenderable configurations must be rejected there, and any style that was returned is drawn (tick, inc, println, finish/abandon, drop) for position/length extremes, 1..200 columns, virtual elapsed times up to 49 days, plus get_tick_str for tick values up to u64::MAX - none of which may unwind.",
         "Trusted: catch_unwind + panic hook; widths measured per char (default features).",
         "DESIGN.md 3 C14"),
 "C15": ("exploration",
         "property-based testing (proptest) against reference formatters + bounded-exhaustive unit-boundary sweep",
         "Generated u64 / f64 bit patterns x precision / Duration pairs are formatted by the public wrappers and compared with independent reference formatters written from the statement (comma grouping, std fixed precision, largest-fitting-prefix with two decimals, [Dd ]HH:MM:SS, the HumanDuration rounding rule in exact integer nanoseconds) plus monotonicity along sorted durations; every unit boundary +-{1ns..1s} is enumerated. Search, not proof: absence of a counterexample in ~200k (quick) / ~6M (thorough) cases.",
         "Trusted: the reference formatters in harness/src/props/c15.rs; Rust std float formatting as the 'standard decimal representation'.",
         "DESIGN.md 3 C15"),
}

NOT_YET = "check not built yet (work in progress; the design in DESIGN.md section 3 applies)"

def main():
    hooks_commits = []
    checks = []
    for pid in ALL:
        if pid not in CLAIMED: continue
        cat, tech, text, note, ref = CLAIMED[pid]
        checks.append({
            "property_id": pid,
            "quick_cmd": f"./check {pid} quick",
            "thorough_cmd": f"./check {pid} thorough",
            "evidence_file": f"/verif/evidence/{pid}.json",
            "replay_cmd_template": f"./check {pid} --replay {{path}}",
            "engine": "vhs" if pid == "C08" else "vh",
            "level_claimed": {"category": cat, "text": text, "design_ref": ref},
            "level_note": note,
            "technique": tech,
        })
    m = {
        "version": 1,
        "setup_cmd": "./setup.sh",
        "hooks": {
            "guard": "cargo feature verif-hooks",
            "enable": "harness-sched depends on indicatif with features = [\"verif-hooks\"]; all other checks build /repo with the guard off",
            "baseline_off_cmd": "cd /repo && cargo test --workspace --no-fail-fast --offline",
            "source_commits": hooks_commits,
            "add_only": True,
        },
        "engines": [
            {"name": "vh", "path": "/verif/harness", "serves_properties": [p for p in ALL if p in CLAIMED and p != "C08"],
             "kind_free_text": "Rust binary: proptest TestRunner (seeded, parallel workers, shrinking to replay JSON), virtual clock by clock_gettime interposition, recording/fault-injecting TermLike over an own terminal-grid emulator, reference models per property"},
        ],
        "checks": checks,
        "not_applicable": [{"property_id": p, "reason": NOT_YET} for p in ALL if p not in CLAIMED],
        "notes": "Every check: exit 0 held / exit 1 with 'VIOLATION property=<id> replay=<path>' / exit 2 harness problem (build failure, watchdog, vacuous generator). VERIF_SEED seeds every generator. Known findings: /verif/known_findings.json.",
    }
    json.dump(m, open("/verif/MANIFEST.json", "w"), indent=1)
    print("MANIFEST.json written:", len(checks), "checks")

main()
