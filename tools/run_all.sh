#!/bin/bash
# tools/run_all.sh [tier]: run every claimed check, validate evidence against the schema, summarise.
tier="${1:-quick}"
cd /verif
ids=$(python3 -c "import json;print(' '.join(c['property_id'] for c in json.load(open('MANIFEST.json'))['checks']))")
bad=0
for id in $ids; do
  out=$(./check $id $tier 2>&1); rc=$?
  line=$(echo "$out" | grep -E "^$id $tier:" | tail -1)
  echo "$id rc=$rc $line"
  [ $rc -ne 0 ] && { bad=1; echo "$out" | grep -E "VIOLATION|HARNESS" | head -3; }
done
python3-vt - <<'PY'
import json,jsonschema,glob
schema=json.load(open('/root/.vp/EVIDENCE.schema.json'))
m=json.load(open('/verif/MANIFEST.json'))
jsonschema.validate(m,json.load(open('/root/.vp/MANIFEST.schema.json')))
for c in m['checks']:
    try:
        e=json.load(open(c['evidence_file']))
        jsonschema.validate(e,schema)
        assert e['property_id']==c['property_id']
    except Exception as ex:
        print("EVIDENCE PROBLEM", c['property_id'], str(ex)[:200])
print("manifest+evidence validated")
PY
exit $bad
