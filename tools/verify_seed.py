#!/usr/bin/env python3
"""tools/verify_seed.py <seed-root> [ID ...]

Confirms each sub-agent mutant in a scratch clone of /repo HEAD (outside /repo and /verif):
  1. the patch applies (patch.ported.diff if the original no longer applies to HEAD),
  2. it compiles with default features and with rayon,tokio,futures,in_memory,
  3. the pinned test suite (cargo test --workspace --no-fail-fast --offline) still passes,
  4. the demonstration fails with the patch and passes without it,
and then files it under /verif/seeded/<ID>/<name>/ (patch.diff, demo.rs, meta.json).
Nothing is ever applied to /repo here. The scratch clone is removed at the end.
"""
import json, os, re, shutil, subprocess, sys, glob

ROOT = sys.argv[1]
IDS = sys.argv[2:]
SCRATCH = "/tmp/wt/verify"
ENV = dict(os.environ, CARGO_NET_OFFLINE="true")


def sh(cmd, cwd=SCRATCH, timeout=1800):
    p = subprocess.run(cmd, shell=True, cwd=cwd, env=ENV, capture_output=True, text=True, timeout=timeout)
    return p.returncode, p.stdout + p.stderr


def suite_ok():
    rc, out = sh("cargo test --workspace --no-fail-fast --offline")
    passed = sum(int(m) for m in re.findall(r"test result: ok\. (\d+) passed", out))
    failed = "FAILED" in out or "test result: FAILED" in out or rc != 0
    return (not failed), passed, out


def main():
    if os.path.exists(SCRATCH):
        shutil.rmtree(SCRATCH)
    subprocess.run(["git", "clone", "-q", "/repo", SCRATCH], check=True)
    shutil.copy("/repo/Cargo.lock", SCRATCH + "/Cargo.lock")
    head = subprocess.run(["git", "-C", "/repo", "log", "--format=%h", "-1"], capture_output=True, text=True).stdout.strip()
    # warm the build once
    sh("cargo test --workspace --no-run --offline")
    results = []
    for d in sorted(glob.glob(f"{ROOT}/C*/seeded/*/")):
        pid = d.split("/")[-4]
        name = d.rstrip("/").split("/")[-1]
        if IDS and pid not in IDS:
            continue
        meta = json.load(open(d + "meta.json"))
        patch = d + ("patch.ported.diff" if os.path.exists(d + "patch.ported.diff") else "patch.diff")
        ported = patch.endswith("ported.diff")
        ran = []
        ok = True
        sh("git checkout -q -- . && git clean -fdq tests")
        rc, out = sh(f"git apply {patch}")
        ran.append(f"git apply {os.path.basename(patch)} on /repo HEAD {head}: {'ok' if rc == 0 else 'FAILED'}")
        if rc != 0:
            results.append((pid, name, "PATCH-DOES-NOT-APPLY"))
            continue
        rc1, _ = sh("cargo build --offline")
        rc2, _ = sh("cargo build --offline --features rayon,tokio,futures,in_memory")
        ran.append(f"cargo build --offline: {'ok' if rc1 == 0 else 'FAILED'}; with --features rayon,tokio,futures,in_memory: {'ok' if rc2 == 0 else 'FAILED'}")
        ok &= rc1 == 0 and rc2 == 0
        sok, passed, _ = suite_ok()
        ran.append(f"cargo test --workspace --no-fail-fast --offline with the patch: {'all pass' if sok else 'FAILURES'} ({passed} tests)")
        ok &= sok
        # the demonstration
        demo_cmd = meta.get("demo_cmd", "")
        m = re.search(r"--test\s+(\S+)", demo_cmd)
        test_name = m.group(1) if m else "seeded_" + name
        feats = re.search(r"--features\s+(\S+)", demo_cmd)
        cmd = f"cargo test --offline {'--features ' + feats.group(1) if feats else ''} --test {test_name}"
        shutil.copy(d + "demo.rs", f"{SCRATCH}/tests/{test_name}.rs")
        rc_with, out_with = sh(cmd)
        ran.append(f"{cmd} with the patch: {'FAILS (expected)' if rc_with != 0 else 'passes (NOT expected)'}")
        sh("git checkout -q -- src Cargo.toml")
        rc_without, out_without = sh(cmd)
        ran.append(f"{cmd} without the patch: {'passes (expected)' if rc_without == 0 else 'FAILS (NOT expected)'}")
        demo_ok = rc_with != 0 and rc_without == 0 and "error: could not compile" not in out_with
        ok &= demo_ok
        verdict = "CONFIRMED" if ok else "REJECTED"
        results.append((pid, name, verdict))
        if ok:
            dst = f"/verif/seeded/{pid}/{name}"
            os.makedirs(dst, exist_ok=True)
            shutil.copy(patch, dst + "/patch.diff")
            shutil.copy(d + "demo.rs", dst + "/demo.rs")
            json.dump(
                {
                    "property": pid,
                    "name": name,
                    "breaks": meta.get("breaks", ""),
                    "needs": meta.get("needs", ""),
                    "demo": f"copy demo.rs to tests/{test_name}.rs, then: {cmd}",
                    "patch_ported_to_head": ported,
                    "confirmed_on": head,
                    "ran": ran,
                    "author": "independent sub-agent given only the property record and a scratch clone",
                },
                open(dst + "/meta.json", "w"),
                indent=1,
            )
        else:
            print(f"--- {pid}/{name}: {ran}")
        print(pid, name, verdict, flush=True)
    shutil.rmtree(SCRATCH, ignore_errors=True)
    print("SUMMARY")
    for r in results:
        print(" ", *r)


main()
