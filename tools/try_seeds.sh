#!/bin/bash
# tools/try_seeds.sh <seed-root> <ID> [tier]: apply each <seed-root>/<ID>/*/patch.diff (or <seed-root>/<ID>/seeded/*) to /repo,
# run ./check <ID> <tier>, undo. Prints CAUGHT / MISSED / NOAPPLY per mutant.
root="$1"; id="$2"; tier="${3:-quick}"
cd /repo && { git diff --quiet || { echo "repo not clean"; exit 2; }; }
for d in "$root/$id"/seeded/*/ "$root/$id"/*/; do
  [ -f "$d/patch.diff" ] || continue
  name=$(basename "$d")
  if ! git -C /repo apply --check "$d/patch.diff" 2>/dev/null; then
    if git -C /repo apply --3way "$d/patch.diff" 2>/dev/null; then git -C /repo reset -q; else echo "NOAPPLY $id/$name"; git -C /repo reset -q --hard HEAD; continue; fi
  else
    git -C /repo apply "$d/patch.diff"
  fi
  out=$(cd /verif && timeout 1200 ./check "$id" "$tier" 2>&1); rc=$?
  git -C /repo checkout -- .
  if [ $rc -eq 1 ]; then echo "CAUGHT  $id/$name  :: $(echo "$out" | grep -m1 -B1 VIOLATION | head -1 | cut -c1-200)";
  elif [ $rc -eq 0 ]; then echo "MISSED  $id/$name";
  else echo "PROBLEM($rc) $id/$name :: $(echo "$out" | tail -3 | tr '\n' ' ' | cut -c1-300)"; fi
done
