#!/usr/bin/env python3
"""tools/merge_fuzz_evidence.py <ID> <file with the output of tools/fuzz.sh>: fold the libFuzzer campaign into evidence/<ID>.json"""
import json, re, sys
pid, outfile = sys.argv[1], sys.argv[2]
out = open(outfile).read()
p = f"/verif/evidence/{pid}.json"
try:
    e = json.load(open(p))
    targets, total = [], 0
    for m in re.finditer(r"fuzz \S+ target (\S+): rc=(\d+) (?:Done (\d+) runs)?\s*(?:cov: (\d+))?", out):
        n = int(m.group(3) or 0)
        total += n
        targets.append({"target": m.group(1), "exit": int(m.group(2)), "executions": n, "edge_coverage": int(m.group(4) or 0)})
    e["coverage"]["libfuzzer"] = {
        "targets": targets,
        "executions": total,
        "note": "coverage-guided campaign over the same oracles; every execution decodes the bytes into a structured case; not counted in distinct_nontrivial",
    }
    e["coverage"]["evaluations"] += total
    if "VIOLATION property=" in out:
        e["violations"] = e.get("violations", 0) + 1
    json.dump(e, open(p, "w"), indent=1)
except Exception as ex:
    print("HARNESS-PROBLEM: could not merge fuzz evidence:", ex)
