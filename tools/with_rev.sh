#!/bin/bash
# tools/with_rev.sh <rev> <command...> : run a command with /repo/src temporarily at <rev>, then restore HEAD.
rev="$1"; shift
cd /repo || exit 2
if ! git diff --quiet || ! git diff --cached --quiet; then echo "repo not clean"; exit 2; fi
git checkout -q "$rev" -- src
( cd /verif && "$@" ); rc=$?
git -C /repo checkout -q HEAD -- src
git -C /repo status --short | grep -v '^??' 
exit $rc
