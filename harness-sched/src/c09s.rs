//! C09 under generated schedules (shuttle, virtual clock): position updates that arrive from several
//! threads at once are forward progress - the estimator must not take them for a rewind and forget
//! what it has learnt ("ignores everything that happened before reset_eta/reset or a backwards seek",
//! and nothing else).
use std::sync::Arc;
use std::time::Duration;

use indicatif::{ProgressBar, ProgressDrawTarget};
use proptest::prelude::*;
use serde::{Deserialize, Serialize};
use shuttle::scheduler::{PctScheduler, RandomScheduler};

use crate::clock;
use crate::runner::*;

#[derive(Debug, Clone, Serialize, Deserialize)]
pub struct EstCase {
    /// steady single-threaded steps first (one inc per `gap_ms`)
    warm: u8,
    gap_ms: u16,
    threads: u8,
    /// inc(1) calls per thread, all at one instant
    incs: u8,
    /// a further thread only ticks (a sample without progress)
    ticker: bool,
    seed: u64,
    schedules: u32,
    pct_depth: Option<u8>,
}

fn body(c: &EstCase) {
    let pb = ProgressBar::with_draw_target(Some(1_000_000), ProgressDrawTarget::hidden());
    let warm = c.warm.clamp(3, 12) as u64;
    for _ in 0..warm {
        clock::advance(Duration::from_millis(c.gap_ms.max(1) as u64));
        pb.inc(1);
    }
    let before = pb.per_sec();
    assert!(before.is_finite() && before > 0.0, "ESTIMATOR: per_sec() = {before} after {warm} steady steps");
    // one millisecond later several threads advance the position at the same instant
    clock::advance(Duration::from_millis(1));
    let n = c.threads.clamp(2, 3) as u64;
    let incs = c.incs.clamp(1, 3) as u64;
    let mut hs = vec![];
    for _ in 0..n {
        let pb = pb.clone();
        hs.push(shuttle::thread::spawn(move || {
            for _ in 0..incs {
                pb.inc(1);
            }
        }));
    }
    if c.ticker {
        let pb = pb.clone();
        hs.push(shuttle::thread::spawn(move || pb.tick()));
    }
    for h in hs {
        h.join().expect("worker panicked");
    }
    assert_eq!(pb.position(), warm + n * incs, "ESTIMATOR: lost position update");
    let after = pb.per_sec();
    let eta = pb.eta();
    assert!(after.is_finite() && after >= 0.0, "ESTIMATOR: per_sec() = {after}");
    // more steps in less time can only raise the rate; half of the earlier estimate is a generous floor
    assert!(
        after >= before * 0.5,
        "ESTIMATOR: {n} threads advanced the position by {} within one instant and per_sec() fell from {before} to {after} (eta {eta:?}): forward progress was taken for a rewind",
        n * incs
    );
}

fn run_est(c: &EstCase) -> CaseResult {
    let case = Arc::new(c.clone());
    let mut cfg = shuttle::Config::new();
    cfg.failure_persistence = shuttle::FailurePersistence::None;
    cfg.max_steps = shuttle::MaxSteps::FailAfter(500_000);
    let iters = c.schedules.max(1) as usize;
    let c2 = case.clone();
    // (shuttle's threads are coroutines of this OS thread: they share its virtual clock)
    let _clk = clock::Armed::new();
    let r = catch(move || match c2.pct_depth {
        Some(d) => shuttle::Runner::new(PctScheduler::new_from_seed(c2.seed, d.clamp(1, 5) as usize, iters), cfg).run({
            let c3 = c2.clone();
            move || body(&c3)
        }),
        None => shuttle::Runner::new(RandomScheduler::new_from_seed(c2.seed, iters), cfg).run({
            let c3 = c2.clone();
            move || body(&c3)
        }),
    });
    match r {
        Ok(_) => {
            let mut v = Verdict::default();
            v.nontrivial = true;
            v.label("schedules_explored");
            v.label_if(c.threads.clamp(2, 3) == 3, "three_updaters");
            v.label_if(c.ticker, "with_a_ticking_thread");
            v.label_if(c.pct_depth.is_some(), "pct_scheduler");
            Ok(v)
        }
        Err(msg) => {
            let kind = if msg.contains("deadlock") {
                "deadlock"
            } else if msg.contains("ESTIMATOR:") {
                "estimate_forgotten_under_concurrency"
            } else {
                "panic"
            };
            Err(Fail::new(kind, format!("{c:?}: {msg}")))
        }
    }
}

// ------------------------------------------------------------------------------------------
// the sample taken by the steady-tick thread while it had to wait for the bar

#[derive(Debug, Clone, Serialize, Deserialize)]
pub struct StampCase {
    /// the bar's state is held (inside suspend()) for this long while the ticker wants to draw
    hold_ms: u16,
    /// steps made by the closure at the end of that time
    steps: u16,
    seed: u64,
    schedules: u32,
    pct_depth: Option<u8>,
}

fn body_stamp(c: &StampCase) {
    let pb = ProgressBar::with_draw_target(Some(10_000_000), ProgressDrawTarget::hidden());
    clock::advance(Duration::from_millis(100));
    pb.enable_steady_tick(Duration::from_secs(3600));
    let hold = Duration::from_millis(c.hold_ms.max(200) as u64);
    let steps = c.steps.max(10) as u64;
    let p2 = pb.clone();
    // (while a ticker is installed inc() does not touch the bar's state: only the ticker feeds the estimator)
    pb.suspend(|| {
        clock::advance(hold);
        p2.inc(steps);
    });
    pb.disable_steady_tick();
    pb.tick();
    assert_eq!(pb.position(), steps, "ESTIMATOR: lost position update");
    let true_rate = steps as f64 / (hold.as_secs_f64() + 0.1);
    let got = pb.per_sec();
    assert!(
        got.is_finite() && (got - true_rate).abs() <= 0.05 * true_rate,
        "ESTIMATOR: {steps} steps in {:?} since the bar was created (the steady-tick thread may have waited {hold:?} for the bar): per_sec() = {got}, the true rate is {true_rate}",
        hold + Duration::from_millis(100)
    );
}

fn run_stamp(c: &StampCase) -> CaseResult {
    let case = Arc::new(c.clone());
    let mut cfg = shuttle::Config::new();
    cfg.failure_persistence = shuttle::FailurePersistence::None;
    cfg.max_steps = shuttle::MaxSteps::FailAfter(500_000);
    let iters = c.schedules.max(1) as usize;
    let c2 = case.clone();
    let _clk = clock::Armed::new();
    let r = catch(move || match c2.pct_depth {
        Some(d) => shuttle::Runner::new(PctScheduler::new_from_seed(c2.seed, d.clamp(1, 5) as usize, iters), cfg).run({
            let c3 = c2.clone();
            move || body_stamp(&c3)
        }),
        None => shuttle::Runner::new(RandomScheduler::new_from_seed(c2.seed, iters), cfg).run({
            let c3 = c2.clone();
            move || body_stamp(&c3)
        }),
    });
    match r {
        Ok(_) => {
            let mut v = Verdict::default();
            v.nontrivial = true;
            v.label("ticker_sample_schedules_explored");
            v.label_if(c.pct_depth.is_some(), "pct_scheduler");
            Ok(v)
        }
        Err(msg) => {
            let kind = if msg.contains("deadlock") {
                "deadlock"
            } else if msg.contains("ESTIMATOR:") {
                "ticker_sample_misdated"
            } else {
                "panic"
            };
            Err(Fail::new(kind, format!("{c:?}: {msg}")))
        }
    }
}

pub fn property() -> Property {
    Property {
        id: "C09",
        level: "exploration",
        assumptions: &[
            "hooks on: every lock operation is a scheduling point of shuttle; the virtual clock is shared by all shuttle threads (they are coroutines of one OS thread) and only the program advances it",
            "randomised / PCT schedules never establish absence",
        ],
        parts: vec![Box::new(Gen::<EstCase> {
            name: "sched_estimator",
            rule: "3-12 steady single-threaded steps (gap 1 ms..60 s on the virtual clock), then, one millisecond later and at one instant, 2-3 threads each call inc(1) 1-3 times (optionally another thread ticks) under 150 (thorough 2000) random or PCT schedules: no position update is lost and the rate does not fall below half of what it was (forward progress from several threads is not a backwards seek); non-trivial = every program",
            strategy: |t| {
                let schedules = t.pick(150u32, 2000);
                (3u8..=12, prop_oneof![1u16..50, 50u16..2000, 2000u16..60000], 2u8..=3, 1u8..=3, any::<bool>(), any::<u64>(), proptest::option::weighted(0.3, 1u8..4))
                    .prop_map(move |(warm, gap_ms, threads, incs, ticker, seed, pct_depth)| EstCase { warm, gap_ms, threads, incs, ticker, seed, schedules, pct_depth })
                    .boxed()
            },
            cases: |t| t.pick(40, 600),
            run: run_est,
            signature: no_signature,
            essential: &["schedules_explored", "three_updaters", "with_a_ticking_thread", "pct_scheduler"],
            workers: default_workers(),
            decode: None,
        }),
        Box::new(Gen::<StampCase> {
            name: "sched_ticker_sample",
            rule: "a bar with a steady ticker (1 h) whose state is held for 0.2-8 s of virtual time by a suspend() closure that makes 10-5000 steps at the end, under 100 (thorough 1500) random or PCT schedules of main thread and ticker thread; after disable_steady_tick() and one tick() per_sec() is within 5% of steps / time since creation, whether the ticker took its sample before the closure or had to wait for it; non-trivial = every program",
            strategy: |t| {
                let schedules = t.pick(100u32, 1500);
                (200u16..8000, 10u16..5000, any::<u64>(), proptest::option::weighted(0.3, 1u8..4))
                    .prop_map(move |(hold_ms, steps, seed, pct_depth)| StampCase { hold_ms, steps, seed, schedules, pct_depth })
                    .boxed()
            },
            cases: |t| t.pick(20, 300),
            run: run_stamp,
            signature: no_signature,
            essential: &["ticker_sample_schedules_explored", "pct_scheduler"],
            workers: default_workers(),
            decode: None,
        })],
    }
}
