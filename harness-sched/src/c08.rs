//! C08 No deadlock; steady-tick thread lifecycle - generated programs x generated schedules (shuttle).
use std::io;
use std::sync::atomic::{AtomicUsize, Ordering};
use std::sync::Arc;
use std::time::Duration;

use indicatif::{verif_sync, MultiProgress, ProgressBar, ProgressDrawTarget, ProgressStyle, TermLike};
use proptest::prelude::*;
use serde::{Deserialize, Serialize};
use shuttle::scheduler::{PctScheduler, RandomScheduler};

use crate::runner::*;

#[derive(Debug, Clone, Default)]
struct Spy {
    flushes: Arc<AtomicUsize>,
    calls: Arc<AtomicUsize>,
}

impl TermLike for Spy {
    fn width(&self) -> u16 {
        40
    }
    fn height(&self) -> u16 {
        20
    }
    fn move_cursor_up(&self, _: usize) -> io::Result<()> {
        self.calls.fetch_add(1, Ordering::SeqCst);
        Ok(())
    }
    fn move_cursor_down(&self, _: usize) -> io::Result<()> {
        self.calls.fetch_add(1, Ordering::SeqCst);
        Ok(())
    }
    fn move_cursor_right(&self, _: usize) -> io::Result<()> {
        Ok(())
    }
    fn move_cursor_left(&self, _: usize) -> io::Result<()> {
        Ok(())
    }
    fn write_line(&self, _: &str) -> io::Result<()> {
        self.calls.fetch_add(1, Ordering::SeqCst);
        Ok(())
    }
    fn write_str(&self, _: &str) -> io::Result<()> {
        self.calls.fetch_add(1, Ordering::SeqCst);
        Ok(())
    }
    fn clear_line(&self) -> io::Result<()> {
        self.calls.fetch_add(1, Ordering::SeqCst);
        Ok(())
    }
    fn flush(&self) -> io::Result<()> {
        self.flushes.fetch_add(1, Ordering::SeqCst);
        Ok(())
    }
}

#[derive(Debug, Clone, Copy, Serialize, Deserialize, PartialEq)]
pub enum Call {
    Update,
    EnableTick(u8),
    DisableTick,
    Tick,
    Inc,
    SetMessage,
    SetLength,
    Finish,
    FinishAndClear,
    Println,
    Suspend,
    Reset,
    CloneDrop,
    Position,
    IsFinished,
    MpPrintln,
    MpSuspend,
    MpRemove,
    MpAddOther,
    MpClear,
    /// mp.insert_after(&bar, other) / insert_before: the shared bar is the anchor
    MpInsertAfter,
    MpInsertBefore,
    /// the same calls through a handle obtained by downgrade() + upgrade(): it is the same bar
    TickViaWeak,
    EnableTickViaWeak(u8),
    DisableTickViaWeak,
    /// mp.insert_before / insert_after with bars that are members already: the shared bar as its own anchor
    /// (0), the shared bar before/after the second member (1), the second member before/after the shared bar
    /// (2) - documented to have no effect; `.1` = insert_after
    MpInsertMember(u8, bool),
    /// a call on the second member of the MultiProgress
    TickSecond,
    /// format!("{:?}", bar) and, inside a MultiProgress, of the MultiProgress
    DebugFmt,
    /// bars change hands between two MultiProgress objects: the shared bar is added to the other
    /// MultiProgress (true) / the other one's member is added to this one (false)
    MoveAcross(bool),
}

#[derive(Debug, Clone, Serialize, Deserialize)]
pub struct Prog {
    ticker_on: bool,
    in_multi: bool,
    threads: Vec<Vec<Call>>,
    main: Vec<Call>,
    /// how many times a `wait_timeout_while` may "time out" in one execution
    timeout_budget: u8,
    /// false: random scheduler, true: PCT with this depth
    pct_depth: Option<u8>,
}

fn interval(k: u8) -> Duration {
    [Duration::from_millis(1), Duration::from_secs(1), Duration::from_secs(3600), Duration::from_secs(10 * 86400)][k as usize % 4]
}

fn exec(c: Call, pb: &ProgressBar, mp: &Option<MultiProgress>, second: &Option<ProgressBar>, other: &Option<(MultiProgress, ProgressBar)>) {
    match c {
        Call::Update => pb.update(|s| s.set_pos(s.pos() + 1)),
        Call::EnableTick(k) => pb.enable_steady_tick(interval(k)),
        Call::DisableTick => pb.disable_steady_tick(),
        Call::Tick => pb.tick(),
        Call::Inc => pb.inc(1),
        Call::SetMessage => pb.set_message("m"),
        Call::SetLength => pb.set_length(20),
        Call::Finish => pb.finish(),
        Call::FinishAndClear => pb.finish_and_clear(),
        Call::Println => pb.println("log"),
        Call::Suspend => pb.suspend(|| ()),
        Call::Reset => pb.reset(),
        Call::CloneDrop => drop(pb.clone()),
        Call::Position => {
            let _ = pb.position();
        }
        Call::IsFinished => {
            let _ = pb.is_finished();
        }
        Call::MpPrintln => {
            if let Some(mp) = mp {
                let _ = mp.println("mlog");
            }
        }
        Call::MpSuspend => {
            if let Some(mp) = mp {
                mp.suspend(|| ());
            }
        }
        Call::MpRemove => {
            if let Some(mp) = mp {
                mp.remove(pb);
            }
        }
        Call::MpAddOther => {
            if let Some(mp) = mp {
                let other = mp.add(ProgressBar::with_draw_target(Some(3), ProgressDrawTarget::hidden()));
                other.tick();
                other.finish();
            }
        }
        Call::MpClear => {
            if let Some(mp) = mp {
                let _ = mp.clear();
            }
        }
        Call::TickViaWeak | Call::EnableTickViaWeak(_) | Call::DisableTickViaWeak => {
            let again = pb.downgrade().upgrade().expect("a strong handle exists");
            match c {
                Call::TickViaWeak => again.tick(),
                Call::EnableTickViaWeak(k) => again.enable_steady_tick(interval(k)),
                _ => again.disable_steady_tick(),
            }
        }
        Call::MpInsertMember(which, after) => {
            if let (Some(mp), Some(second)) = (mp, second) {
                let (anchor, bar) = match which % 3 {
                    0 => (pb, pb.clone()),
                    1 => (second, pb.clone()),
                    _ => (pb, second.clone()),
                };
                let back = if after { mp.insert_after(anchor, bar) } else { mp.insert_before(anchor, bar) };
                back.tick();
            }
        }
        Call::MoveAcross(out) => {
            if let (Some(mp), Some((mp2, b2))) = (mp, other) {
                let back = if out { mp2.add(pb.clone()) } else { mp.add(b2.clone()) };
                back.tick();
            }
        }
        Call::DebugFmt => {
            let _ = format!("{pb:?}");
            if let Some(mp) = mp {
                let _ = format!("{mp:?}");
            }
        }
        Call::TickSecond => {
            if let Some(second) = second {
                second.tick();
            }
        }
        Call::MpInsertAfter | Call::MpInsertBefore => {
            if let Some(mp) = mp {
                let other = ProgressBar::with_draw_target(Some(3), ProgressDrawTarget::hidden());
                let other = if c == Call::MpInsertAfter { mp.insert_after(pb, other) } else { mp.insert_before(pb, other) };
                other.tick();
            }
        }
    }
}

thread_local! {
    static STOPPED_AFTER_FINISH: std::cell::Cell<usize> = const { std::cell::Cell::new(0) };
    static EXECUTIONS: std::cell::Cell<usize> = const { std::cell::Cell::new(0) };
}

/// One execution of the program under the current shuttle schedule. Panics = failure.
fn body(p: &Prog) {
    verif_sync::reset(p.timeout_budget as usize);
    let spy = Spy::default();
    let mut mp = None;
    let mut second = None;
    let mut other: Option<(MultiProgress, ProgressBar)> = None;
    let pb = if p.in_multi {
        let m = MultiProgress::with_draw_target(ProgressDrawTarget::term_like(Box::new(spy.clone())));
        let pb = m.add(ProgressBar::with_draw_target(Some(10), ProgressDrawTarget::hidden()));
        second = Some(m.add(ProgressBar::with_draw_target(Some(5), ProgressDrawTarget::hidden())));
        let m2 = MultiProgress::with_draw_target(ProgressDrawTarget::term_like(Box::new(Spy::default())));
        let b2 = m2.add(ProgressBar::with_draw_target(Some(7), ProgressDrawTarget::hidden()));
        other = Some((m2, b2));
        mp = Some(m);
        pb
    } else {
        ProgressBar::with_draw_target(Some(10), ProgressDrawTarget::term_like(Box::new(spy.clone())))
    };
    pb.set_style(ProgressStyle::with_template("{spinner} {pos}/{len} {msg}").unwrap());
    if p.ticker_on {
        pb.enable_steady_tick(interval(2));
    }
    let mut hs = vec![];
    for calls in &p.threads {
        let calls = calls.clone();
        let pb = pb.clone();
        let mp = mp.clone();
        let second = second.clone();
        let other = other.clone();
        hs.push(shuttle::thread::spawn(move || {
            for c in calls {
                exec(c, &pb, &mp, &second, &other);
            }
        }));
    }
    for c in &p.main {
        exec(*c, &pb, &mp, &second, &other);
    }
    for h in hs {
        h.join().expect("worker thread panicked");
    }
    // lifecycle: disabling joins the ticker, whatever its interval
    pb.disable_steady_tick();
    assert_eq!(verif_sync::live_threads(), 0, "LIFECYCLE: a steady-tick thread is still alive after disable_steady_tick() returned");
    // replace: the old ticker is gone when enable returns
    pb.enable_steady_tick(interval(3));
    pb.enable_steady_tick(interval(2));
    assert!(verif_sync::live_threads() <= 1, "LIFECYCLE: {} steady-tick threads alive after replacing the ticker", verif_sync::live_threads());
    // a zero interval asks for nothing: it neither starts a ticker nor stops the one that runs
    let before = verif_sync::live_threads();
    pb.enable_steady_tick(Duration::ZERO);
    assert_eq!(verif_sync::live_threads(), before, "LIFECYCLE: enable_steady_tick(0) changed the number of steady-tick threads");
    // finishing: no frame is painted after finish() has returned
    // (the second member goes first: dropping it unfinished paints its final frame; the shared bar may
    // have moved to the other MultiProgress, whose own terminal is not the one watched here)
    drop(second);
    drop(other);
    pb.reset();
    pb.finish();
    let frames = spy.flushes.load(Ordering::SeqCst);
    shuttle::thread::yield_now();
    shuttle::thread::yield_now();
    for _ in 0..6 {
        if verif_sync::live_threads() == 0 {
            break;
        }
        shuttle::thread::yield_now();
    }
    // a ticker that wakes up (its wait timed out) and finds the bar finished ends by itself, while handles
    // are still alive; whether its wait times out is a generated choice, so this is counted over all
    // executions of the program and required to happen at least once (see run_sched)
    if verif_sync::live_threads() == 0 {
        STOPPED_AFTER_FINISH.with(|c| c.set(c.get() + 1));
    }
    EXECUTIONS.with(|c| c.set(c.get() + 1));
    // last handle dropped: the ticker (interval of days) must stop, the drop must not hang
    drop(pb);
    drop(mp);
    assert_eq!(verif_sync::live_threads(), 0, "LIFECYCLE: a steady-tick thread survived the last handle");
    assert_eq!(spy.flushes.load(Ordering::SeqCst), frames, "LIFECYCLE: a frame was painted after finish() returned");
}

#[derive(Debug, Clone, Serialize, Deserialize)]
pub struct SchedCase {
    prog: Prog,
    seed: u64,
    schedules: u32,
}

fn run_sched(c: &SchedCase) -> CaseResult {
    let prog = Arc::new(c.prog.clone());
    let mut cfg = shuttle::Config::new();
    cfg.failure_persistence = shuttle::FailurePersistence::None;
    cfg.max_steps = shuttle::MaxSteps::FailAfter(200_000);
    let p2 = prog.clone();
    let iters = c.schedules.max(1) as usize;
    STOPPED_AFTER_FINISH.with(|c| c.set(0));
    EXECUTIONS.with(|c| c.set(0));
    let r = catch(move || match p2.pct_depth {
        Some(d) => {
            let runner = shuttle::Runner::new(PctScheduler::new_from_seed(c.seed, d.clamp(1, 5) as usize, iters), cfg);
            let p3 = p2.clone();
            runner.run(move || body(&p3))
        }
        None => {
            let runner = shuttle::Runner::new(RandomScheduler::new_from_seed(c.seed, iters), cfg);
            let p3 = p2.clone();
            runner.run(move || body(&p3))
        }
    });
    let touch = |calls: &Vec<Call>| calls.iter().any(|c| matches!(c, Call::Update | Call::EnableTick(_) | Call::DisableTick | Call::EnableTickViaWeak(_) | Call::DisableTickViaWeak));
    let mut v = Verdict::default();
    match r {
        Ok(n) => {
            let ticker_or_update = c.prog.ticker_on || touch(&c.prog.main) || c.prog.threads.iter().any(touch);
            v.nontrivial = !c.prog.threads.is_empty() && ticker_or_update;
            v.label_if(v.nontrivial, "shared_handle_with_ticker_or_update");
            v.label_if(c.prog.in_multi, "inside_multi_progress");
            v.label_if(c.prog.threads.len() >= 2, "three_threads");
            v.label_if(c.prog.pct_depth.is_some(), "pct_scheduler");
            v.label_if(c.prog.timeout_budget > 0, "timeouts_may_fire");
            v.label_if(n > 1, "several_schedules");
            let (stopped, execs) = (STOPPED_AFTER_FINISH.with(|c| c.get()), EXECUTIONS.with(|c| c.get()));
            if std::env::var_os("VERIF_TRACE").is_some() {
                eprintln!("TRACE budget {} stopped {stopped} of {execs}", c.prog.timeout_budget);
            }
            v.label_if(stopped > 0, "ticker_ended_by_itself_after_finish");
            Ok(v)
        }
        Err(msg) => {
            let kind = if msg.contains("deadlock") {
                "deadlock"
            } else if msg.contains("LIFECYCLE") {
                "ticker_lifecycle"
            } else if msg.contains("exceeded max_steps") || msg.contains("max_steps") {
                "livelock"
            } else {
                "panic"
            };
            Err(Fail::new(kind, format!("program {:?} under {} schedules (seed {}): {msg}", c.prog, c.schedules, c.seed)))
        }
    }
}

// ------------------------------------------------------------------------------------------
// "while a steady ticker is installed, manual tick() calls do not advance the spinner"

/// custom key that prints nothing and records which shuttle thread delivered each tick notification
#[derive(Clone)]
struct Who(Arc<std::sync::Mutex<Vec<shuttle::thread::ThreadId>>>);

impl indicatif::style::ProgressTracker for Who {
    fn clone_box(&self) -> Box<dyn indicatif::style::ProgressTracker> {
        Box::new(self.clone())
    }
    fn tick(&mut self, _: &indicatif::ProgressState, _: std::time::Instant) {
        self.0.lock().unwrap().push(shuttle::thread::current().id());
    }
    fn reset(&mut self, _: &indicatif::ProgressState, _: std::time::Instant) {}
    fn write(&self, _: &indicatif::ProgressState, _: &mut dyn std::fmt::Write) {}
}

#[derive(Debug, Clone, Serialize, Deserialize)]
pub struct ManualCase {
    in_multi: bool,
    /// manual calls of the first thread: tick / inc / set_position in turn
    manual: u8,
    /// enable_steady_tick calls of the second thread (each replaces the installed ticker)
    replaces: u8,
    /// a third thread calls update()
    updater: bool,
    timeout_budget: u8,
    pct_depth: Option<u8>,
    seed: u64,
    schedules: u32,
}

fn body_manual(c: &ManualCase) {
    verif_sync::reset(c.timeout_budget as usize);
    let spy = Spy::default();
    let mut mp = None;
    let pb = if c.in_multi {
        let m = MultiProgress::with_draw_target(ProgressDrawTarget::term_like(Box::new(spy.clone())));
        let pb = m.add(ProgressBar::with_draw_target(Some(10), ProgressDrawTarget::hidden()));
        mp = Some(m);
        pb
    } else {
        ProgressBar::with_draw_target(Some(10), ProgressDrawTarget::term_like(Box::new(spy.clone())))
    };
    let who = Arc::new(std::sync::Mutex::new(vec![]));
    pb.set_style(ProgressStyle::with_template("{spinner} {pos}/{len}").unwrap().with_key("verif_who", Who(who.clone())));
    // installed for the whole program; replaced, never removed
    pb.enable_steady_tick(interval(3));
    let manual_id = Arc::new(std::sync::Mutex::new(None));
    let mut hs = vec![];
    {
        let (pb, manual_id, n) = (pb.clone(), manual_id.clone(), c.manual.clamp(1, 4));
        hs.push(shuttle::thread::spawn(move || {
            *manual_id.lock().unwrap() = Some(shuttle::thread::current().id());
            // (every other program goes through a handle obtained by downgrade() + upgrade())
            let pb = if n % 2 == 0 { pb.downgrade().upgrade().expect("a strong handle exists") } else { pb };
            for k in 0..n {
                match k % 3 {
                    0 => pb.tick(),
                    1 => pb.inc(1),
                    _ => pb.set_position(k as u64),
                }
            }
        }));
    }
    {
        let (pb, n) = (pb.clone(), c.replaces.clamp(1, 3));
        hs.push(shuttle::thread::spawn(move || {
            for r in 0..n {
                pb.enable_steady_tick(interval(2 + r % 2));
            }
        }));
    }
    if c.updater {
        let pb = pb.clone();
        hs.push(shuttle::thread::spawn(move || pb.update(|s| s.set_pos(s.pos() + 1))));
    }
    for h in hs {
        h.join().expect("worker thread panicked");
    }
    let id = manual_id.lock().unwrap().expect("manual thread ran");
    let n = who.lock().unwrap().iter().filter(|t| **t == id).count();
    // tear down first: a panic while the ticker is installed would run the destructors (which join
    // the ticker thread) during unwinding
    pb.disable_steady_tick();
    let live = verif_sync::live_threads();
    drop(pb);
    drop(mp);
    assert_eq!(n, 0, "LIFECYCLE: {n} manual tick()/inc()/set_position() call(s) advanced the spinner although a steady ticker was installed the whole time");
    assert_eq!(live, 0, "LIFECYCLE: a steady-tick thread is still alive after disable_steady_tick() returned");
}

fn run_manual(c: &ManualCase) -> CaseResult {
    let case = Arc::new(c.clone());
    let mut cfg = shuttle::Config::new();
    cfg.failure_persistence = shuttle::FailurePersistence::None;
    cfg.max_steps = shuttle::MaxSteps::FailAfter(200_000);
    let iters = c.schedules.max(1) as usize;
    let c2 = case.clone();
    let r = catch(move || match c2.pct_depth {
        Some(d) => shuttle::Runner::new(PctScheduler::new_from_seed(c2.seed, d.clamp(1, 5) as usize, iters), cfg).run({
            let c3 = c2.clone();
            move || body_manual(&c3)
        }),
        None => shuttle::Runner::new(RandomScheduler::new_from_seed(c2.seed, iters), cfg).run({
            let c3 = c2.clone();
            move || body_manual(&c3)
        }),
    });
    match r {
        Ok(_) => {
            let mut v = Verdict::default();
            v.nontrivial = true;
            v.label("manual_calls_race_with_ticker_replacement");
            v.label_if(c.updater, "with_update_thread");
            v.label_if(c.in_multi, "inside_multi_progress");
            v.label_if(c.pct_depth.is_some(), "pct_scheduler");
            Ok(v)
        }
        Err(msg) => {
            let kind = if msg.contains("deadlock") {
                "deadlock"
            } else if msg.contains("LIFECYCLE") {
                "ticker_lifecycle"
            } else {
                "panic"
            };
            Err(Fail::new(kind, format!("{c:?}: {msg}")))
        }
    }
}

// ------------------------------------------------------------------------------------------
// a ticker that finds its bar finished ends by itself

#[derive(Debug, Clone, Serialize, Deserialize)]
pub struct EndCase {
    /// 0 finish, 1 finish_and_clear, 2 abandon, 3 finish_using_style, 4 finish_with_message
    how: u8,
    in_multi: bool,
    /// calls of a second thread while the first one finishes the bar
    other: Vec<Call>,
    seed: u64,
    schedules: u32,
}

fn body_end(c: &EndCase) {
    verif_sync::reset(3);
    let spy = Spy::default();
    let mut mp = None;
    let pb = if c.in_multi {
        let m = MultiProgress::with_draw_target(ProgressDrawTarget::term_like(Box::new(spy.clone())));
        let pb = m.add(ProgressBar::with_draw_target(Some(10), ProgressDrawTarget::hidden()));
        mp = Some(m);
        pb
    } else {
        ProgressBar::with_draw_target(Some(10), ProgressDrawTarget::term_like(Box::new(spy.clone())))
    };
    pb.enable_steady_tick(interval(3));
    let h = {
        let (pb, mp, calls) = (pb.clone(), mp.clone(), c.other.clone());
        shuttle::thread::spawn(move || {
            for call in calls {
                exec(call, &pb, &mp, &None, &None);
            }
        })
    };
    match c.how % 5 {
        0 => pb.finish(),
        1 => pb.finish_and_clear(),
        2 => pb.abandon(),
        3 => pb.finish_using_style(),
        _ => pb.finish_with_message("done"),
    }
    h.join().expect("worker panicked");
    for _ in 0..12 {
        if verif_sync::live_threads() == 0 {
            break;
        }
        shuttle::thread::yield_now();
    }
    if verif_sync::live_threads() == 0 {
        STOPPED_AFTER_FINISH.with(|c| c.set(c.get() + 1));
    }
    EXECUTIONS.with(|c| c.set(c.get() + 1));
    drop(pb);
    drop(mp);
    assert_eq!(verif_sync::live_threads(), 0, "LIFECYCLE: a steady-tick thread survived the last handle");
}

fn run_end(c: &EndCase) -> CaseResult {
    let case = Arc::new(c.clone());
    let mut cfg = shuttle::Config::new();
    cfg.failure_persistence = shuttle::FailurePersistence::None;
    cfg.max_steps = shuttle::MaxSteps::FailAfter(200_000);
    let iters = c.schedules.max(50) as usize;
    STOPPED_AFTER_FINISH.with(|c| c.set(0));
    EXECUTIONS.with(|c| c.set(0));
    let c2 = case.clone();
    let r = catch(move || {
        shuttle::Runner::new(RandomScheduler::new_from_seed(c2.seed, iters), cfg).run({
            let c3 = c2.clone();
            move || body_end(&c3)
        })
    });
    match r {
        Ok(_) => {
            let (stopped, execs) = (STOPPED_AFTER_FINISH.with(|c| c.get()), EXECUTIONS.with(|c| c.get()));
            if std::env::var_os("VERIF_TRACE").is_some() {
                eprintln!("TRACE ends stopped {stopped} of {execs}");
            }
            // whether the ticker gets to look at the bar again while handles are alive (its wait timing out, or
            // its first round coming after the finish) is a scheduling choice: over all uniformly random
            // schedules of this program it happens in a large share of them on the unchanged tree - never is
            // not an accident
            if stopped == 0 {
                return Err(Fail::new(
                    "ticker_lifecycle",
                    format!("{c:?}: in none of {execs} random schedules did the steady-tick thread end while a handle of the finished bar was alive (it only ended when the last handle was dropped)"),
                ));
            }
            let mut v = Verdict::default();
            v.nontrivial = true;
            v.label("ticker_ended_by_itself_after_finish");
            v.label_if(c.in_multi, "inside_multi_progress");
            Ok(v)
        }
        Err(msg) => {
            let kind = if msg.contains("deadlock") { "deadlock" } else if msg.contains("LIFECYCLE") { "ticker_lifecycle" } else { "panic" };
            Err(Fail::new(kind, format!("{c:?}: {msg}")))
        }
    }
}

fn call_strategy() -> BoxedStrategy<Call> {
    prop_oneof![
        4 => Just(Call::Update),
        3 => (0u8..4).prop_map(Call::EnableTick),
        3 => Just(Call::DisableTick),
        3 => Just(Call::Tick),
        2 => Just(Call::Inc),
        2 => Just(Call::SetMessage),
        1 => Just(Call::SetLength),
        2 => Just(Call::Finish),
        1 => Just(Call::FinishAndClear),
        2 => Just(Call::Println),
        1 => Just(Call::Suspend),
        1 => Just(Call::Reset),
        2 => Just(Call::CloneDrop),
        1 => Just(Call::Position),
        1 => Just(Call::IsFinished),
        1 => Just(Call::MpPrintln),
        1 => Just(Call::MpSuspend),
        1 => Just(Call::MpRemove),
        1 => Just(Call::MpAddOther),
        1 => Just(Call::MpClear),
        1 => Just(Call::MpInsertAfter),
        1 => Just(Call::MpInsertBefore),
        1 => Just(Call::TickViaWeak),
        1 => (0u8..4).prop_map(Call::EnableTickViaWeak),
        1 => Just(Call::DisableTickViaWeak),
        2 => (0u8..3, any::<bool>()).prop_map(|(w, a)| Call::MpInsertMember(w, a)),
        1 => Just(Call::TickSecond),
        1 => Just(Call::DebugFmt),
        2 => any::<bool>().prop_map(Call::MoveAcross),
    ]
    .boxed()
}

fn sched_strategy(tier: Tier) -> BoxedStrategy<SchedCase> {
    let schedules = tier.pick(200u32, 3000);
    (
        any::<bool>(),
        any::<bool>(),
        proptest::collection::vec(proptest::collection::vec(call_strategy(), 1..6), 1..3),
        proptest::collection::vec(call_strategy(), 0..6),
        0u8..4,
        proptest::option::weighted(0.3, 1u8..4),
        any::<u64>(),
    )
        .prop_map(move |(ticker_on, in_multi, mut threads, mut main, timeout_budget, pct_depth, seed)| {
            // insert_before / insert_after take "an existing" member as the anchor: a program that also removes
            // the shared bar from the MultiProgress must not use it as an anchor
            let removes = |v: &Vec<Call>| v.iter().any(|c| *c == Call::MpRemove);
            if removes(&main) || threads.iter().any(removes) {
                for c in main.iter_mut().chain(threads.iter_mut().flatten()) {
                    if matches!(c, Call::MpInsertAfter | Call::MpInsertBefore | Call::MpInsertMember(..) | Call::MoveAcross(_)) {
                        *c = Call::MpAddOther;
                    }
                }
            }
            // remove / insert_before / insert_after name a member of *this* MultiProgress: a program that hands
            // the shared bar to the other MultiProgress must not use it that way
            let leaves = |v: &Vec<Call>| v.iter().any(|c| *c == Call::MoveAcross(true));
            if leaves(&main) || threads.iter().any(leaves) {
                for c in main.iter_mut().chain(threads.iter_mut().flatten()) {
                    if matches!(c, Call::MpInsertAfter | Call::MpInsertBefore | Call::MpInsertMember(..) | Call::MpRemove) {
                        *c = Call::MpAddOther;
                    }
                }
            }
            SchedCase {
            prog: Prog { ticker_on, in_multi, threads, main, timeout_budget, pct_depth },
            seed,
            schedules,
            }
        })
        .boxed()
}

pub fn property() -> Property {
    Property {
        id: "C08",
        level: "exploration",
        assumptions: &[
            "with the cargo feature verif-hooks indicatif's Mutex/RwLock/Condvar/thread::spawn/JoinHandle are shuttle's: every lock, wait, notify, spawn and join is a scheduling point, a deadlock is 'all live tasks blocked'",
            "shuttle has no clock: whether wait_timeout_while times out is a generated choice, at most `timeout_budget` times per execution; a stop that relies on the time-out therefore shows up as a deadlock",
            "user callbacks (update closure, suspend closure) do not re-enter the library",
            "randomised / PCT schedules never establish the absence of a deadlock",
        ],
        parts: vec![Box::new(Gen::<SchedCase> {
            name: "schedules",
            rule: "proptest generates the program (1-2 worker threads of 1-5 calls plus 0-5 calls on the main thread, on clones of one ProgressBar, optionally a member of a MultiProgress, ticker initially on or off, calls from update/enable_steady_tick(1 ms..10 days)/disable_steady_tick/tick/inc/set_message/set_length/finish/finish_and_clear/println/suspend/reset/clone+drop/getters/Debug formatting/mp.println/mp.suspend/mp.remove/mp.add/mp.clear/mp.insert_before and insert_after with a new bar or with bars that are members already, in both directions and with a bar as its own anchor, bars handed from one MultiProgress to another and back from different threads); shuttle generates 150 (thorough 3000) random or PCT(depth 1-3) schedules per program incl. bounded time-out choices; every execution ends with the lifecycle assertions (ticker thread count 0 after disable and after the last drop, <= 1 after replace, no frame after finish() returned); non-trivial = >= 2 threads touch the handle and a ticker op, update() or an installed ticker is involved; evaluations counts programs, each explored under that many schedules",
            strategy: sched_strategy,
            cases: |t| t.pick(150, 3000),
            run: run_sched,
            signature: no_signature,
            essential: &["shared_handle_with_ticker_or_update", "inside_multi_progress", "three_threads", "pct_scheduler", "timeouts_may_fire", "several_schedules"],
            workers: default_workers(),
            decode: None,
        }),
        Box::new(Gen::<ManualCase> {
            name: "manual_ticks",
            rule: "a steady ticker (10 days) is installed for the whole program; one thread issues 1-4 manual tick()/inc()/set_position() calls, another replaces the ticker 1-3 times with enable_steady_tick, optionally a third calls update(); 200 (thorough 3000) random or PCT schedules per program; a custom key records which thread delivered each tick notification: none may come from the manual thread; afterwards disable_steady_tick leaves no ticker thread",
            strategy: |t| {
                let schedules = t.pick(200u32, 3000);
                (any::<bool>(), 1u8..=4, 1u8..=3, any::<bool>(), 0u8..4, proptest::option::weighted(0.3, 1u8..4), any::<u64>())
                    .prop_map(move |(in_multi, manual, replaces, updater, timeout_budget, pct_depth, seed)| ManualCase { in_multi, manual, replaces, updater, timeout_budget, pct_depth, seed, schedules })
                    .boxed()
            },
            cases: |t| t.pick(40, 800),
            run: run_manual,
            signature: no_signature,
            essential: &["manual_calls_race_with_ticker_replacement", "with_update_thread", "inside_multi_progress", "pct_scheduler"],
            workers: default_workers(),
            decode: None,
        }),
        Box::new(Gen::<EndCase> {
            name: "ticker_ends",
            rule: "a bar with a steady ticker (interval 10 days) is finished in one of five ways while a second thread issues 0-3 calls that do not touch the ticker (tick/inc/set_message/println/getters); 200 (thorough 2000) uniformly random schedules per program, time-outs may fire three times: in at least one of them the steady-tick thread has ended while handles of the finished bar are still alive (it finds the bar finished when it next looks), and in all of them it is gone once the last handle is dropped",
            strategy: |t| {
                let schedules = t.pick(200u32, 2000);
                let call = prop_oneof![Just(Call::Tick), Just(Call::Inc), Just(Call::SetMessage), Just(Call::Println), Just(Call::Position), Just(Call::IsFinished)];
                (0u8..5, any::<bool>(), proptest::collection::vec(call, 0..4), any::<u64>())
                    .prop_map(move |(how, in_multi, other, seed)| EndCase { how, in_multi, other, seed, schedules })
                    .boxed()
            },
            cases: |t| t.pick(20, 300),
            run: run_end,
            signature: no_signature,
            essential: &["ticker_ended_by_itself_after_finish", "inside_multi_progress"],
            workers: default_workers(),
            decode: None,
        })],
    }
}
