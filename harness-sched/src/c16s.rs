//! C16 under generated schedules (shuttle): texts set by one thread and tab widths set by another take
//! effect in some order - whatever the interleaving, afterwards message()/prefix() are the last texts
//! expanded at the last width, and the frame drawn then shows the same.
use std::sync::Arc;

use indicatif::{ProgressBar, ProgressDrawTarget, ProgressStyle};
use proptest::prelude::*;
use serde::{Deserialize, Serialize};
use shuttle::scheduler::{PctScheduler, RandomScheduler};

use crate::runner::*;
use crate::vterm::VTerm;

#[derive(Debug, Clone, Serialize, Deserialize)]
pub struct TabRace {
    /// texts set by the writer thread, alternately as message and prefix
    texts: Vec<String>,
    /// widths set by the other thread
    widths: Vec<u8>,
    /// a third thread ticks
    ticker: bool,
    seed: u64,
    schedules: u32,
    pct_depth: Option<u8>,
}

fn expand(s: &str, w: usize) -> String {
    s.replace('\t', &" ".repeat(w))
}

fn body(c: &TabRace) {
    let vt = VTerm::raw(50, 400);
    let pb = ProgressBar::with_draw_target(Some(10), ProgressDrawTarget::term_like_with_hz(vt.boxed(), 255));
    pb.set_style(ProgressStyle::with_template("[{prefix}|{msg}]").unwrap());
    let mut hs = vec![];
    {
        let (pb, texts) = (pb.clone(), c.texts.clone());
        hs.push(shuttle::thread::spawn(move || {
            for (i, t) in texts.iter().enumerate() {
                if i % 2 == 0 {
                    pb.set_message(t.clone());
                } else {
                    pb.set_prefix(t.clone());
                }
            }
        }));
    }
    {
        let (pb, widths) = (pb.clone(), c.widths.clone());
        hs.push(shuttle::thread::spawn(move || {
            for w in widths {
                pb.set_tab_width(w as usize % 17);
            }
        }));
    }
    if c.ticker {
        let pb = pb.clone();
        hs.push(shuttle::thread::spawn(move || {
            pb.tick();
            pb.inc(1);
        }));
    }
    for h in hs {
        h.join().expect("worker panicked");
    }
    let w = c.widths.last().map_or(8, |w| *w as usize % 17);
    let msg = c.texts.iter().enumerate().filter(|(i, _)| i % 2 == 0).last().map_or(String::new(), |(_, t)| t.clone());
    let prefix = c.texts.iter().enumerate().filter(|(i, _)| i % 2 == 1).last().map_or(String::new(), |(_, t)| t.clone());
    assert_eq!(pb.message(), expand(&msg, w), "TABS: message() after both threads finished (last width {w})");
    assert_eq!(pb.prefix(), expand(&prefix, w), "TABS: prefix() after both threads finished (last width {w})");
    pb.force_draw();
    assert!(!vt.lock().tab_seen, "TABS: a TAB character reached the terminal");
    let lines = vt.last_frame_lines().expect("frame");
    assert_eq!(lines, vec![format!("[{}|{}]", expand(&prefix, w), expand(&msg, w))], "TABS: frame drawn after both threads finished (last width {w})");
}

fn run_race(c: &TabRace) -> CaseResult {
    let case = Arc::new(c.clone());
    let mut cfg = shuttle::Config::new();
    cfg.failure_persistence = shuttle::FailurePersistence::None;
    cfg.max_steps = shuttle::MaxSteps::FailAfter(500_000);
    let iters = c.schedules.max(1) as usize;
    let c2 = case.clone();
    let r = catch(move || match c2.pct_depth {
        Some(d) => shuttle::Runner::new(PctScheduler::new_from_seed(c2.seed, d.clamp(1, 5) as usize, iters), cfg).run({
            let c3 = c2.clone();
            move || body(&c3)
        }),
        None => shuttle::Runner::new(RandomScheduler::new_from_seed(c2.seed, iters), cfg).run({
            let c3 = c2.clone();
            move || body(&c3)
        }),
    });
    match r {
        Ok(_) => {
            let mut v = Verdict::default();
            v.nontrivial = c.texts.iter().any(|t| t.contains('\t')) && !c.widths.is_empty();
            v.label("schedules_explored");
            v.label_if(v.nontrivial, "tab_text_and_width_change_race");
            v.label_if(c.pct_depth.is_some(), "pct_scheduler");
            Ok(v)
        }
        Err(msg) => {
            let kind = if msg.contains("deadlock") {
                "deadlock"
            } else if msg.contains("TABS:") {
                "tabs_under_concurrency"
            } else {
                "panic"
            };
            Err(Fail::new(kind, format!("{c:?}: {msg}")))
        }
    }
}

pub fn property() -> Property {
    Property {
        id: "C16",
        level: "exploration",
        assumptions: &["hooks on: every lock operation is a scheduling point of shuttle; concurrent calls are read as taking effect in some order ('in any order')"],
        parts: vec![Box::new(Gen::<TabRace> {
            name: "sched_tabs",
            rule: "one thread sets 1-4 texts with 0-3 tabs alternately as message and prefix, another sets 1-3 tab widths (0..=16), optionally a third ticks, under 150 (thorough 2000) random or PCT schedules per program; after the join message()/prefix() must be the last texts expanded at the last width, the frame drawn then must show the same and no TAB may have reached the terminal; non-trivial = a text with a tab and a width change",
            strategy: |t| {
                let schedules = t.pick(150u32, 2000);
                let text = proptest::collection::vec(prop_oneof![2 => "[a-z]{0,3}", 2 => Just("\t".to_string())], 0..5).prop_map(|v| v.concat());
                (proptest::collection::vec(text, 1..5), proptest::collection::vec(0u8..17, 1..4), any::<bool>(), any::<u64>(), proptest::option::weighted(0.3, 1u8..4))
                    .prop_map(move |(texts, widths, ticker, seed, pct_depth)| TabRace { texts, widths, ticker, seed, schedules, pct_depth })
                    .boxed()
            },
            cases: |t| t.pick(40, 600),
            run: run_race,
            signature: no_signature,
            essential: &["schedules_explored", "tab_text_and_width_change_race", "pct_scheduler"],
            workers: default_workers(),
            decode: None,
        })],
    }
}
