//! C16 under generated schedules (shuttle): texts set by one thread and tab widths set by another take
//! effect in some order - whatever the interleaving, afterwards message()/prefix() are the last texts
//! expanded at the last width, and the frame drawn then shows the same.
use std::sync::Arc;

use indicatif::{ProgressBar, ProgressDrawTarget, ProgressStyle};
use proptest::prelude::*;
use serde::{Deserialize, Serialize};
use shuttle::scheduler::{PctScheduler, RandomScheduler};

use crate::runner::*;
use crate::vterm::VTerm;

#[derive(Debug, Clone, Serialize, Deserialize)]
pub struct TabRace {
    /// texts set by the writer thread, alternately as message and prefix
    texts: Vec<String>,
    /// widths set by the other thread
    widths: Vec<u8>,
    /// a third thread ticks
    ticker: bool,
    seed: u64,
    schedules: u32,
    pct_depth: Option<u8>,
    /// the template carries a literal TAB and a further thread installs a fresh style (same template, created
    /// at the default width) while the others run: every frame is one snapshot - literal, prefix and message
    /// expanded at one and the same width
    #[serde(default)]
    restyle: bool,
}

fn expand(s: &str, w: usize) -> String {
    s.replace('\t', &" ".repeat(w))
}

fn body(c: &TabRace) {
    let vt = if c.restyle { VTerm::new(4, 1000).with_snapshots() } else { VTerm::raw(50, 400) };
    let pb = ProgressBar::with_draw_target(Some(10), ProgressDrawTarget::term_like_with_hz(vt.boxed(), 255));
    let template = if c.restyle { "L\tR[{prefix}|{msg}]" } else { "[{prefix}|{msg}]" };
    pb.set_style(ProgressStyle::with_template(template).unwrap());
    let mut hs = vec![];
    if c.restyle {
        let pb = pb.clone();
        hs.push(shuttle::thread::spawn(move || {
            pb.set_style(ProgressStyle::with_template(template).unwrap());
            pb.tick();
            pb.set_style(ProgressStyle::with_template(template).unwrap());
        }));
    }
    {
        let (pb, texts) = (pb.clone(), c.texts.clone());
        hs.push(shuttle::thread::spawn(move || {
            for (i, t) in texts.iter().enumerate() {
                if i % 2 == 0 {
                    pb.set_message(t.clone());
                } else {
                    pb.set_prefix(t.clone());
                }
            }
        }));
    }
    {
        let (pb, widths) = (pb.clone(), c.widths.clone());
        hs.push(shuttle::thread::spawn(move || {
            for w in widths {
                pb.set_tab_width(w as usize % 17);
            }
        }));
    }
    if c.ticker || c.restyle {
        let pb = pb.clone();
        hs.push(shuttle::thread::spawn(move || {
            pb.tick();
            pb.inc(1);
            pb.tick();
        }));
    }
    for h in hs {
        h.join().expect("worker panicked");
    }
    let w = c.widths.last().map_or(8, |w| *w as usize % 17);
    let msg = c.texts.iter().enumerate().filter(|(i, _)| i % 2 == 0).last().map_or(String::new(), |(_, t)| t.clone());
    let prefix = c.texts.iter().enumerate().filter(|(i, _)| i % 2 == 1).last().map_or(String::new(), |(_, t)| t.clone());
    assert_eq!(pb.message(), expand(&msg, w), "TABS: message() after both threads finished (last width {w})");
    assert_eq!(pb.prefix(), expand(&prefix, w), "TABS: prefix() after both threads finished (last width {w})");
    pb.force_draw();
    assert!(!vt.lock().tab_seen, "TABS: a TAB character reached the terminal");
    if c.restyle {
        let frames = vt.take_frames();
        let texts_of = |rem: usize| -> Vec<String> { std::iter::once(String::new()).chain(c.texts.iter().enumerate().filter(|(i, _)| i % 2 == rem).map(|(_, t)| t.clone())).collect() };
        let (msgs, prefixes) = (texts_of(0), texts_of(1));
        for (k, fr) in frames.iter().enumerate() {
            let Some(line) = fr.rows.first() else { continue };
            let consistent = (0..17usize).any(|tw| msgs.iter().any(|m| prefixes.iter().any(|p| format!("L{}R[{}|{}]", " ".repeat(tw), expand(p, tw), expand(m, tw)).trim_end() == line.trim_end())));
            assert!(consistent, "TABS: frame {k} {line:?} is not the template, a prefix and a message of this program expanded at one tab width (texts {:?})", c.texts);
        }
        let last = frames.last().and_then(|f| f.rows.first().cloned()).unwrap_or_default();
        assert_eq!(last.trim_end(), format!("L{}R[{}|{}]", " ".repeat(w), expand(&prefix, w), expand(&msg, w)).trim_end(), "TABS: frame drawn after all threads finished (last width {w})");
        return;
    }
    let lines = vt.last_frame_lines().expect("frame");
    assert_eq!(lines, vec![format!("[{}|{}]", expand(&prefix, w), expand(&msg, w))], "TABS: frame drawn after both threads finished (last width {w})");
}

fn run_race(c: &TabRace) -> CaseResult {
    let case = Arc::new(c.clone());
    let mut cfg = shuttle::Config::new();
    cfg.failure_persistence = shuttle::FailurePersistence::None;
    cfg.max_steps = shuttle::MaxSteps::FailAfter(500_000);
    let iters = c.schedules.max(1) as usize;
    let c2 = case.clone();
    let r = catch(move || match c2.pct_depth {
        Some(d) => shuttle::Runner::new(PctScheduler::new_from_seed(c2.seed, d.clamp(1, 5) as usize, iters), cfg).run({
            let c3 = c2.clone();
            move || body(&c3)
        }),
        None => shuttle::Runner::new(RandomScheduler::new_from_seed(c2.seed, iters), cfg).run({
            let c3 = c2.clone();
            move || body(&c3)
        }),
    });
    match r {
        Ok(_) => {
            let mut v = Verdict::default();
            v.nontrivial = c.texts.iter().any(|t| t.contains('\t')) && !c.widths.is_empty();
            v.label("schedules_explored");
            v.label_if(v.nontrivial, "tab_text_and_width_change_race");
            v.label_if(c.pct_depth.is_some(), "pct_scheduler");
            v.label_if(c.restyle, "style_replaced_while_frames_are_drawn");
            Ok(v)
        }
        Err(msg) => {
            let kind = if msg.contains("deadlock") {
                "deadlock"
            } else if msg.contains("TABS:") {
                "tabs_under_concurrency"
            } else {
                "panic"
            };
            Err(Fail::new(kind, format!("{c:?}: {msg}")))
        }
    }
}

pub fn property() -> Property {
    Property {
        id: "C16",
        level: "exploration",
        assumptions: &["hooks on: every lock operation is a scheduling point of shuttle; concurrent calls are read as taking effect in some order ('in any order')"],
        parts: vec![Box::new(Gen::<TabRace> {
            name: "sched_tabs",
            rule: "one thread sets 1-4 texts with 0-3 tabs alternately as message and prefix, another sets 1-3 tab widths (0..=16), optionally a third ticks, in 40% of the programs the template carries a literal TAB and a further thread installs fresh styles while frames are drawn (every painted frame must then be template, a prefix and a message expanded at one single width), under 150 (thorough 2000) random or PCT schedules per program; after the join message()/prefix() must be the last texts expanded at the last width, the frame drawn then must show the same and no TAB may have reached the terminal; non-trivial = a text with a tab and a width change",
            strategy: |t| {
                let schedules = t.pick(150u32, 2000);
                let text = proptest::collection::vec(prop_oneof![2 => "[a-z]{0,3}", 2 => Just("\t".to_string())], 0..5).prop_map(|v| v.concat());
                (proptest::collection::vec(text, 1..5), proptest::collection::vec(0u8..17, 1..4), any::<bool>(), any::<u64>(), proptest::option::weighted(0.3, 1u8..4), proptest::bool::weighted(0.4))
                    .prop_map(move |(texts, widths, ticker, seed, pct_depth, restyle)| TabRace { texts, widths, ticker, seed, schedules, pct_depth, restyle })
                    .boxed()
            },
            cases: |t| t.pick(40, 600),
            run: run_race,
            signature: no_signature,
            essential: &["schedules_explored", "tab_text_and_width_change_race", "pct_scheduler", "style_replaced_while_frames_are_drawn"],
            workers: default_workers(),
            decode: None,
        })],
    }
}
