//! C02 concurrency clause under generated schedules (shuttle): every painted frame shows, for each
//! bar, a state that bar really had, never older than before; the last frame shows the final states.
use std::io;
use std::sync::{Arc, Mutex};

use indicatif::{MultiProgress, ProgressBar, ProgressDrawTarget, ProgressStyle, TermLike};
use proptest::prelude::*;
use serde::{Deserialize, Serialize};
use shuttle::scheduler::{PctScheduler, RandomScheduler};

use crate::runner::*;

/// Records the lines of every flushed frame (std Mutex: never held across a scheduling point).
#[derive(Debug, Clone, Default)]
struct FrameSpy {
    cur: Arc<Mutex<Vec<String>>>,
    frames: Arc<Mutex<Vec<Vec<String>>>>,
}

impl TermLike for FrameSpy {
    fn width(&self) -> u16 {
        60
    }
    fn height(&self) -> u16 {
        40
    }
    fn move_cursor_up(&self, _: usize) -> io::Result<()> {
        Ok(())
    }
    fn move_cursor_down(&self, _: usize) -> io::Result<()> {
        Ok(())
    }
    fn move_cursor_right(&self, _: usize) -> io::Result<()> {
        Ok(())
    }
    fn move_cursor_left(&self, _: usize) -> io::Result<()> {
        Ok(())
    }
    fn write_line(&self, _: &str) -> io::Result<()> {
        Ok(())
    }
    fn write_str(&self, s: &str) -> io::Result<()> {
        if s.starts_with('T') {
            self.cur.lock().unwrap().push(s.to_string());
        }
        Ok(())
    }
    fn clear_line(&self) -> io::Result<()> {
        Ok(())
    }
    fn flush(&self) -> io::Result<()> {
        let f = std::mem::take(&mut *self.cur.lock().unwrap());
        self.frames.lock().unwrap().push(f);
        Ok(())
    }
}

#[derive(Debug, Clone, Serialize, Deserialize)]
pub struct FramesCase {
    threads: u8,
    updates: u8,
    seed: u64,
    schedules: u32,
    pct_depth: Option<u8>,
    /// one thread also prints log lines through the MultiProgress
    logger: bool,
    /// one thread removes the last bar from the MultiProgress while its owner keeps updating it
    #[serde(default)]
    remover: bool,
    /// ... by giving the bar another draw target (set_draw_target(hidden)) instead of calling remove()
    #[serde(default)]
    unlink: bool,
}

fn body(c: &FramesCase) {
    let n = c.threads.clamp(2, 3) as usize;
    let spy = FrameSpy::default();
    let mp = MultiProgress::with_draw_target(ProgressDrawTarget::term_like(Box::new(spy.clone())));
    let bars: Vec<ProgressBar> = (0..n)
        .map(|t| {
            let pb = mp.add(ProgressBar::with_draw_target(Some(1000), ProgressDrawTarget::hidden()));
            pb.set_style(ProgressStyle::with_template(&format!("T{t}:{{pos}}:{{msg}}")).unwrap());
            pb.set_message("0");
            pb
        })
        .collect();
    let updates = c.updates.clamp(1, 6) as u64;
    let mut hs = vec![];
    for pb in &bars {
        let pb = pb.clone();
        hs.push(shuttle::thread::spawn(move || {
            for k in 1..=updates {
                pb.update(|s| s.set_pos(k)); // ticks and draws (no rate limit on this path)
                pb.set_message(k.to_string());
            }
        }));
    }
    // while a suspend closure runs the region stays hidden: no frame may be flushed in that window
    let painted_in_suspend = Arc::new(std::sync::atomic::AtomicUsize::new(0));
    if c.logger {
        let (mp2, spy2, flag) = (mp.clone(), spy.clone(), painted_in_suspend.clone());
        hs.push(shuttle::thread::spawn(move || {
            let _ = mp2.println("log");
            mp2.suspend(|| {
                let n = spy2.frames.lock().unwrap().len();
                shuttle::thread::yield_now();
                shuttle::thread::yield_now();
                let m = spy2.frames.lock().unwrap().len();
                flag.fetch_add(m - n, std::sync::atomic::Ordering::SeqCst);
            });
        }));
    }
    if c.remover {
        let (mp2, victim, unlink) = (mp.clone(), bars[n - 1].clone(), c.unlink);
        hs.push(shuttle::thread::spawn(move || {
            shuttle::thread::yield_now();
            if unlink {
                victim.set_draw_target(ProgressDrawTarget::hidden());
            } else {
                mp2.remove(&victim);
            }
        }));
    }
    for h in hs {
        h.join().expect("worker panicked");
    }
    let in_suspend = painted_in_suspend.load(std::sync::atomic::Ordering::SeqCst);
    assert!(in_suspend == 0, "FRAMES: {in_suspend} frame(s) were painted by other threads while a suspend closure was running");
    for pb in &bars {
        pb.force_draw();
    }
    let frames = spy.frames.lock().unwrap().clone();
    let mut last: Vec<Option<(u64, u64)>> = vec![None; n];
    for (k, fr) in frames.iter().enumerate() {
        let mut seen = vec![false; n];
        let mut prev_tag = None;
        for line in fr {
            let parts: Vec<&str> = line.trim_end().split(':').collect();
            assert!(parts.len() == 3, "FRAMES: unparsable line {line:?} in frame {k}");
            let t: usize = parts[0][1..].parse().expect("tag");
            let (p, m): (u64, u64) = (parts[1].parse().expect("pos"), parts[2].parse().expect("msg"));
            assert!(!seen[t], "FRAMES: bar T{t} appears twice in frame {k}: {fr:?}");
            seen[t] = true;
            assert!(prev_tag.map_or(true, |pt| pt < t), "FRAMES: bars out of order in frame {k}: {fr:?}");
            prev_tag = Some(t);
            assert!(p <= updates && (p == m || p == m + 1), "FRAMES: frame {k} shows bar T{t} with pos {p} msg {m}: never a state of that bar");
            if let Some((lp, lm)) = last[t] {
                assert!((p, m) >= (lp, lm), "FRAMES: frame {k} shows bar T{t} at ({p},{m}) after an earlier frame showed ({lp},{lm})");
            }
            last[t] = Some((p, m));
        }
        for t in 0..n {
            let removed = c.remover && t == n - 1;
            assert!(removed || last[t].is_none() || seen[t] || fr.is_empty(), "FRAMES: bar T{t} was shown before and is missing in frame {k}: {fr:?}");
        }
    }
    for t in 0..n {
        if c.remover && t == n - 1 {
            // removed: gone from the last frame (its position still follows the calls)
            assert!(frames.last().map_or(true, |f| !f.iter().any(|l| l.starts_with(&format!("T{t}:")))), "FRAMES: the removed bar T{t} is still painted in the last frame");
            assert_eq!(bars[t].position(), updates, "FRAMES: position of the removed bar");
            continue;
        }
        assert_eq!(last[t], Some((updates, updates)), "FRAMES: the last frame does not show the final state of bar T{t}");
    }
}

fn run_frames(c: &FramesCase) -> CaseResult {
    let case = Arc::new(c.clone());
    let mut cfg = shuttle::Config::new();
    cfg.failure_persistence = shuttle::FailurePersistence::None;
    cfg.max_steps = shuttle::MaxSteps::FailAfter(500_000);
    let iters = c.schedules.max(1) as usize;
    let c2 = case.clone();
    let r = catch(move || match c2.pct_depth {
        Some(d) => shuttle::Runner::new(PctScheduler::new_from_seed(c2.seed, d.clamp(1, 5) as usize, iters), cfg).run({
            let c3 = c2.clone();
            move || body(&c3)
        }),
        None => shuttle::Runner::new(RandomScheduler::new_from_seed(c2.seed, iters), cfg).run({
            let c3 = c2.clone();
            move || body(&c3)
        }),
    });
    match r {
        Ok(_) => {
            let mut v = Verdict::default();
            v.nontrivial = true;
            v.label("schedules_explored");
            v.label_if(c.logger, "with_println_and_suspend");
            v.label_if(c.remover, "bar_removed_while_updated");
            v.label_if(c.pct_depth.is_some(), "pct_scheduler");
            Ok(v)
        }
        Err(msg) => {
            let kind = if msg.contains("deadlock") {
                "deadlock"
            } else if msg.contains("FRAMES") {
                "frame_state"
            } else {
                "panic"
            };
            Err(Fail::new(kind, format!("{c:?}: {msg}")))
        }
    }
}

// ------------------------------------------------------------------------------------------
// positional insertion racing with a removal

#[derive(Debug, Clone, Serialize, Deserialize)]
pub struct PlaceCase {
    bars: u8,
    /// 0 insert_from_back(k), 1 insert(k)
    how: u8,
    k: u8,
    /// index of the bar another thread removes meanwhile
    victim: u8,
    seed: u64,
    schedules: u32,
    pct_depth: Option<u8>,
}

/// Whichever of the two calls takes effect first, the resulting order is one of the two serial orders.
fn body_place(c: &PlaceCase) {
    let n = c.bars.clamp(2, 4) as usize;
    let spy = FrameSpy::default();
    let mp = MultiProgress::with_draw_target(ProgressDrawTarget::term_like(Box::new(spy.clone())));
    let mk = |t: usize| {
        let pb = ProgressBar::with_draw_target(Some(1000), ProgressDrawTarget::hidden());
        pb.set_style(ProgressStyle::with_template(&format!("T{t}:{{pos}}:{{msg}}")).unwrap());
        pb.set_message("0");
        pb
    };
    let bars: Vec<ProgressBar> = (0..n).map(|t| mp.add(mk(t))).collect();
    for b in &bars {
        b.tick();
    }
    let victim = c.victim as usize % n;
    let k = c.k as usize % (n + 1);
    // the two serial orders
    let insert_into = |mut order: Vec<usize>| {
        let len = order.len();
        let at = if c.how % 2 == 0 { len.saturating_sub(k) } else { k.min(len) };
        order.insert(at, 9);
        order
    };
    let all: Vec<usize> = (0..n).collect();
    let removed_first = insert_into(all.iter().copied().filter(|t| *t != victim).collect());
    let inserted_first: Vec<usize> = insert_into(all.clone()).into_iter().filter(|t| *t != victim).collect();
    let (mp2, v) = (mp.clone(), bars[victim].clone());
    let h1 = shuttle::thread::spawn(move || mp2.remove(&v));
    let (mp3, how) = (mp.clone(), c.how);
    let newbar = mk(9);
    let h2 = shuttle::thread::spawn(move || {
        let pb = if how % 2 == 0 { mp3.insert_from_back(k, newbar) } else { mp3.insert(k, newbar) };
        pb.tick();
        pb
    });
    h1.join().expect("remover panicked");
    let nb = h2.join().expect("inserter panicked");
    nb.force_draw();
    let frames = spy.frames.lock().unwrap().clone();
    let last: Vec<usize> = frames.last().cloned().unwrap_or_default().iter().map(|l| l[1..].split(':').next().unwrap().parse().expect("tag")).collect();
    assert!(
        last == removed_first || last == inserted_first,
        "FRAMES: {} of a new bar (T9) among T0..T{} raced with remove(T{victim}): the last frame shows the order {last:?}; removal first gives {removed_first:?}, insertion first gives {inserted_first:?}",
        if c.how % 2 == 0 { format!("insert_from_back({k})") } else { format!("insert({k})") },
        n - 1
    );
}

fn run_place(c: &PlaceCase) -> CaseResult {
    let case = Arc::new(c.clone());
    let mut cfg = shuttle::Config::new();
    cfg.failure_persistence = shuttle::FailurePersistence::None;
    cfg.max_steps = shuttle::MaxSteps::FailAfter(500_000);
    let iters = c.schedules.max(1) as usize;
    let c2 = case.clone();
    let r = catch(move || match c2.pct_depth {
        Some(d) => shuttle::Runner::new(PctScheduler::new_from_seed(c2.seed, d.clamp(1, 5) as usize, iters), cfg).run({
            let c3 = c2.clone();
            move || body_place(&c3)
        }),
        None => shuttle::Runner::new(RandomScheduler::new_from_seed(c2.seed, iters), cfg).run({
            let c3 = c2.clone();
            move || body_place(&c3)
        }),
    });
    match r {
        Ok(_) => {
            let mut v = Verdict::default();
            v.nontrivial = true;
            v.label("placement_schedules_explored");
            v.label_if(c.how % 2 == 0, "insert_from_back_races_with_remove");
            v.label_if(c.how % 2 == 1, "insert_at_index_races_with_remove");
            Ok(v)
        }
        Err(msg) => {
            let kind = if msg.contains("deadlock") {
                "deadlock"
            } else if msg.contains("FRAMES") {
                "order_of_no_serial_execution"
            } else {
                "panic"
            };
            Err(Fail::new(kind, format!("{c:?}: {msg}")))
        }
    }
}

pub fn property() -> Property {
    Property {
        id: "C02",
        level: "exploration",
        assumptions: &["hooks on: every lock/condvar/spawn/join is a scheduling point of shuttle; schedules are random or PCT, seeded"],
        parts: vec![Box::new(Gen::<FramesCase> {
            name: "sched_frames",
            rule: "2-3 shuttle threads each own one bar of a shared MultiProgress and issue update(set_pos(k)); set_message(k) for k = 1..=updates (1-6), optionally a fourth thread calling mp.println and mp.suspend, optionally one that takes the last bar out of the MultiProgress (remove() or set_draw_target(hidden)) while its owner keeps updating it - it must be gone from the last frame; 150 (thorough 2000) random or PCT schedules per program; every recorded frame must show each bar at most once, in order, in a state it really had, never older than in an earlier frame, and the last frame the final states",
            strategy: |t| {
                let schedules = t.pick(150u32, 2000);
                (2u8..=3, 1u8..=6, any::<u64>(), proptest::option::weighted(0.3, 1u8..4), any::<bool>(), proptest::bool::weighted(0.3))
                    .prop_map(move |(threads, updates, seed, pct_depth, logger, remover)| FramesCase { threads, updates, seed, schedules, pct_depth, logger, remover, unlink: remover && seed % 2 == 0 })
                    .boxed()
            },
            cases: |t| t.pick(40, 600),
            run: run_frames,
            signature: no_signature,
            essential: &["schedules_explored", "with_println_and_suspend", "pct_scheduler", "bar_removed_while_updated"],
            workers: default_workers(),
            decode: None,
        }),
        Box::new(Gen::<PlaceCase> {
            name: "sched_placement",
            rule: "2-4 drawn bars; one thread removes one of them while another inserts a new bar with insert_from_back(k) or insert(k), under 100 (thorough 1500) random or PCT schedules: the order in the last frame is the order of one of the two serial executions",
            strategy: |t| {
                let schedules = t.pick(100u32, 1500);
                (2u8..=4, 0u8..2, 0u8..5, 0u8..4, any::<u64>(), proptest::option::weighted(0.3, 1u8..4))
                    .prop_map(move |(bars, how, k, victim, seed, pct_depth)| PlaceCase { bars, how, k, victim, seed, schedules, pct_depth })
                    .boxed()
            },
            cases: |t| t.pick(30, 400),
            run: run_place,
            signature: no_signature,
            essential: &["placement_schedules_explored", "insert_from_back_races_with_remove", "insert_at_index_races_with_remove"],
            workers: default_workers(),
            decode: None,
        })],
    }
}
