//! C03 under generated schedules (shuttle): lines a suspend closure writes, and println lines, stay on
//! the terminal exactly once and in emission order while other threads keep drawing.
//!
//! The closure passed to `suspend` yields between its lines; with the lock the documentation promises
//! ("the internal lock is held while `f` is executed") no other thread can paint in that window, without
//! it a draw lands between or over the closure's lines and the next draw erases one of them.
use std::sync::Arc;
use std::time::Duration;

use indicatif::{MultiProgress, ProgressBar, ProgressDrawTarget, ProgressStyle};
use proptest::prelude::*;
use serde::{Deserialize, Serialize};
use shuttle::scheduler::{PctScheduler, RandomScheduler};

use crate::clock;
use crate::runner::*;
use crate::vterm::{wrap_rows, VTerm};

#[derive(Debug, Clone, Serialize, Deserialize)]
pub struct LogCase {
    /// bars in a MultiProgress (false: one stand-alone bar shared by all threads)
    multi: bool,
    /// threads that tick / inc / set_message
    drawers: u8,
    updates: u8,
    /// lines the suspend closure writes (a scheduling point between any two)
    closure_lines: u8,
    /// a further thread calls println
    printer: bool,
    /// refresh rate of the target (virtual clock, advanced by every thread before each call)
    hz: u8,
    cols: u8,
    seed: u64,
    schedules: u32,
    pct_depth: Option<u8>,
}

fn body(c: &LogCase) {
    let cols = c.cols.clamp(8, 40) as usize;
    let vt = VTerm::new(60, cols);
    let target = || ProgressDrawTarget::term_like_with_hz(vt.boxed(), c.hz.max(1));
    let drawers = c.drawers.clamp(1, 2) as usize;
    let (mp, bars): (Option<MultiProgress>, Vec<ProgressBar>) = if c.multi {
        let mp = MultiProgress::with_draw_target(target());
        let bars = (0..drawers)
            .map(|t| {
                let pb = mp.add(ProgressBar::new(100));
                pb.set_style(ProgressStyle::with_template(&format!("B{t}:{{pos}} {{msg}}")).unwrap());
                pb
            })
            .collect();
        (Some(mp), bars)
    } else {
        let pb = ProgressBar::with_draw_target(Some(100), target());
        pb.set_style(ProgressStyle::with_template("B0:{pos} {msg}").unwrap());
        (None, vec![pb.clone(); drawers])
    };
    for pb in &bars {
        pb.tick();
    }
    let updates = c.updates.clamp(1, 4) as u64;
    let mut hs = vec![];
    for (t, pb) in bars.iter().enumerate() {
        let pb = pb.clone();
        hs.push(shuttle::thread::spawn(move || {
            for k in 1..=updates {
                clock::advance(Duration::from_millis(7));
                match (k + t as u64) % 3 {
                    0 => pb.inc(1),
                    1 => pb.set_message("m".repeat(k as usize)),
                    _ => pb.tick(),
                }
            }
        }));
    }
    // suspender: tokens ~1~ .. ~n~
    let n_closure = c.closure_lines.clamp(2, 3) as usize;
    {
        let (mp2, pb2, vt2) = (mp.clone(), bars[0].clone(), vt.clone());
        hs.push(shuttle::thread::spawn(move || {
            clock::advance(Duration::from_millis(3));
            let f = move || {
                for k in 1..=n_closure {
                    vt2.user_print_line(&format!("~{k}~"));
                    shuttle::thread::yield_now();
                }
            };
            match &mp2 {
                Some(mp) => mp.suspend(f),
                None => pb2.suspend(f),
            }
        }));
    }
    if c.printer {
        let (mp2, pb2) = (mp.clone(), bars[0].clone());
        hs.push(shuttle::thread::spawn(move || {
            clock::advance(Duration::from_millis(5));
            match &mp2 {
                Some(mp) => mp.println("~p1~").unwrap(),
                None => pb2.println("~p1~"),
            }
            shuttle::thread::yield_now();
            clock::advance(Duration::from_millis(5));
            pb2.println("~p2~");
        }));
    }
    for h in hs {
        h.join().expect("worker panicked");
    }
    clock::advance(Duration::from_secs(1));
    for pb in &bars {
        pb.tick();
    }
    // token oracle on the final screen and, through the frames recorded at every flush, on every
    // painted state: closure lines in order, println lines in order, each exactly once
    let check = |rows: &[String], what: &str, need_all: bool| {
        let pos = |tok: &str| -> Vec<usize> { rows.iter().enumerate().filter(|(_, r)| r.contains(tok)).map(|(i, _)| i).collect() };
        let mut prev = None;
        for k in 1..=n_closure {
            let p = pos(&format!("~{k}~"));
            assert!(p.len() <= 1, "LOG: closure line ~{k}~ is on the terminal {} times ({what}): {rows:?}", p.len());
            if need_all {
                assert!(p.len() == 1, "LOG: closure line ~{k}~ is not on the terminal ({what}): {rows:?}");
            }
            if let (Some(a), Some(b)) = (prev, p.first()) {
                assert!(a < *b, "LOG: closure lines out of order ({what}): {rows:?}");
            }
            if let Some(b) = p.first() {
                assert_eq!(rows[*b], format!("~{k}~"), "LOG: closure line ~{k}~ shares its row ({what}): {rows:?}");
                prev = Some(*b);
            } else if prev.is_some() && !need_all {
                // a later line cannot be there when an earlier one is missing - checked at the end
            }
        }
        if c.printer {
            let (p1, p2) = (pos("~p1~"), pos("~p2~"));
            assert!(p1.len() <= 1 && p2.len() <= 1, "LOG: a println line is on the terminal twice ({what}): {rows:?}");
            if need_all {
                assert!(p1.len() == 1 && p2.len() == 1, "LOG: a println line is missing ({what}): {rows:?}");
            }
            if let (Some(a), Some(b)) = (p1.first(), p2.first()) {
                assert!(a < b, "LOG: println lines out of order ({what}): {rows:?}");
            }
        }
        // the bars sit below every log line
        if let Some(last_log) = rows.iter().rposition(|r| r.contains('~')) {
            if let Some(first_bar) = rows.iter().position(|r| r.starts_with('B')) {
                assert!(first_bar > last_log || !need_all, "LOG: a bar row is above a log line ({what}): {rows:?}");
            }
        }
    };
    // once a line was seen on a frame it must be on every later frame
    let frames = vt.take_frames();
    let mut seen: Vec<String> = vec![];
    for (i, fr) in frames.iter().enumerate() {
        check(&fr.rows, &format!("frame {i} of {}", frames.len()), false);
        for s in &seen {
            assert!(fr.rows.iter().any(|r| r == s), "LOG: line {s:?} was on the terminal and is gone in frame {i}: {:?}", fr.rows);
        }
        for r in &fr.rows {
            if r.contains('~') && !seen.contains(r) {
                seen.push(r.clone());
            }
        }
    }
    let rows = vt.rows();
    check(&rows, "final screen", true);
    // every bar once, below the log
    for t in 0..(if c.multi { drawers } else { 1 }) {
        let n = rows.iter().filter(|r| r.starts_with(&format!("B{t}:"))).count();
        assert!(n == 1, "LOG: bar B{t} is on the final screen {n} times: {rows:?}");
    }
    let _ = wrap_rows;
}

fn run_log(c: &LogCase) -> CaseResult {
    let case = Arc::new(c.clone());
    let mut cfg = shuttle::Config::new();
    cfg.failure_persistence = shuttle::FailurePersistence::None;
    cfg.max_steps = shuttle::MaxSteps::FailAfter(500_000);
    let iters = c.schedules.max(1) as usize;
    let c2 = case.clone();
    let _clk = clock::Armed::new();
    let r = catch(move || match c2.pct_depth {
        Some(d) => shuttle::Runner::new(PctScheduler::new_from_seed(c2.seed, d.clamp(1, 5) as usize, iters), cfg).run({
            let c3 = c2.clone();
            move || body(&c3)
        }),
        None => shuttle::Runner::new(RandomScheduler::new_from_seed(c2.seed, iters), cfg).run({
            let c3 = c2.clone();
            move || body(&c3)
        }),
    });
    match r {
        Ok(_) => {
            let mut v = Verdict::default();
            v.nontrivial = true;
            v.label("schedules_explored");
            v.label_if(c.multi, "multi_progress");
            v.label_if(!c.multi, "stand_alone_bar");
            v.label_if(c.printer, "with_println_thread");
            v.label_if(c.hz < 50, "rate_limited_target");
            v.label_if(c.pct_depth.is_some(), "pct_scheduler");
            Ok(v)
        }
        Err(msg) => {
            let kind = if msg.contains("deadlock") {
                "deadlock"
            } else if msg.contains("LOG:") {
                "log_under_concurrency"
            } else {
                "panic"
            };
            Err(Fail::new(kind, format!("{c:?}: {msg}")))
        }
    }
}

pub fn property() -> Property {
    Property {
        id: "C03",
        level: "exploration",
        assumptions: &[
            "hooks on: every lock/condvar/spawn/join is a scheduling point of shuttle, and so is the gap between two lines the suspend closure writes; schedules are random or PCT, seeded",
            "virtual clock shared by the shuttle threads (they run on one OS thread), advanced by each thread before its calls",
        ],
        parts: vec![Box::new(Gen::<LogCase> {
            name: "sched_log",
            rule: "a MultiProgress with 1-2 bars or one stand-alone bar; 1-2 shuttle threads tick/inc/set_message 1-4 times, one thread runs suspend with a closure that writes 2-3 token lines and yields between them, optionally one thread calls println twice; refresh rate 1..255 Hz on a virtual clock; 150 (thorough 2000) random or PCT schedules per program; on every flushed frame and on the final screen each token line is on its own row at most once, in order, never gone again once seen, and at the end all are there above the bars, each bar once",
            strategy: |t| {
                let schedules = t.pick(150u32, 2000);
                (any::<bool>(), 1u8..=2, 1u8..=4, 2u8..=3, any::<bool>(), prop_oneof![Just(255u8), Just(20u8), 1u8..=255], 8u8..=40, any::<u64>(), proptest::option::weighted(0.3, 1u8..4))
                    .prop_map(move |(multi, drawers, updates, closure_lines, printer, hz, cols, seed, pct_depth)| LogCase { multi, drawers, updates, closure_lines, printer, hz, cols, seed, schedules, pct_depth })
                    .boxed()
            },
            cases: |t| t.pick(40, 600),
            run: run_log,
            signature: no_signature,
            essential: &["schedules_explored", "multi_progress", "stand_alone_bar", "with_println_thread", "pct_scheduler"],
            workers: default_workers(),
            decode: None,
        })],
    }
}

/// The same machinery for C01 (one stand-alone bar shared by the threads): "the lines printed through
/// println/suspend, in order, followed by the bar" must also hold when another thread draws while a
/// suspend closure runs - the documentation promises that the bar's lock is held meanwhile.
pub fn property_c01() -> Property {
    Property {
        id: "C01",
        level: "exploration",
        assumptions: &["hooks on: every lock/condvar/spawn/join is a scheduling point of shuttle, and so is the gap between two lines the suspend closure writes"],
        parts: vec![Box::new(Gen::<LogCase> {
            name: "sched_suspend",
            rule: "one stand-alone bar shared by 1-2 shuttle threads that tick/inc/set_message and one that runs suspend with a closure writing 2-3 token lines with a scheduling point between them, optionally one that calls println twice; 150 (thorough 2000) random or PCT schedules per program; on every flushed frame and at the end each token line is alone on its row, at most once, in order, never gone once seen, and at the end all are there above the bar, the bar once",
            strategy: |t| {
                let schedules = t.pick(150u32, 2000);
                (1u8..=2, 1u8..=4, 2u8..=3, any::<bool>(), prop_oneof![Just(255u8), Just(20u8), 1u8..=255], 8u8..=40, any::<u64>(), proptest::option::weighted(0.3, 1u8..4))
                    .prop_map(move |(drawers, updates, closure_lines, printer, hz, cols, seed, pct_depth)| LogCase { multi: false, drawers, updates, closure_lines, printer, hz, cols, seed, schedules, pct_depth })
                    .boxed()
            },
            cases: |t| t.pick(30, 400),
            run: run_log,
            signature: no_signature,
            essential: &["schedules_explored", "stand_alone_bar", "with_println_thread", "pct_scheduler"],
            workers: default_workers(),
            decode: None,
        })],
    }
}
