#![allow(dead_code)]
//! `vhs C08 <quick|thorough>` | `vhs C08 --replay <file>`: schedule-generated checks (shuttle).
#[path = "../../harness/src/runner.rs"]
mod runner;
#[path = "../../harness/src/clock.rs"]
mod clock;
#[path = "../../harness/src/vterm.rs"]
mod vterm;
mod c02s;
mod c03s;
mod c09s;
mod c16s;
mod c08;

use runner::Tier;

fn main() {
    let args: Vec<String> = std::env::args().collect();
    runner::install_panic_hook();
    let id = args.get(1).map(|s| s.to_uppercase()).unwrap_or_default();
    if args.len() < 3 || !["C08", "C01", "C02", "C03", "C09", "C16"].contains(&id.as_str()) {
        eprintln!("usage: vhs <C08|C01|C02|C03|C09|C16> <quick|thorough> | vhs <C08|C01|C02|C03|C09|C16> --replay <file>");
        std::process::exit(2);
    }
    let seed: u64 = std::env::var("VERIF_SEED").ok().and_then(|s| s.trim().parse::<i128>().ok()).map(|v| v as u64).unwrap_or(0);
    let prop = match id.as_str() {
        "C02" => c02s::property(),
        "C01" => c03s::property_c01(),
        "C03" => c03s::property(),
        "C16" => c16s::property(),
        "C09" => c09s::property(),
        _ => c08::property(),
    };
    if args[2] == "--replay" {
        let Some(path) = args.get(3) else {
            eprintln!("--replay needs a file");
            std::process::exit(2);
        };
        runner::start_watchdog(600);
        std::process::exit(runner::run_replay(&prop, path));
    }
    let tier = match args[2].as_str() {
        "quick" => Tier::Quick,
        "thorough" => Tier::Thorough,
        t => {
            eprintln!("unknown tier {t}");
            std::process::exit(2);
        }
    };
    runner::start_watchdog(tier.pick(1500, 6 * 3600));
    std::process::exit(runner::run_property(&prop, tier, seed));
}
