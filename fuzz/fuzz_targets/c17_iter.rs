#![no_main]
// libFuzzer target: bytes -> hand-written decoder of part "iter" of C17 -> the part's own oracle
use libfuzzer_sys::fuzz_target;
fuzz_target!(|data: &[u8]| {
    vh::fuzzbridge::fuzz_one("C17", "iter", data);
});
