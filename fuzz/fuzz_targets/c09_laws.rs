#![no_main]
// libFuzzer target: bytes -> hand-written decoder of part "laws" of C09 -> the part's own oracle
use libfuzzer_sys::fuzz_target;
fuzz_target!(|data: &[u8]| {
    vh::fuzzbridge::fuzz_one("C09", "laws", data);
});
