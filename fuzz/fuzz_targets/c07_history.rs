#![no_main]
// libFuzzer target: bytes -> hand-written decoder of part "history" of C07 -> the part's own oracle
use libfuzzer_sys::fuzz_target;
fuzz_target!(|data: &[u8]| {
    vh::fuzzbridge::fuzz_one("C07", "history", data);
});
