#![no_main]
// libFuzzer target: bytes -> hand-written decoder of part "single" of C18 -> the part's own oracle
use libfuzzer_sys::fuzz_target;
fuzz_target!(|data: &[u8]| {
    vh::fuzzbridge::fuzz_one("C18", "single", data);
});
