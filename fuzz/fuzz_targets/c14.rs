#![no_main]
use libfuzzer_sys::fuzz_target;
fuzz_target!(|data: &[u8]| { vh::fuzzbridge::fuzz_one("C14", "builder", data); });
